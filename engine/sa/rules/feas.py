"""Shared analyses of C05 / C06.

 * the feasibility rule (|f| < tol for equalities, f < tol for inequalities) as a table
   {equality kind -> comparison}, independent of how the case split is written;
 * PathEval: a small path-sensitive evaluator of bools / enum discriminants / `?` payloads, used to
   decide "what does this flag hold when the loop comes round again" and "where does this path end"
   without looking at the syntactic shape (`if f { f = x? }` == `f = f && x?` == `if !x? { f = false }`);
 * origins(): where the value of a scalar comes from, through copies, `Ok(..)`/`Some(..)` wrappers and `?`;
 * idiom tables: tests of an enum value, "insert only if the key is absent", constants behind `let`s.
"""
from .common import *


# ------------------------------------------------------------------------------------------------
# small helpers
# ------------------------------------------------------------------------------------------------
def const_value(body, text):
    """f64 value of a constant operand: a literal, or a NAMED constant (`const ATOL: f64 = 1e-6;` at item or function level), which
    is resolved to the value of its single definition in the constants table of the facts -- the name itself means nothing"""
    v = T.f64_const(text)
    if v is not None: return v
    F = getattr(body, 'facts', None)
    t = text.strip()
    if t.startswith('const '): t = t[6:]
    if F is not None and t in F.consts: return T.f64_const(F.consts[t][1])
    return None


def f64_of_operand(body, operand, depth=8):
    """the f64 constant an operand holds: literal, named constant, or hoisted into a `let` (single-definition copies)"""
    if operand is None: return None
    if operand['k'] == 'const': return const_value(body, operand['v'])
    e = T.strip_wrappers(T.expr(body, operand, depth=depth))
    if e[0] == 'const': return const_value(body, e[1])
    return None


def const_operand(ctx, rule, body, call, idx, expect, what, tol=0.0):
    """T-CONST: argument idx of `call` is the constant `expect` (written inline or bound to a name first)"""
    a = call.args[idx] if idx < len(call.args) else None
    val = f64_of_operand(body, a)
    ok = val is not None and abs(val - expect) <= tol * abs(expect)
    ctx.check(ok, rule, 'T-CONST', body.name, '%s: expected constant %r, found %s' % (what, expect, operand_str(a) if a else 'nothing'), body.site(call.bb))
    return ok


NO_CALLS = re.compile(r'$^')


def canon(body, operand):
    """(root local, fields) of the place an operand reads, through single-definition copies, `&` and `*` only
    (no call is crossed): two operands with the same canon read the same memory"""
    fs, root, calls = T.access_path(body, operand, transparent=NO_CALLS)
    return root, tuple(fs)


def whole(l):
    return {'k': 'copy', 'pl': {'l': l, 'p': []}}


def is_const(body, operand, text):
    e = T.strip_wrappers(T.expr(body, operand))
    return e[0] == 'const' and e[1].replace('const ', '').strip() == text


def generic_param(ty):
    return bool(ty) and re.fullmatch(r'[A-Z]\w*', ty) is not None


def item_calls(body, lo, ty, item, trait='Evaluate'):
    """`x.<item>(..)` calls (of `trait`) on the items of a loop whose items have type `ty`.  After a generic helper
    `fn f<C: Evaluate>(items: &[C])` has been inlined the callee reads `<C as Evaluate>::<item>`: then the
    receiver must be the loop item itself (its type is the element type of the list iterated)."""
    nextc, header, some_bb, none_bb, blocks = lo
    out = []
    for c in body.calls:
        if c.bb not in blocks or c.item != item or not (c.trait or '').endswith(trait): continue
        st = c.self_ty or ''
        if re.search(re.escape(ty) + '$', st): out.append(c)
        elif generic_param(st):
            fs, root, calls = T.access_path(body, c.args[0])
            if root == nextc.dst['l'] and all(T.WRAPPER_OWNER.search(a) for a, f in fs): out.append(c)
    return out


def innermost_loop(body, bb):
    best = None
    for h, blocks in body.loops().items():
        if bb in blocks and (best is None or len(blocks) < len(best[1])): best = (h, blocks)
    return best


def enum_variants(ctx, enum_suffix):
    a = ctx.F.adt(enum_suffix)
    if a is None: return {}
    return {v['discr']: v['name'] for v in a['variants']}


def _local_ty(body, l):
    return re.sub(r"&('\w+ )?(mut )?", '', body.locals[l]).strip()


def enum_tests(ctx, body, enum_suffix, blocks=None, raw_field=None):
    """Tests of a value of enum type `enum_suffix` against one of its variants, whatever the idiom:
         (a) `x == E::V`, `x != E::V`                      PartialEq::eq / ne + bool switch
         (b) `match x { E::V => .. }`, `matches!(x, E::V)`, `if let E::V = x`
                                                           discr(x) + switch on the variant index
         (c) `raw == E::V as i32`                          integer comparison of the prost i32 field
       -> list of (variant name, switch bb, target when equal, [targets when not equal])"""
    out = []
    names = enum_variants(ctx, enum_suffix)
    inb = (lambda bi: True) if blocks is None else (lambda bi: bi in blocks)
    # (a)
    for c in body.calls:
        if not inb(c.bb): continue
        if c.item in ('eq', 'ne') and 'PartialEq' in (c.trait or '') and re.search(re.escape(enum_suffix) + '$', c.self_ty or ''):
            vs = [enum_variant_of_operand(ctx, body, a) for a in c.args]
            var = [v.split('::')[-1] for v in vs if v and (enum_suffix.split('::')[-1] + '::') in v]
            if not var: continue
            for sb, neg in T.bool_flow(body, c.dst['l']):
                tb, fb = T.switch_sides(body, sb, neg)
                if c.item == 'ne': tb, fb = fb, tb
                if tb is not None: out.append((var[0], sb, tb, [fb] if fb is not None else []))
    # (b)
    for bi, st in body.stmts():
        if not inb(bi) or st['rv']['k'] != 'discr' or st['dst']['p']: continue
        pl = st['rv']['pl']
        if any(p != '*' for p in pl['p']): continue
        ty = _local_ty(body, pl['l'])
        if not (ty == enum_suffix or ty.endswith('::' + enum_suffix)): continue
        for k3, b3, sw in body.uses.get(st['dst']['l'], ()):
            if k3 != 'switch': continue
            tgs = [tg for v, tg in sw['ts']] + [sw['else']]
            for v, tg in sw['ts']:
                if v in names: out.append((names[v], b3, tg, [x for x in tgs if x != tg]))
    # (c)
    for bi, st in body.stmts():
        rv = st['rv']
        if not inb(bi) or rv['k'] != 'bin' or rv['op'] not in ('Eq', 'Ne') or st['dst']['p']: continue
        cs = [o for o in rv['ops'] if o['k'] == 'const']; vs = [o for o in rv['ops'] if o['k'] != 'const']
        if len(cs) != 1 or len(vs) != 1: continue
        m = re.match(r'^(?:const )?(-?\d+)_i32$', cs[0]['v'].strip())
        if not m or int(m.group(1)) not in names: continue
        if raw_field is None or not any(f == raw_field for a, f in T.expr_fields(T.expr(body, vs[0]))): continue
        for sb, neg in T.bool_flow(body, st['dst']['l']):
            tb, fb = T.switch_sides(body, sb, neg)
            if rv['op'] == 'Ne': tb, fb = fb, tb
            if tb is not None: out.append((names[int(m.group(1))], sb, tb, [fb] if fb is not None else []))
    return out


# ------------------------------------------------------------------------------------------------
# the feasibility rule
# ------------------------------------------------------------------------------------------------
def _param_roles(ctx, parent, closure):
    """for a closure that is called through a fn pointer (`let p: fn(f64, f64) -> bool = match .. { K => |v, t| .. }`):
    which of its parameters receives the tolerance.  Decided at the indirect call sites of the parent
    (and of the parent's closures): an argument that is a constant or a whole f64 parameter of the parent is the
    tolerance, anything else the value."""
    roles = {}
    sites = []
    for b in [parent] + list(ctx.F.bodies.values()):
        if b is not parent and not (b.kind == 'closure' and b.parent == parent.name): continue
        for c in b.calls:
            if (c.orig or '').startswith('<indirect:') and len(c.args) == closure.argc - 1: sites.append((b, c))
    for b, c in sites:
        for j, a in enumerate(c.args):
            e = T.strip_wrappers(T.expr(b, a))
            is_tol = e[0] == 'const'
            if not is_tol and a['k'] in ('copy', 'move'):
                fs, root, calls = T.access_path(b, a)
                if b is parent: is_tol = root is not None and 1 <= root <= parent.argc and parent.locals[root] == 'f64' and not fs
                else:
                    # captured by the iteration closure: `&atol` of the parent
                    is_tol = root == 1 and b.locals[a['pl']['l']] == 'f64' and _captured_is_f64_param(ctx, parent, b, fs)
            r = 'tol' if is_tol else 'value'
            if roles.get(j + 2, r) != r: roles[j + 2] = 'value'
            else: roles[j + 2] = r
    return roles


def _captured_is_f64_param(ctx, parent, closure, fs):
    """the capture slot crossed by `fs` holds a reference to a whole f64 parameter of the parent"""
    slots = [f for a, f in fs if f.isdigit()]
    if not slots: return False
    for bi, st, cl in parent.closures_created():
        if cl != closure.name: continue
        ops = st['rv']['ops']; k = int(slots[0])
        if k < len(ops):
            f2, root, calls = T.access_path(parent, ops[k])
            return root is not None and 1 <= root <= parent.argc and parent.locals[root] == 'f64' and not f2
    return False


def _describe_cmp(b, st, roles=None):
    """one f64 comparison, oriented so that the tested value is on the left and the tolerance on the right"""
    rv = st['rv']; op = rv['op']
    l = T.expr(b, rv['ops'][0]); r = T.expr(b, rv['ops'][1])
    def is_tol(e):
        e = T.strip_wrappers(e)
        if e[0] == 'const': return True
        if e[0] == 'place' and not e[2] and 1 <= e[1] <= b.argc:
            if b.kind == 'closure': return (roles or {}).get(e[1]) == 'tol'
            return b.locals[e[1]] == 'f64'
        return False
    lt, rt = is_tol(l), is_tol(r)
    if lt and not rt:
        l, r = r, l
        op = {'Lt': 'Gt', 'Gt': 'Lt', 'Le': 'Ge', 'Ge': 'Le'}.get(op, op)
    elif lt == rt:
        # cannot tell the sides apart (value vs value / tolerance vs tolerance): legacy orientation by `abs` / field
        def looks_value(e): return T.expr_has_call(e, 'abs') or any(f == 'evaluated_value' for a, f in T.expr_fields(e))
        if looks_value(r) and not looks_value(l):
            l, r = r, l
            op = {'Lt': 'Gt', 'Gt': 'Lt', 'Le': 'Ge', 'Ge': 'Le'}.get(op, op)
    tol = T.strip_wrappers(r)
    tolv = const_value(b, tol[1]) if tol[0] == 'const' else 'given'
    return dict(op=op, abs=T.expr_has_call(l, 'abs'), tol=tolv, value=T.expr_str(l), neg=any(x[0] == 'un' and x[1] == 'Neg' for x in T.expr_walk(l)))


def _cmps_in(ctx, b, blocks, parent=None, depth=0):
    out = []
    roles = _param_roles(ctx, parent, b) if (parent is not None and b.kind == 'closure') else None
    for bi, st in b.stmts():
        if bi in blocks and st['rv']['k'] == 'bin' and st['rv']['op'] in ('Lt', 'Le', 'Gt', 'Ge') and st['rv'].get('ty') == 'f64':
            out.append(_describe_cmp(b, st, roles))
    if depth < 3:
        for bi, st, cl in b.closures_created():
            if bi in blocks and cl not in getattr(ctx.F, 'inlined_closures', ()):     # a spliced closure is already part of `b`
                cb = ctx.F.bodies.get(cl)
                if cb is not None: out += _cmps_in(ctx, cb, cb.live, parent=(parent or b), depth=depth + 1)
    return out


def feasibility_table(ctx, body, blocks=None):
    """{equality kind: [comparison descriptors on the side where equality == kind]}, uncovered:
    True if, with every test of the equality kind failing, an Ok-exit (or, inside a loop, the next
    iteration) is reachable"""
    table = {}; true_targets = set(); first = None
    tests = enum_tests(ctx, body, 'v1::Equality', blocks, raw_field='equality')
    for var, sb, tb, others in tests:
        true_targets.add(tb)
        if first is None or body.dominates(sb, first): first = sb
        il = innermost_loop(body, sb)
        stop = {il[0]} if il is not None else set()            # a test inside a loop decides this iteration only
        region = T.reach_cp(body, [tb], stop=stop) - (T.reach_cp(body, others, stop=stop) if others else set())
        if blocks is not None: region &= set(blocks)
        cmps = _cmps_in(ctx, body, region)
        if not cmps:
            # a kind whose arm only raises the error (`Equality::Unspecified => bail!(..)`) is not a kind that is handled
            arr, rets, complete = PathEval(ctx, body).explore(tb, {}, stop=stop)
            if complete and not any(result_kind(e) == 'ok' for e in rets) and not any(arr.get(h) for h in stop): continue
        for d in cmps:
            if d not in table.setdefault(var, []): table[var].append(d)
        table.setdefault(var, [])
    if not tests: return table, True
    # with every test of the kind failing: no Ok result and (inside a loop) no next iteration.  Decided on paths, so
    # that an `Err` built in a spliced closure and `?`-ed later is followed to the error exit.
    lo = innermost_loop(body, first)
    stop = set(true_targets) | ({lo[0]} if lo is not None else set())
    arr, rets, complete = PathEval(ctx, body).explore(first, {}, stop=stop)
    uncovered = (not complete) or any(result_kind(e) == 'ok' for e in rets) or (lo is not None and bool(arr.get(lo[0])))
    return table, uncovered


WANT = {'EqualToZero': dict(op='Lt', abs=True), 'LessThanOrEqualToZero': dict(op='Lt', abs=False)}


def check_feasibility_rule(ctx, rule, body, tol_expect, blocks=None):
    """tol_expect: 'given' (tolerance is a parameter) or a float.  blocks: restrict to a region (a loop body)"""
    table, uncovered = feasibility_table(ctx, body, blocks)
    ctx.check(set(table) == set(WANT), rule + '/variants', 'T-TABLE', body.name, 'equality kinds handled: %s, expected %s' % (sorted(table), sorted(WANT)), body.site())
    for var, want in WANT.items():
        got = table.get(var, [])
        ok = len(got) == 1 and got[0]['op'] == want['op'] and got[0]['abs'] == want['abs'] and not got[0]['neg']
        ctx.check(ok, rule + '/' + var, 'T-BRANCHFX', body.name,
                  '%s must be decided by `%svalue%s < tol` (strict), found %s' % (var, '|' if want['abs'] else '', '|' if want['abs'] else '', got), body.site(), found=got)
        if len(got) == 1:
            t = got[0]['tol']
            okt = (t == 'given') if tol_expect == 'given' else (isinstance(t, float) and abs(t - tol_expect) <= 1e-12 * abs(tol_expect))
            ctx.check(okt, rule + '/' + var + '/tolerance', 'T-CONST', body.name, 'tolerance is %r, expected %r' % (t, tol_expect), body.site())
    ctx.check(not uncovered and bool(body.err_exits()), rule + '/other-is-error', 'T-TABLE', body.name, 'an unsupported equality kind does not lead to an error', body.site())
    return table


# ------------------------------------------------------------------------------------------------
# origins of a scalar
# ------------------------------------------------------------------------------------------------
OK_WRAP = ('Result::Ok', 'Option::Some'); ERR_WRAP = ('Result::Err', 'Option::None')
PASS_OK = re.compile(r'::(map_err|context|with_context|ok_or|ok_or_else|as_ref|copied|cloned)(::<.*>)?$')


def _payload_kind(pl):
    """'' for a plain local, 'cont' / 'ok' for `(x as Continue).0` / `(x as Some|Ok).0`, None for anything else"""
    p = [x for x in pl['p'] if x != '*']
    if not p: return ''
    if len(p) == 2 and isinstance(p[0], dict) and 'dc' in p[0] and isinstance(p[1], dict) and p[1].get('f') == '0':
        if p[0]['dc'] == 'Continue': return 'cont'
        if p[0]['dc'] in ('Some', 'Ok'): return 'ok'
    return None


def ref_aliases(body, l):
    """locals that hold a `&mut` / `&` to local l itself: `p = &mut l`, copies of p, reborrows `&mut *p` (the parameter of an inlined helper `fn h(flag: &mut bool)`)"""
    out = set(); changed = True
    while changed:
        changed = False
        for bi, st in body.stmts():
            d = st['dst']; rv = st['rv']
            if d['p'] or d['l'] in out: continue
            if len([x for x in body.defs_of(d['l']) if not (x[0] == 'stmt' and x[2]['dst']['p'])]) != 1: continue      # writes THROUGH the reference are not definitions of it
            hit = False
            if rv['k'] == 'ref' and ((rv['pl']['l'] == l and not rv['pl']['p']) or (rv['pl']['l'] in out and rv['pl']['p'] == ['*'])): hit = True
            elif rv['k'] == 'use' and rv['ops'][0]['k'] in ('copy', 'move') and rv['ops'][0]['pl']['l'] in out and not rv['ops'][0]['pl']['p']: hit = True
            if hit: out.add(d['l']); changed = True
    return out


def all_defs(body, l):
    """definitions of local l: direct ones, and assignments through a reference to it (`*flag = v` with `flag = &mut l`), presented as whole definitions of l"""
    out = list(body.defs_of(l))
    al = ref_aliases(body, l)
    if al:
        for bi, st in body.stmts():
            if st['dst']['l'] in al and st['dst']['p'] == ['*']:
                st2 = dict(st); st2['dst'] = {'l': l, 'p': []}
                out.append(('stmt', bi, st2))
    return out


def origins(body, operand, at_bb=None, uses=None):
    """Where a scalar value comes from, followed backwards over *all* definitions through plain copies,
    `&`-borrows, `Ok(..)`/`Some(..)`/`Continue(..)` wrappers, `?` (Try::branch) and `&`/`&&`.
    -> (locals holding the value itself, leaves) ; a leaf is (kind, bb, obj):
         ('const', bb, text) | ('call', bb, Call)  value returned (or wrapped in the Ok of the value returned) by a call
         | ('place', bb, expression tree of a field / nested projection that is read) | ('param', 0, index) | ('other', bb, description)
    With at_bb (the block in which `operand` is read) the walk is flow-aware: a definition counts only if the read is reachable from it --
    `snapshot = flag` inside a first loop does not see what a later loop assigns to `flag`.  `uses` (a dict) receives, per holder, the blocks
    in which it is read on the way."""
    _reach = {}
    def reaches(bi, ub):
        if ub is None or ub < 0 or bi == ub: return True
        if bi not in _reach: _reach[bi] = body.reach(body.succ(bi))
        return ub in _reach[bi]
    holders = set(); leaves = []; seen = set(); work = []
    def visit_op(o, mode, bb):
        if o['k'] == 'const':
            if mode == '': leaves.append(('const', bb, o['v']))
            return
        if o['k'] not in ('copy', 'move'): leaves.append(('other', bb, 'operand')); return
        pk = _payload_kind(o['pl'])
        if pk is None: leaves.append(('place', bb, T.expr(body, o))); return            # a field of something: described by its expression
        if pk and mode: leaves.append(('other', bb, 'nested wrapper')); return
        work.append((o['pl']['l'], pk or mode, bb if at_bb is not None else None))
    visit_op(operand, '', at_bb if at_bb is not None else -1)
    while work:
        l, mode, ub = work.pop()
        if (l, mode, ub) in seen: continue
        seen.add((l, mode, ub))
        if mode == '':
            holders.add(l)
            if uses is not None: uses.setdefault(l, set()).add(ub)
        if 1 <= l <= body.argc:
            leaves.append(('param', 0, l)); continue
        for k, bi, d in all_defs(body, l):
            if not reaches(bi, ub): continue
            if k == 'stmt':
                if d['dst']['p']: leaves.append(('other', bi, 'partial write')); continue
                rv = d['rv']; kk = rv['k']
                if kk == 'use': visit_op(rv['ops'][0], mode, bi)
                elif kk == 'ref': visit_op({'k': 'copy', 'pl': rv['pl']}, mode, bi)
                elif kk == 'agg':
                    adt = rv['adt']
                    if mode == 'ok' and adt.endswith(OK_WRAP): visit_op(rv['ops'][0], '', bi)
                    elif mode == 'ok' and adt.endswith(ERR_WRAP): pass                       # the error path carries no value
                    elif mode == 'cont' and adt.endswith('ControlFlow::Continue'): visit_op(rv['ops'][0], '', bi)
                    elif mode == 'cont' and adt.endswith('ControlFlow::Break'): pass
                    else: leaves.append(('other', bi, 'aggregate ' + adt))
                elif kk == 'bin' and rv['op'] in ('BitAnd',) and mode == '':
                    for o in rv['ops']: visit_op(o, '', bi)
                else: leaves.append(('other', bi, kk + (':' + rv.get('op', '') if 'op' in rv else '')))
            else:
                nm = d['r'] or d['f']
                call = [c for c in body.calls if c.bb == bi][0]
                if mode == 'cont' and T.TRY_BRANCH.search(nm): visit_op(d['args'][0], 'ok', bi)
                elif mode == 'ok' and T.FROM_RESIDUAL.search(nm): pass
                elif mode == 'ok' and PASS_OK.search(T.strip_generics_tail(nm)) and d['args']: visit_op(d['args'][0], 'ok', bi)
                elif mode == '' and re.search(r'<bool as std::clone::Clone>::clone$', nm): visit_op(d['args'][0], '', bi)
                elif mode in ('', 'ok'): leaves.append(('call', bi, call))
                else: leaves.append(('other', bi, 'call ' + nm[:60]))
    return holders, leaves


def value_sources(body, operand, max_steps=200):
    """Like origins(), for values that travel inside tuples: follows ALL definitions backwards while keeping a stack of the
    projections still to be applied -- ('t', i) tuple component, 'ok' payload of Ok/Some, 'cont' payload of Continue -- so that
        let (v, ids) = match f { Some(f) => f.evaluate(s)?, None => (0.0, BTreeSet::new()) };   ..  v
    yields the two sources of v: the evaluate call (pending ['ok', ('t', 0)]) and the constant 0.0.
    -> list of (kind, bb, obj, pending):  ('const', bb, text, []) | ('call', bb, Call, pending) | ('place', bb, expr, pending)
       | ('param', 0, index, pending) | ('other', bb, description, pending)"""
    leaves = []; seen = set(); work = []
    def elems(pl):
        out = []; p = [x for x in pl['p'] if x != '*']; i = 0
        while i < len(p):
            x = p[i]
            if isinstance(x, dict) and 'dc' in x and i + 1 < len(p) and isinstance(p[i + 1], dict) and p[i + 1].get('f') == '0' and x['dc'] in ('Continue', 'Some', 'Ok'):
                out.append('cont' if x['dc'] == 'Continue' else 'ok'); i += 2; continue
            if isinstance(x, dict) and 'f' in x and x.get('of') == 'tuple' and x['f'].isdigit(): out.append(('t', int(x['f']))); i += 1; continue
            return None
        return out
    def visit_op(o, pending, bb):
        if o['k'] == 'const':
            leaves.append(('const', bb, o['v'], list(pending))); return
        if o['k'] not in ('copy', 'move'): leaves.append(('other', bb, 'operand', list(pending))); return
        el = elems(o['pl'])
        if el is None: leaves.append(('place', bb, T.expr(body, o), list(pending))); return       # a struct field is read: a leaf
        work.append((o['pl']['l'], tuple(el + list(pending))))
    visit_op(operand, [], -1)
    steps = 0
    while work and steps < max_steps:
        steps += 1
        l, pending = work.pop()
        if (l, pending) in seen: continue
        seen.add((l, pending)); pending = list(pending)
        if 1 <= l <= body.argc: leaves.append(('param', 0, l, pending)); continue
        for k, bi, d in body.defs_of(l):
            if k == 'stmt':
                if d['dst']['p']: leaves.append(('other', bi, 'partial write', pending)); continue
                rv = d['rv']; kk = rv['k']
                if kk == 'use': visit_op(rv['ops'][0], pending, bi)
                elif kk == 'ref': visit_op({'k': 'copy', 'pl': rv['pl']}, pending, bi)
                elif kk == 'agg':
                    adt = rv['adt']; top = pending[0] if pending else None
                    if adt == 'tuple' and isinstance(top, tuple) and top[1] < len(rv['ops']): visit_op(rv['ops'][top[1]], pending[1:], bi)
                    elif top == 'ok' and adt.endswith(OK_WRAP): visit_op(rv['ops'][0], pending[1:], bi)
                    elif top == 'ok' and adt.endswith(ERR_WRAP): pass
                    elif top == 'cont' and adt.endswith('ControlFlow::Continue'): visit_op(rv['ops'][0], pending[1:], bi)
                    elif top == 'cont' and adt.endswith('ControlFlow::Break'): pass
                    else: leaves.append(('other', bi, 'aggregate ' + adt, pending))
                else: leaves.append(('other', bi, kk, pending))
            else:
                nm = d['r'] or d['f']; top = pending[0] if pending else None
                call = [c for c in body.calls if c.bb == bi][0]
                if top == 'cont' and T.TRY_BRANCH.search(nm): visit_op(d['args'][0], ['ok'] + pending[1:], bi)
                elif top == 'ok' and T.FROM_RESIDUAL.search(nm): pass
                elif top == 'ok' and PASS_OK.search(T.strip_generics_tail(nm)) and d['args']: visit_op(d['args'][0], pending, bi)
                else: leaves.append(('call', bi, call, pending))
    return leaves


# ------------------------------------------------------------------------------------------------
# path-sensitive evaluation
# ------------------------------------------------------------------------------------------------
VARIANT_IDX = {'Option::None': 0, 'Option::Some': 1, 'Result::Ok': 0, 'Result::Err': 1, 'ControlFlow::Continue': 0, 'ControlFlow::Break': 1}
DC_IDX = {'None': 0, 'Some': 1, 'Ok': 0, 'Err': 1, 'Continue': 0, 'Break': 1}


def _mentions(v, atom):
    if v == atom: return True
    if isinstance(v, tuple): return any(_mentions(x, atom) for x in v)
    return False


def _subst(v, old, new):
    if v == old: return new
    if isinstance(v, tuple) and len(v) == 2 and v[0] == 'tup': return ('tup', tuple(_subst(x, old, new) for x in v[1]))
    if isinstance(v, tuple) and v and v[0] in ('not', 'disc', 'branch', 'then', 'd', 'ref', 'payload', 'tup'):
        return _simplify(tuple(_subst(x, old, new) for x in v))
    return v


def _simplify(v):
    if not isinstance(v, tuple) or not v: return v
    k = v[0]
    if k == 'not':
        a = v[1]
        if isinstance(a, tuple) and a and a[0] == 'b': return ('b', not a[1])
        if isinstance(a, tuple) and a and a[0] == 'not': return a[1]
    elif k == 'disc':
        a = v[1]
        if isinstance(a, tuple) and a and a[0] == 'd': return ('i', a[1])
    elif k == 'then':
        a = v[1]
        if isinstance(a, tuple) and a and a[0] == 'b': return ('d', 1 if a[1] else 0, None)
    elif k == 'branch':
        a = v[1]
        if isinstance(a, tuple) and a and a[0] == 'd': return _branch_of(a, v[2])
    elif k == 'payload':
        a = v[1]
        if isinstance(a, tuple) and a and a[0] == 'd': return a[2]
    return v


def _branch_of(a, is_opt):
    """Try::branch of a known Result / Option value"""
    okidx = 1 if is_opt else 0
    if a[1] == okidx: return ('d', 0, a[2])
    return ('d', 1, a)


class PathEval:
    """Forward exploration of the CFG with an environment {local: value} per path.  Values:
         ('b', bool) | ('d', variant index, payload value) | ('i', int) | ('ref', local, mutable)
         | atoms: ('sym', local, site) unknown value first seen at a site, ('tok', bb) result of the call in bb, ('payload', atom)
         | ('not', atom) | ('disc', x) | ('branch', atom, is_option) | ('then', atom)
       A switch on a value built from an atom splits the path and records what the atom must be on each side
       (key ('fact', atom) in the environment)."""

    def __init__(self, ctx, body, max_states=6000, track_bools=True):
        self.ctx = ctx; self.b = body; self.max_states = max_states
        self.track_bools = track_bools          # False: unknown bools get no symbol (far fewer states; enough for "does an error value take the Break arm")

    # ---- reading
    def _fresh(self, env, atom):
        for k in [k for k, v in env.items() if _mentions(v, atom) or (isinstance(k, tuple) and _mentions(k, atom))]:
            del env[k]
        return atom

    def read_place(self, env, pl, site):
        """site = (bb, stmt index, 'enum' if the value is read for its discriminant) identifies the read"""
        l = pl['l']; p = list(pl['p'])
        v = env.get(l)
        while p and p[0] == '*':
            p = p[1:]
            if isinstance(v, tuple) and v[0] == 'ref': l = v[1]; v = env.get(l)
            else: return None
        if not p:
            if v is None and site is not None and ((self.b.locals[l] == 'bool' and self.track_bools) or site[2] == 'enum'):
                v = self._fresh(env, ('sym', l, site[:2])); env[l] = v
            return v
        # payloads `(x as Some).0` and tuple components `.i`, nested in any order
        while p:
            if len(p) >= 2 and isinstance(p[0], dict) and 'dc' in p[0] and isinstance(p[1], dict) and p[1].get('f') == '0':
                if isinstance(v, tuple) and v[0] == 'd' and DC_IDX.get(p[0]['dc']) == v[1]: v = v[2]; p = p[2:]; continue
                return None
            if isinstance(p[0], dict) and p[0].get('of') == 'tuple' and p[0].get('f', '').isdigit():
                if isinstance(v, tuple) and v[0] == 'tup' and int(p[0]['f']) < len(v[1]): v = v[1][int(p[0]['f'])]; p = p[1:]; continue
                return None
            if p[0] == '*':
                if isinstance(v, tuple) and v[0] == 'ref': v = env.get(v[1]); p = p[1:]; continue
                return None
            return None
        return v

    def read(self, env, o, site):
        if o['k'] == 'const':
            if o['v'] in ('true', 'const true'): return ('b', True)
            if o['v'] in ('false', 'const false'): return ('b', False)
            return None
        if o['k'] in ('copy', 'move'): return self.read_place(env, o['pl'], site)
        return None

    def write(self, env, pl, v):
        l = pl['l']; p = list(pl['p'])
        while p and p[0] == '*':
            r = env.get(l)
            if isinstance(r, tuple) and r[0] == 'ref': l = r[1]; p = p[1:]
            else: return                       # write through an unknown pointer: nothing we track is a pointee of it
        if p: env.pop(l, None); return
        if v is None: env.pop(l, None)
        else: env[l] = v

    # ---- transfer
    def stmt(self, env, st, bi, si):
        rv = st['rv']; k = rv['k']; site = (bi, si, '')
        v = None
        if k == 'use': v = self.read(env, rv['ops'][0], site)
        elif k == 'un' and rv['op'] == 'Not':
            a = self.read(env, rv['ops'][0], site)
            v = _simplify(('not', a)) if a is not None else None
        elif k == 'bin' and rv['op'] in ('BitAnd', 'BitOr'):
            a = self.read(env, rv['ops'][0], site); c = self.read(env, rv['ops'][1], site)
            absorbing = ('b', rv['op'] == 'BitOr'); neutral = ('b', rv['op'] == 'BitAnd')
            if a == absorbing or c == absorbing: v = absorbing
            elif a == neutral: v = c
            elif c == neutral: v = a
        elif k == 'agg':
            adt = rv['adt']
            for suf, idx in VARIANT_IDX.items():
                if adt.endswith(suf):
                    v = ('d', idx, self.read(env, rv['ops'][0], site) if rv['ops'] else None); break
            if adt == 'tuple' and rv['ops']: v = ('tup', tuple(self.read(env, o, site) for o in rv['ops']))
        elif k == 'discr':
            a = self.read_place(env, rv['pl'], (bi, si, 'enum'))
            v = _simplify(('disc', a)) if a is not None else None
        elif k == 'ref':
            pl = rv['pl']
            if not pl['p']: v = ('ref', pl['l'], bool(rv.get('mut')))
            elif pl['p'] == ['*']:
                r = env.get(pl['l'])
                if isinstance(r, tuple) and r[0] == 'ref': v = ('ref', r[1], bool(rv.get('mut')) and r[2])
        self.write(env, st['dst'], v)

    def call(self, env, t, bi):
        nm = t['r'] or t['f']; site = (bi, -1, '')
        args = [self.read(env, a, site) for a in t['args']]
        for a in args:
            if isinstance(a, tuple) and a[0] == 'ref' and a[2]: env.pop(a[1], None)      # the callee may write through &mut
        a0 = args[0] if args else None
        base = T.strip_generics_tail(nm)
        v = None
        if T.NOT_CALL.search(nm): v = _simplify(('not', a0)) if a0 is not None else None
        elif T.TRY_BRANCH.search(nm):
            is_opt = 'std::option::Option<' in nm.split(' as ')[0]
            if a0 is None: a0 = self._fresh(env, ('tok', bi))
            v = _simplify(('branch', a0, is_opt)) if not (isinstance(a0, tuple) and a0[0] == 'd') else _branch_of(a0, is_opt)
        elif T.FROM_RESIDUAL.search(nm):
            v = ('d', 0, None) if nm.startswith('<std::option::Option<') else ('d', 1, None)
        elif re.search(r'bool>::then_some$|bool>::then$|<impl bool>::then(_some)?$', base):
            v = _simplify(('then', a0)) if a0 is not None else None
        elif re.search(r'Option::<.*>::(is_some|is_none)$|Result::<.*>::(is_ok|is_err)$', base) and isinstance(a0, tuple) and a0[0] == 'ref':
            x = env.get(a0[1])
            if isinstance(x, tuple) and x[0] == 'd':
                item = base.split('::')[-1]
                v = ('b', {'is_some': x[1] == 1, 'is_none': x[1] == 0, 'is_ok': x[1] == 0, 'is_err': x[1] == 1}[item])
        elif re.search(r'Option::<.*>::(ok_or|ok_or_else)$', base) and isinstance(a0, tuple) and a0[0] == 'd':
            v = ('d', 0, a0[2]) if a0[1] == 1 else ('d', 1, None)                      # Some(x) -> Ok(x), None -> Err
        elif re.search(r'anyhow::Context<.*>::(context|with_context)$', base) and isinstance(a0, tuple) and a0[0] == 'd':
            if nm.startswith('<std::option::Option<') or ' for std::option::Option<' in nm: v = ('d', 0, a0[2]) if a0[1] == 1 else ('d', 1, None)      # Context on an Option: Some(x) -> Ok(x), None -> Err
            else: v = ('d', a0[1], a0[2] if a0[1] == 0 else None)
        elif re.search(r'(Option|Result)::<.*>::(as_ref|as_mut|copied|cloned|map|map_err)$', base) and isinstance(a0, tuple) and a0[0] in ('d', 'ref'):
            x = env.get(a0[1]) if a0[0] == 'ref' else a0
            if isinstance(x, tuple) and x[0] == 'd': v = ('d', x[1], x[2] if base.endswith(('as_ref', 'as_mut', 'copied', 'cloned')) else None)
        elif re.search(r'Result::<.*>::and_then$', base) and isinstance(a0, tuple) and a0[0] == 'd' and a0[1] == 1:
            v = ('d', 1, None)                                  # Err(e).and_then(f) == Err(e): the closure only sees Ok payloads
        elif re.search(r'Option::<.*>::and_then$', base) and isinstance(a0, tuple) and a0[0] == 'd' and a0[1] == 0:
            v = ('d', 0, None)                                  # None.and_then(f) == None
        elif re.search(r'<bool as std::clone::Clone>::clone$', nm) and isinstance(a0, tuple) and a0[0] == 'ref':
            v = env.get(a0[1])
        if v is None: v = self._fresh(env, ('tok', bi))
        self.write(env, t['dst'], v)

    def switch(self, env, t, bi):
        """-> list of (target, env)"""
        v = self.read(env, t['d'], (bi, -2, '')) if t['d']['k'] != 'const' else None
        ts = t['ts']; els = t['else']
        m = {val: tg for val, tg in ts}
        if isinstance(v, tuple):
            if v[0] == 'b': return [(m.get(1 if v[1] else 0, els), env)]
            if v[0] == 'i': return [(m.get(v[1], els), env)]
        out = []
        def learn(e, atom, val):
            e2 = {}
            for k, x in e.items(): e2[k] = _subst(x, atom, val)
            e2[('fact', atom)] = val
            return e2
        bool_like = self.b.locals[t['d']['pl']['l']] == 'bool' if t['d']['k'] != 'const' else False
        for val, tg in ts + [[None, els]]:
            e = env
            if isinstance(v, tuple) and bool_like and set(m) <= {0, 1}:
                want = (val != 0) if val is not None else (0 in m)      # else-arm of `[[0, f]] else t` is true
                if val is None and len(m) == 2: want = None
                if want is not None:
                    if v[0] in ('sym', 'tok', 'payload'): e = learn(env, v, ('b', want))
                    elif v[0] == 'not' and v[1][0] in ('sym', 'tok', 'payload'): e = learn(env, v[1], ('b', not want))
            elif isinstance(v, tuple) and v[0] == 'disc' and val is not None:
                x = v[1]
                if x[0] in ('sym', 'tok', 'payload'): e = learn(env, x, ('d', val, ('payload', x)))
                elif x[0] == 'branch' and x[1][0] in ('sym', 'tok', 'payload'):
                    a = x[1]; is_opt = x[2]
                    if val == 0: e = learn(env, a, ('d', 1 if is_opt else 0, ('payload', a)))
                    else: e = learn(env, a, ('d', 0 if is_opt else 1, None))
                elif x[0] == 'then' and x[1][0] in ('sym', 'tok', 'payload'): e = learn(env, x[1], ('b', val == 1))
            out.append((tg, e))
        return out

    # ---- exploration
    def explore(self, start, env0, stop=()):
        """run from the beginning of block `start`.  -> (arrivals {stop bb: [env]}, returns [env], complete)"""
        b = self.b
        arrivals = {}; returns = []; seen = set(); work = [(start, dict(env0))]; self.visited = set()
        n = 0
        while work:
            bi, env = work.pop()
            key = (bi, frozenset((k, repr(v)) for k, v in env.items()))
            if key in seen: continue
            seen.add(key); n += 1; self.visited.add(bi)
            if n > self.max_states: return arrivals, returns, False
            blk = b.blocks[bi]
            env = dict(env)
            for si, st in enumerate(blk['st']):
                if 'dst' in st: self.stmt(env, st, bi, si)
            t = blk['term']; k = t['k']
            if k == 'return': returns.append(env); continue
            if k == 'call':
                if t['t'] < 0: continue
                self.call(env, t, bi); nxt = [(t['t'], env)]
            elif k == 'switch': nxt = self.switch(env, t, bi)
            elif k in ('goto', 'drop', 'assert'): nxt = [(t['t'], env)]
            else: continue
            for tg, e in nxt:
                if b.blocks[tg]['cleanup']: continue
                if tg in stop: arrivals.setdefault(tg, []).append(e); continue
                work.append((tg, e))
        return arrivals, returns, True


def result_kind(env):
    """'err' / 'ok' of the function result on a finished path (anything not known to be Err counts as ok)"""
    v = env.get(0)
    if isinstance(v, tuple) and v[0] == 'd' and v[1] == 1: return 'err'
    return 'ok'


def error_propagates(ctx, rule, body, calls, what, none_variant=0):
    """T-ERRFLOW on each call's Result / Option.  First the syntactic consumers (`?`, adaptor chains, `match`); when
    they do not settle it (the `?` sits in an inlined helper whose own Result is `?`-ed again, ...) the question is
    put semantically: if the call fails, does every path return an error?"""
    for c in calls:
        res = T.errflow(body, c.dst['l'], none_variant=none_variant)
        ctx.counters['cfg_paths'] += 1
        bad = [h for k, h in res if k == 'bad']
        if bad and c.target >= 0 and not c.dst['p']:
            is_opt = body.locals[c.dst['l']].startswith('std::option::Option')
            pe = PathEval(ctx, body)
            arr, rets, complete = pe.explore(c.target, {c.dst['l']: ('d', 0, None) if is_opt else ('d', 1, None)})
            if complete and rets and all(result_kind(e) == 'err' for e in rets): bad = []
        ctx.check(not bad, rule, 'T-ERRFLOW', body.name, '%s: %s' % (what, '; '.join(sorted(set(bad)))), body.site(c.bb), consumers=[h for k, h in res])


def false_leads_to_error(ctx, body, call, value=False):
    """When `call` (a bool predicate) returns `value`, does every path end in an error?
    -> True / False / None (exploration gave up)"""
    if call.target < 0: return None
    pe = PathEval(ctx, body)
    arr, rets, complete = pe.explore(call.target, {call.dst['l']: ('b', value)})
    if any(result_kind(e) == 'ok' for e in rets): return False
    if not complete: return None
    return bool(rets)


# ------------------------------------------------------------------------------------------------
# dominance / must-pass decided on feasible paths
# ------------------------------------------------------------------------------------------------
# After a helper that returns Result has been inlined (or an adaptor closure spliced), its `?` / `return Err(..)` assigns the
# helper's result and joins the success path in front of the caller's `Try::branch`; in the plain CFG the error path then
# seems to continue on the Continue arm, by-passing everything the helper did.  These variants first ask the CFG and, when
# it says no, walk the feasible paths (PathEval knows that a from_residual / Err value takes the Break arm).
def dominates_ok(ctx, body, bbs):
    """every successful return passes one of the blocks `bbs`"""
    bbs = {bbs} if isinstance(bbs, int) else set(bbs)
    oks = body.strict_ok_exits()
    if any(all(body.dominates(b, e) for e in oks) for b in bbs): return True
    arr, rets, complete = PathEval(ctx, body, max_states=60000, track_bools=False).explore(0, {}, stop=bbs)
    return complete and not any(result_kind(e) == 'ok' for e in rets)


def dominates_sem(ctx, body, a, b):
    """every feasible path from the entry to block b passes block a"""
    if a == b or body.dominates(a, b): return True
    pe = PathEval(ctx, body, max_states=60000, track_bools=False)
    arr, rets, complete = pe.explore(0, {}, stop={a})
    return complete and b not in pe.visited


def must_pass_sem(ctx, body, start, targets, via, env=None):
    """every feasible path from `start` to a block of `targets` passes a block of `via`"""
    if T.must_pass(body, start, set(targets), set(via)): return True
    if start in via: return True
    arr, rets, complete = PathEval(ctx, body).explore(start, env or {}, stop=set(targets) | set(via))
    return complete and not any(arr.get(t) for t in targets if t not in via)


def loop_must2(ctx, rule, body, lo, call_pred, what):
    """T-LOOPMUST (common.loop_must) with the must-pass decided on feasible paths"""
    c, header, some_bb, none_bb, blocks = lo
    via = {x.bb for x in body.calls if x.bb in blocks and call_pred(x)}
    ctx.counters['cfg_paths'] += 1
    ok = bool(via) and must_pass_sem(ctx, body, some_bb, {header}, via)
    ctx.check(ok, rule, 'T-LOOPMUST', body.name, 'a path through the loop body skips `%s`' % what if via else 'loop body never reaches `%s`' % what, body.site(c.bb))
    si = ctx.S.slice_operand(body, c.args[0])
    restr = sorted({x.item for x in si.call_objs if x.item in RESTRICTING and 'Iterator' in (x.trait or '')})
    ctx.check(not restr, rule + '/all-items', 'T-LOOPMUST', body.name, 'the loop iterator is restricted by %s' % restr, body.site(c.bb))
    return ok


def mustcall2(ctx, rule, body, call_pred, what, propagate=True):
    """T-MUSTCALL (common.mustcall): every successful return passes a call matching call_pred whose error propagates"""
    if body is None: return None
    good = []
    for c in [c for c in body.calls if call_pred(c)]:
        if not dominates_ok(ctx, body, c.bb): continue
        if propagate and not T.try_arms(body, c.dst['l']):
            res = T.errflow(body, c.dst['l'])
            if any(k == 'bad' for k, _ in res):
                is_opt = body.locals[c.dst['l']].startswith('std::option::Option')
                arr, rets, complete = PathEval(ctx, body).explore(c.target, {c.dst['l']: ('d', 0, None) if is_opt else ('d', 1, None)}) if c.target >= 0 else ({}, [], False)
                if not (complete and rets and all(result_kind(e) == 'err' for e in rets)): continue
        good.append(c)
    ctx.check(bool(good), rule, 'T-MUSTCALL', body.name, 'no call `%s` on every successful path%s' % (what, ' with its error propagated' if propagate else ''),
              body.site(good[0].bb) if good else body.site())
    return good[0] if good else None


# ------------------------------------------------------------------------------------------------
# concrete evaluation of small pure f64 functions (truth tables instead of expression shapes)
# ------------------------------------------------------------------------------------------------
class Unsupported(Exception):
    pass


def concrete_eval(F, body, args, depth=0):
    """Interpret the mini-MIR of a side-effect free function over f64 / bool / plain structs on concrete arguments
    (nothing of the library is executed; this is evaluation of the extracted facts).  args[i] is the value of parameter i+1:
    float, bool or {field: value} for a struct (references are transparent).  Raises Unsupported on anything else, so a
    rule can fall back to its structural form."""
    import math
    env = {i + 1: a for i, a in enumerate(args)}
    def place(pl):
        if pl['l'] not in env: raise Unsupported('unset local')
        v = env[pl['l']]
        for p in pl['p']:
            if p == '*': continue
            if isinstance(p, dict) and 'f' in p and isinstance(v, dict) and p['f'] in v: v = v[p['f']]
            elif isinstance(p, dict) and 'f' in p and isinstance(v, tuple) and v and v[0] == 'tuple' and p['f'].isdigit(): v = v[1][int(p['f'])]
            else: raise Unsupported('projection')
        return v
    def operand(o):
        if o['k'] == 'const':
            t = o['v'].replace('const ', '').strip()
            if t == 'true': return True
            if t == 'false': return False
            x = const_value(body, t)
            if x is None: raise Unsupported('const ' + t)
            return x
        if o['k'] in ('copy', 'move'): return place(o['pl'])
        raise Unsupported('operand')
    BIN = {'Add': lambda a, b: a + b, 'Sub': lambda a, b: a - b, 'Mul': lambda a, b: a * b, 'Div': lambda a, b: a / b,
           'Lt': lambda a, b: a < b, 'Le': lambda a, b: a <= b, 'Gt': lambda a, b: a > b, 'Ge': lambda a, b: a >= b,
           'Eq': lambda a, b: a == b, 'Ne': lambda a, b: a != b, 'BitAnd': lambda a, b: a and b, 'BitOr': lambda a, b: a or b}
    bi = 0
    for _ in range(400):
        blk = body.blocks[bi]
        for st in blk['st']:
            if 'dst' not in st: continue
            if st['dst']['p']: raise Unsupported('partial write')
            rv = st['rv']; k = rv['k']
            if k == 'use': v = operand(rv['ops'][0])
            elif k == 'ref': v = place(rv['pl'])
            elif k == 'bin' and rv['op'] in BIN: v = BIN[rv['op']](operand(rv['ops'][0]), operand(rv['ops'][1]))
            elif k == 'un' and rv['op'] == 'Not': v = not operand(rv['ops'][0])
            elif k == 'un' and rv['op'] == 'Neg': v = -operand(rv['ops'][0])
            elif k == 'agg' and rv['adt'] == 'tuple': v = ('tuple', [operand(o) for o in rv['ops']])
            elif k == 'agg' and 'RangeInclusive' in rv['adt'] and len(rv['ops']) >= 2: v = ('range', operand(rv['ops'][0]), operand(rv['ops'][1]), True)
            elif k == 'agg' and re.search(r'ops::Range$', rv['adt']) and len(rv['ops']) == 2: v = ('range', operand(rv['ops'][0]), operand(rv['ops'][1]), False)
            else: raise Unsupported('rvalue ' + k)
            env[st['dst']['l']] = v
        t = blk['term']; k = t['k']
        if k == 'return':
            if 0 not in env: raise Unsupported('no result')
            return env[0]
        if k in ('goto', 'drop', 'assert'): bi = t['t']; continue
        if k == 'switch':
            d = operand(t['d']); d = int(d) if isinstance(d, bool) else d
            if not isinstance(d, int): raise Unsupported('switch on non-integer')
            bi = {v: tg for v, tg in t['ts']}.get(d, t['else']); continue
        if k == 'call':
            if t['t'] < 0: raise Unsupported('diverging call')
            nm = t['r'] or t['f']; base = T.strip_generics_tail(nm); a = [operand(x) for x in t['args']]
            num = lambda x: isinstance(x, float) or isinstance(x, int) and not isinstance(x, bool)
            if re.search(r'<impl f64>::abs$', base) and num(a[0]): v = abs(a[0])
            elif re.search(r'<impl f64>::(max|min)$', base) and all(num(x) for x in a[:2]):
                x, y = a[0], a[1]
                v = (y if math.isnan(x) else x if math.isnan(y) else (max(x, y) if base.endswith('max') else min(x, y)))
            elif re.search(r'<impl f64>::clamp$', base) and all(num(x) for x in a[:3]): v = min(max(a[0], a[1]), a[2])
            elif re.search(r'<impl f64>::is_nan$', base): v = math.isnan(a[0])
            elif re.search(r'<impl f64>::is_finite$', base): v = math.isfinite(a[0])
            elif T.NOT_CALL.search(nm) and isinstance(a[0], bool): v = not a[0]
            elif re.search(r'RangeInclusive::<f64>::new$', base) and len(a) == 2: v = ('range', a[0], a[1], True)
            elif re.search(r'Range(Inclusive)?::<f64>::contains', base) and isinstance(a[0], tuple) and a[0][0] == 'range':
                v = a[0][1] <= a[1] and (a[1] <= a[0][2] if a[0][3] else a[1] < a[0][2])
            elif re.search(r'as std::cmp::PartialOrd.*>::(lt|le|gt|ge)$', base) and all(num(x) for x in a[:2]):
                v = BIN[{'lt': 'Lt', 'le': 'Le', 'gt': 'Gt', 'ge': 'Ge'}[base.split('::')[-1]]](a[0], a[1])
            else:
                cb = F.bodies.get(t.get('rp') or t.get('fp') or '') or F.bodies.get(nm)
                if cb is None or cb.kind != 'fn' or depth >= 3: raise Unsupported('call ' + nm[:60])
                v = concrete_eval(F, cb, a, depth + 1)
            if t['dst']['p']: raise Unsupported('partial write')
            env[t['dst']['l']] = v; bi = t['t']; continue
        raise Unsupported('terminator ' + k)
    raise Unsupported('too long')


def truth_table(F, body, points, spec):
    """-> (None, why) if the function cannot be interpreted, else (list of mismatches (args, got, want), '')"""
    bad = []
    try:
        for args in points:
            got = concrete_eval(F, body, list(args)); want = spec(*args)
            if got != want: bad.append((args, got, want))
    except Unsupported as e:
        return None, str(e)
    except (ZeroDivisionError, TypeError, KeyError, IndexError) as e:
        return None, repr(e)
    return bad, ''


# ------------------------------------------------------------------------------------------------
# the struct a function returns, field by field
# ------------------------------------------------------------------------------------------------
def _is_ty(ty, adt):
    ty = ty.strip()
    return ty == adt or ty.endswith('::' + adt)


class StructValue:
    """Final value of the struct of type `adt` a function returns, resolved per field whatever way it was built:
         S { a: x, b: y }                          one aggregate
         S { a: x, ..base }                        update syntax (MIR: aggregate whose other operands read base.f) -> field of `base`
         let mut s = base; s.a = x;                field assignment after construction (the write must lie on every successful path)
         any mix of them, through moves into tuples / Ok(..)
       fields[f] = operand that holds the final value of field f (a place `base.f` for inherited fields), None if the field
       is written on some successful paths only; bb[f] = block of that write; where = block in which the value is complete"""

    def __init__(self, adt, local, fields, bbs, where, defaulted=None):
        self.adt = adt; self.local = local; self.fields = fields; self.bb = bbs; self.where = where
        self.defaulted = defaulted or {}          # field -> Default::default() call it is inherited from (`..Default::default()`)

    def st(self):
        """in the shape of an aggregate statement, for agg_field_operand()"""
        names = list(self.fields)
        return {'dst': {'l': self.local, 'p': []}, 'rv': {'k': 'agg', 'adt': self.adt, 'fields': names, 'ops': [self.fields[n] for n in names]}}


def _struct_holders(body, adt):
    """locals of type `adt` whose value flows into a successful return (through tuples, Ok/Some, moves)"""
    out = []; seen = set()
    def visit(op, depth=0):
        if op['k'] not in ('copy', 'move') or depth > 8: return
        l = op['pl']['l']
        if (l, len(op['pl']['p'])) in seen: return
        seen.add((l, len(op['pl']['p'])))
        if not op['pl']['p'] and _is_ty(body.locals[l], adt):
            if l not in out: out.append(l)
            return
        if op['pl']['p']: return
        for k, bi, d in body.defs_of(l):
            if k != 'stmt' or d['dst']['p']: continue
            rv = d['rv']
            if rv['k'] == 'use': visit(rv['ops'][0], depth + 1)
            elif rv['k'] == 'agg' and (rv['adt'] == 'tuple' or rv['adt'].endswith(OK_WRAP)):
                for o in rv['ops']: visit(o, depth + 1)
    if _is_ty(body.locals[0], adt): return [0]
    for e, k, rst in body.ret_assignments():
        if k == 'ok':
            for o in rst['rv']['ops']: visit(o)
        elif k == 'val' and rst['rv']['k'] == 'use': visit(rst['rv']['ops'][0])
        elif k == 'val' and rst['rv']['k'] == 'agg':
            for o in rst['rv']['ops']: visit(o)
    return out


def returned_struct(ctx, body, adt):
    names = ctx.F.adt_fields(adt)
    holders = _struct_holders(body, adt)
    if names is None or len(holders) != 1: return None
    adt_full = None
    R = holders[0]
    fields = {}; bbs = {}; where = [None]; defaulted = {}

    def field_place(l, f, base_p=()):
        return {'k': 'copy', 'pl': {'l': l, 'p': list(base_p) + [{'f': f, 'of': adt}]}}

    def resolve(l, f, depth=0):
        """(operand, bb) of the final value of field f of struct local l"""
        if depth > 10: return field_place(l, f), None
        writes = [(bi, st) for bi, st in body.stmts() if st['dst']['l'] == l and len(st['dst']['p']) == 1 and isinstance(st['dst']['p'][0], dict) and st['dst']['p'][0].get('f') == f]
        if writes:
            dom = [(bi, st) for bi, st in writes if dominates_ok(ctx, body, bi)]
            if not dom: return None, writes[0][0]
            # the last of the writes that lie on every successful path
            bi, st = sorted(dom, key=lambda w: sum(1 for o in dom if body.dominates(o[0], w[0])))[-1]
            if st['rv']['k'] == 'use': return st['rv']['ops'][0], bi
            return None, bi
        defs = [(k, bi, d) for k, bi, d in body.defs_of(l) if not (k == 'stmt' and d['dst']['p'])]
        if len(defs) == 1 and defs[0][0] == 'stmt':
            k, bi, d = defs[0]; rv = d['rv']
            if rv['k'] == 'agg' and _is_ty(rv['adt'], adt) and f in rv['fields']:
                op = rv['ops'][rv['fields'].index(f)]
                if op['k'] in ('copy', 'move'):
                    p = op['pl']['p']
                    if len(p) == 1 and isinstance(p[0], dict) and p[0].get('f') == f and _is_ty(body.locals[op['pl']['l']], adt):
                        return resolve(op['pl']['l'], f, depth + 1)                      # `..base`
                return op, bi
            if rv['k'] == 'use' and rv['ops'][0]['k'] in ('copy', 'move'):
                src = rv['ops'][0]['pl']
                if not src['p']: return resolve(src['l'], f, depth + 1)
                return field_place(src['l'], f, src['p']), bi                                # the struct comes out of a tuple / payload
        if len(defs) == 1 and defs[0][0] == 'call' and re.search(r' as std::default::Default>::default$', defs[0][2]['r'] or defs[0][2]['f']):
            defaulted[f] = [c for c in body.calls if c.bb == defs[0][1]][0]
        return field_place(l, f), (defs[0][1] if defs else None)

    for f in names:
        op, bi = resolve(R, f)
        fields[f] = op; bbs[f] = bi
    # where the value is complete: the last block among the writes / the aggregate, on the way to the return
    cand = [b for b in bbs.values() if b is not None]
    w = None
    for b in cand:
        if all(body.dominates(o, b) or o == b for o in cand): w = b
    return StructValue(adt, R, fields, bbs, w if w is not None else (cand[0] if cand else 0), defaulted)


def field_is_none(ctx, body, sv, f):
    """the final value of Option field f of the returned struct is None: written as `None`, or left to the struct's
    `Default::default()` (update syntax / default-then-assign) whose own value of that field is None"""
    op = sv.fields.get(f)
    if op is None: return False
    e = T.expr(body, op)
    if e[0] == 'agg' and e[1].endswith('Option::None'): return True
    c = sv.defaulted.get(f)
    if c is None: return False
    cb = ctx.F.bodies.get(c.path) or ctx.F.bodies.get(c.name)
    if cb is not None:
        dv = returned_struct(ctx, cb, sv.adt)
        if dv is not None and dv.fields.get(f) is not None:
            e2 = T.expr(cb, dv.fields[f])
            return e2[0] == 'agg' and e2[1].endswith('Option::None')
    # the Default impl is not in the facts: Default of an Option field is None by definition of derive(Default) / prost
    a = ctx.F.adt(sv.adt)
    tys = {x['name']: x.get('ty', '') for x in a['variants'][0]['fields']} if a else {}
    return tys.get(f, '').startswith('std::option::Option<')


# ------------------------------------------------------------------------------------------------
# work-around for two gaps of the shared normal form (described in the notes): closures handed over by reference
# (`.try_fold(init, &mut record)`, one closure bound to a name and used by several chains) and adaptor chains bound to a name
# before the `for`.  The shared Normalizer is reused unchanged, only its two look-ups are made to see through `&` and plain copies.
# ------------------------------------------------------------------------------------------------
def renormalised(ctx, body):
    """the body of the same function, normalised again from the raw facts with the two look-ups widened; `body` itself if that
    changes nothing or is not possible.  The result keeps the name (promoted constants are found under it); callers have to drop
    the slicer's cached graph of that name before and after using it (see with_renormalised)."""
    raw = getattr(ctx.F, 'raw', None)
    if raw is None or body.name not in raw.bodies: return body
    needs = False
    for c in body.calls:
        if (c.trait or '') == 'std::iter::Iterator' and c.item in ('try_fold', 'fold', 'for_each', 'try_for_each', 'find', 'find_map', 'any', 'all', 'position', 'map', 'filter', 'filter_map', 'chain', 'flat_map'): needs = True
        if re.search(r'option::Option::<.*?>::(map|and_then|or_else|unwrap_or_else)::<|result::Result::<.*?>::(map|and_then)::<', c.name): needs = True
    # helpers that the normal form inlined may contain such calls as well: they are in `body` already (it is the inlined form)
    if not needs: return body
    try:
        from .. import normalize
        import os
        known = normalize.load_known(os.path.join(os.path.dirname(__file__), 'tables', 'known_fns.json'))
        if known is None: return body

        class Wider(normalize.Normalizer):
            def _closure_of(self, rw, op):
                r = normalize.Normalizer._closure_of(self, rw, op)
                if r is not None or op['k'] not in ('copy', 'move') or op['pl']['p']: return r
                d = rw.single_def(op['pl']['l'])
                if d is not None and d[0] == 'stmt' and d[2]['rv']['k'] == 'ref' and d[2]['rv']['pl']['p'] in ([], ['*']):
                    return self._closure_of(rw, {'k': 'copy', 'pl': {'l': d[2]['rv']['pl']['l'], 'p': []}})       # `&mut f`, `&f`
                return None

            ADAPT = normalize.CLOSURE_ADAPTORS

            def _walk_chain(self, rw, local):
                # look at the chain itself: the consumer may take it by `&mut` (try_fold, by_ref), it may have been bound to a name first
                # (`let fixed = it.filter_map(..); for x in fixed`) and pass through `into_iter` (identity on an iterator)
                for _ in range(8):
                    d = rw.single_def(local)
                    if d is None: break
                    if d[0] == 'stmt':
                        rv = d[2]['rv']
                        if rv['k'] == 'ref' and rv['pl']['p'] in ([], ['*']): local = rv['pl']['l']; continue
                        if rv['k'] == 'use' and rv['ops'][0]['k'] in ('copy', 'move') and not rv['ops'][0]['pl']['p']: local = rv['ops'][0]['pl']['l']; continue
                        break
                    t = d[2]; ri = t.get('ri') or {}
                    if (ri.get('trait') or '') == 'std::iter::IntoIterator' and ri.get('item') == 'into_iter' and t['args'] and t['args'][0]['k'] in ('copy', 'move') and not t['args'][0]['pl']['p']:
                        a = t['args'][0]['pl']['l']; src = a
                        for _ in range(6):
                            d2 = rw.single_def(src)
                            if d2 is not None and d2[0] == 'stmt' and d2[2]['rv']['k'] == 'use' and d2[2]['rv']['ops'][0]['k'] in ('copy', 'move') and not d2[2]['rv']['ops'][0]['pl']['p']:
                                src = d2[2]['rv']['ops'][0]['pl']['l']
                            else: break
                        d2 = rw.single_def(src)
                        if d2 is not None and d2[0] == 'call' and ((d2[2].get('ri') or {}).get('trait') or '') == 'std::iter::Iterator' and (d2[2]['ri'].get('item') in self.ADAPT):
                            local = src; continue
                    break
                return normalize.Normalizer._walk_chain(self, rw, local)

            # ---- `for x in a.chain(b) { body }`  ==  `for x in a { body }  for x in b { body }`   (loop fission over the sources of a chain)
            def _chain_of(self, rw, local):
                cur = local; first = None
                for _ in range(10):
                    d = rw.single_def(cur)
                    if d is None: return None
                    if d[0] == 'stmt':
                        rv = d[2]['rv']
                        if rv['k'] == 'ref' and rv['pl']['p'] in ([], ['*']):
                            first = rv['pl']['l']                       # the iterator variable itself is the last thing a reference is taken of
                            cur = rv['pl']['l']; continue
                        if rv['k'] == 'use' and rv['ops'][0]['k'] in ('copy', 'move') and not rv['ops'][0]['pl']['p']: cur = rv['ops'][0]['pl']['l']; continue
                        return None
                    t = d[2]; ri = t.get('ri') or {}
                    if (ri.get('trait') or '') == 'std::iter::IntoIterator' and ri.get('item') == 'into_iter' and t['args'] and t['args'][0]['k'] in ('copy', 'move') and not t['args'][0]['pl']['p']:
                        cur = t['args'][0]['pl']['l']; continue
                    if (ri.get('trait') or '') == 'std::iter::Iterator' and ri.get('item') == 'chain' and len(t['args']) == 2 and all(x['k'] in ('copy', 'move') and not x['pl']['p'] for x in t['args']) and t['t'] >= 0:
                        return first, d[1], t
                    return None
                return None

            def _fission_chain(self, rw):
                from ..facts import Body
                from ..normalize import _use, _mv
                import copy as _copy
                for hi, hb in enumerate(rw.blocks):
                    t = hb['term']
                    if hb['cleanup'] or t['k'] != 'call' or t.get('fissioned') or not normalize._is_iter_trait(t) or (t.get('ri') or {}).get('item') != 'next': continue
                    if not t['args'] or t['args'][0]['k'] not in ('copy', 'move') or t['args'][0]['pl']['p'] or t['t'] < 0: continue
                    found = self._chain_of(rw, t['args'][0]['pl']['l'])
                    if found is None or found[0] is None: continue
                    iter_local, cbi, ct = found
                    swt = rw.blocks[t['t']]['term']
                    if swt['k'] != 'switch': continue
                    m = {v: tb for v, tb in swt['ts']}
                    if 0 not in m or 1 not in m: continue
                    bd = Body(_copy.deepcopy(rw.d))
                    loops = bd.loops()
                    hdr = [h for h, blocks in loops.items() if hi in blocks]
                    if not hdr: continue
                    hdr = min(hdr, key=lambda h: len(loops[h])); L = set(loops[hdr])
                    if cbi in L or m[0] in L: continue
                    # locals private to the loop body get a second incarnation in the copy (keeps them single-definition)
                    def defs_in(bset):
                        out = set()
                        for bi in bset:
                            for st in rw.blocks[bi]['st']:
                                if 'dst' in st: out.add(st['dst']['l'])
                            tt = rw.blocks[bi]['term']
                            if tt['k'] == 'call': out.add(tt['dst']['l'])
                        return out
                    inside = defs_in(L); outside = defs_in(set(range(len(rw.blocks))) - L)
                    private = {l for l in inside - outside if l > rw.d['argc']}
                    lmap = {l: rw.new_local(rw.locals[l]) for l in sorted(private)}
                    it2 = rw.new_local(rw.locals[iter_local]); lmap[iter_local] = it2
                    bmap = {}
                    for bi in sorted(L): bmap[bi] = rw.new_block()
                    def mp(pl):
                        q = {'l': lmap.get(pl['l'], pl['l']), 'p': []}
                        for x in pl['p']:
                            if isinstance(x, dict) and 'ix' in x: y = dict(x); y['ix'] = lmap.get(x['ix'], x['ix']); q['p'].append(y)
                            else: q['p'].append(x)
                        return q
                    def mo(o):
                        return {'k': o['k'], 'pl': mp(o['pl'])} if o['k'] in ('copy', 'move') else o
                    exit_bb = m[0]
                    for bi in sorted(L):
                        src = rw.blocks[bi]; st2 = []
                        for st in src['st']:
                            s2 = _copy.deepcopy(st)
                            if 'dst' in s2:
                                s2['dst'] = mp(s2['dst']); rv = s2['rv']
                                if 'ops' in rv: rv['ops'] = [mo(o) for o in rv['ops']]
                                if 'pl' in rv: rv['pl'] = mp(rv['pl'])
                            st2.append(s2)
                        t2 = _copy.deepcopy(src['term']); k = t2['k']
                        tg = lambda x: bmap.get(x, x)
                        if k == 'call':
                            t2['args'] = [mo(a) for a in t2['args']]; t2['dst'] = mp(t2['dst'])
                            if t2['t'] >= 0: t2['t'] = tg(t2['t'])
                            t2.pop('desugared', None)
                        elif k == 'switch':
                            t2['d'] = mo(t2['d']); t2['ts'] = [[v, tg(tb)] for v, tb in t2['ts']]; t2['else'] = tg(t2['else'])
                        elif k in ('goto', 'drop', 'assert'):
                            t2['t'] = tg(t2['t'])
                            if 'pl' in t2: t2['pl'] = mp(t2['pl'])
                            if 'cond' in t2 and isinstance(t2['cond'], dict): t2['cond'] = mo(t2['cond'])
                        rw.blocks[bmap[bi]] = {'cleanup': src['cleanup'], 'st': st2, 'term': t2}
                    rw.blocks[bmap[hi]]['term']['fissioned'] = True
                    t['fissioned'] = True; t.pop('desugared', None)
                    # first loop runs over the first source, then falls into the second loop, which exits where the fused loop did
                    P = rw.new_block([_use(it2, _mv(ct['args'][1]['pl']['l']))], {'k': 'goto', 't': bmap[hdr]})
                    swt['ts'] = [[v, (P if v == 0 else tb)] for v, tb in swt['ts']]
                    rw.blocks[cbi]['st'].append(_use(ct['dst'], _mv(ct['args'][0]['pl']['l'])))
                    rw.goto(cbi, ct['t'])
                    rw.changed = True
                    return True
                return False

            def _fold_const_switches(self, rw):
                """a switch on a bool that is a constant on this copy of the code (the per-source tag of a fissioned chain) takes one side"""
                def resolve(o, depth=0):
                    if depth > 10: return None
                    if o['k'] == 'const':
                        v = o['v'].replace('const ', '').strip()
                        return True if v == 'true' else False if v == 'false' else None
                    if o['k'] not in ('copy', 'move'): return None
                    d = rw.single_def(o['pl']['l'])
                    if d is None or d[0] != 'stmt': return None
                    rv = d[2]['rv']; p = [x for x in o['pl']['p'] if x != '*']
                    if rv['k'] == 'use': 
                        src = rv['ops'][0]
                        if src['k'] == 'const': return resolve(src, depth + 1) if not p else None
                        if src['k'] in ('copy', 'move'): return resolve({'k': 'copy', 'pl': {'l': src['pl']['l'], 'p': list(src['pl']['p']) + p}}, depth + 1)
                        return None
                    if rv['k'] == 'ref' and not p: return resolve({'k': 'copy', 'pl': rv['pl']}, depth + 1)
                    if rv['k'] == 'un' and rv['op'] == 'Not' and not p:
                        x = resolve(rv['ops'][0], depth + 1)
                        return None if x is None else (not x)
                    if rv['k'] == 'agg' and rv['adt'] == 'tuple' and len(p) == 1 and isinstance(p[0], dict) and p[0].get('f', '').isdigit() and int(p[0]['f']) < len(rv['ops']):
                        return resolve(rv['ops'][int(p[0]['f'])], depth + 1)
                    return None
                n = 0
                for b in rw.blocks:
                    t = b['term']
                    if b['cleanup'] or t['k'] != 'switch' or t['d']['k'] == 'const': continue
                    if rw.locals[t['d']['pl']['l']] != 'bool': continue
                    v = resolve(t['d'])
                    if v is None: continue
                    m = {val: tb for val, tb in t['ts']}
                    b['term'] = {'k': 'goto', 't': m.get(1 if v else 0, t['else'])}; n += 1
                if n: rw.changed = True
                return n

            def _normalize(self, d):
                d2 = normalize.Normalizer._normalize(self, d)
                if d2.get('kind') == 'promoted': return d2
                rw = normalize.Rewriter(d2); rw.promoted_of = self._promoted_of
                fissioned = False
                for _ in range(6):
                    if not self._fission_chain(rw): break
                    fissioned = True
                if fissioned:
                    for _ in range(40):
                        if not self._desugar_one(rw): break
                # the inner iterator a spliced flat_map closure returns is walked by a synthetic `next` loop; if that iterator is itself an adaptor
                # chain with closures (`state.entries.iter().map(move |(d, v)| (d, v, id))`) splice those as well
                for _ in range(10):
                    again = False
                    for bi, b in enumerate(rw.blocks):
                        t = b['term']
                        if b['cleanup'] or t['k'] != 'call' or not t.get('synthetic') or t.get('desugared') or (t.get('ri') or {}).get('item') != 'next' or not normalize._is_iter_trait(t): continue
                        try:
                            if self._desugar_for(rw, bi, t): again = True; break
                        except normalize._GiveUp:
                            t['desugared'] = 'gave-up'
                    if not again: break
                for _ in range(30):
                    if not self._desugar_option(rw): break
                if fissioned: self._fold_const_switches(rw)
                return rw.d if rw.changed else d2

            def _desugar_option(self, rw):
                """`opt.map(f)` / `and_then(f)` / `or_else(f)` / `unwrap_or_else(f)` with a closure  ->  the `match opt { Some(x) => .., None => .. }` it
                abbreviates, closure body spliced in (the class "combinator instead of match")"""
                from ..normalize import _use, _discr, _agg, _mv, _pl, _const, SOME0
                for bi in range(len(rw.blocks)):
                    b = rw.blocks[bi]; t = b['term']
                    if b['cleanup'] or t['k'] != 'call' or t.get('synthetic') or t['t'] < 0 or len(t['args']) != 2: continue
                    nm_ = t.get('r') or t.get('f') or ''
                    m = re.search(r'option::Option::<.*?>::(map|and_then|or_else|unwrap_or_else)::<', nm_)
                    mr = re.search(r'result::Result::<.*?>::(map|and_then)::<', nm_) if not m else None
                    if not (m or mr) or t['args'][0]['k'] not in ('copy', 'move'): continue
                    ci = self._closure_of(rw, t['args'][1])
                    if ci is None: continue
                    cd, caps = ci
                    kind = (m or mr).group(1); span = t.get('span'); line = (span or {}).get('lo', 0); dst = t['dst']; after = t['t']
                    want_args = 2 if kind in ('map', 'and_then') else 1
                    if cd['argc'] != want_args: continue
                    tmp = rw.new_local('?option' if m else '?result'); dl = rw.new_local('isize')
                    b['st'].append(_use(tmp, t['args'][0], line)); b['st'].append(_discr(dl, _pl(tmp), line))
                    some = rw.new_block(); none = rw.new_block(); un = rw.new_block()
                    B = rw.blocks
                    if mr:
                        # res.map(f) == match res { Ok(x) => Ok(f(x)), Err(e) => Err(e) };  res.and_then(f) == match res { Ok(x) => f(x), Err(e) => Err(e) }
                        OK0 = [{'dc': 'Ok'}, {'f': '0', 'of': 'std::result::Result::Ok'}]; ERR0 = [{'dc': 'Err'}, {'f': '0', 'of': 'std::result::Result::Err'}]
                        b['term'] = {'k': 'switch', 'd': _mv(dl), 'ts': [[0, some], [1, none]], 'else': un}
                        r = rw.new_local(cd['locals'][0]); nxt = rw.new_block()
                        e = rw.splice(cd, [_const('()', 'env'), _mv(tmp, OK0)], _pl(r), nxt, span, captures=caps)
                        rw.goto(some, e)
                        if kind == 'map': B[nxt]['st'].append(_agg(dst, 'std::result::Result::Ok', [_mv(r)], line=line))
                        else: B[nxt]['st'].append(_use(dst, _mv(r), line))
                        rw.goto(nxt, after)
                        B[none]['st'].append(_agg(dst, 'std::result::Result::Err', [_mv(tmp, ERR0)], line=line)); rw.goto(none, after)
                        rw.changed = True
                        return True
                    b['term'] = {'k': 'switch', 'd': _mv(dl), 'ts': [[0, none], [1, some]], 'else': un}
                    if kind in ('map', 'and_then'):
                        r = rw.new_local(cd['locals'][0]); nxt = rw.new_block()
                        e = rw.splice(cd, [_const('()', 'env'), _mv(tmp, SOME0)], _pl(r), nxt, span, captures=caps)
                        rw.goto(some, e)
                        if kind == 'map': B[nxt]['st'].append(_agg(dst, 'std::option::Option::Some', [_mv(r)], line=line))
                        else: B[nxt]['st'].append(_use(dst, _mv(r), line))
                        rw.goto(nxt, after)
                        B[none]['st'].append(_agg(dst, 'std::option::Option::None', [], line=line)); rw.goto(none, after)
                    else:
                        B[some]['st'].append(_use(dst, _mv(tmp) if kind == 'or_else' else _mv(tmp, SOME0), line)); rw.goto(some, after)
                        e = rw.splice(cd, [_const('()', 'env')], dst, after, span, captures=caps)
                        rw.goto(none, e)
                    rw.changed = True
                    return True
                return False

        N = Wider(raw, known, True)
        d = N.body(body.name)
        if d is None or d is raw.bodies[body.name].d: return body
        from ..facts import Body
        nb = Body(d); nb.facts = ctx.F
        nb.renormalised = True
        if len(nb.blocks) == len(body.blocks): return body
        return nb
    except Exception:
        return body


def with_renormalised(ctx, body, fn):
    """run fn(body') on the re-normalised body with a clean slicer cache for that function name, and clean it again afterwards"""
    nb = renormalised(ctx, body)
    if nb is body: return fn(body)
    def evict():
        ctx.S._graphs.pop(body.name, None)
        for k in [k for k in ctx.S._summ if k[0] == body.name]: ctx.S._summ.pop(k, None)
    evict()
    try: return fn(nb)
    finally: evict()


# ------------------------------------------------------------------------------------------------
# "insert only if the key is absent"
# ------------------------------------------------------------------------------------------------
def absent_inserts(ctx, body, blocks):
    """Insertions into a map that happen only when the key is not there yet, in every idiom:
         (a) `if let Entry::Vacant(e) = m.entry(k) { e.insert(v) }` / `match m.entry(k) { Vacant(e) => e.insert(v), .. }`
         (b) `m.entry(k).or_insert(v)` / `.or_insert_with(|| v)`
         (c) `if !m.contains_key(&k) { m.insert(k, v) }`  (also with `continue` on the other side)
       -> list of dicts(call=<inserting call>, key=<key operand>, value=<value operand>, map=<map operand>, how=..)"""
    out = []
    for c in body.calls:
        if c.bb not in blocks: continue
        if c.item == 'insert' and 'VacantEntry' in c.name:
            ent = [x for x in ctx.S.slice_operand(body, c.args[0]).call_objs if x.item == 'entry' and re.search(r'(HashMap|BTreeMap)::<', x.name)]
            for e in ent:
                out.append(dict(call=c, key=e.args[1], value=c.args[1], map=e.args[0], how='vacant-entry'))
        elif c.item in ('or_insert', 'or_insert_with') and 'Entry<' in c.name:
            ent = [x for x in ctx.S.slice_operand(body, c.args[0]).call_objs if x.item == 'entry' and re.search(r'(HashMap|BTreeMap)::<', x.name)]
            for e in ent:
                out.append(dict(call=c, key=e.args[1], value=c.args[1], map=e.args[0], how='or-insert'))
        elif c.item == 'insert' and re.search(r'(HashMap|BTreeMap)::<.*>::insert$', T.strip_generics_tail(c.name)) and len(c.args) == 3:
            for ck in body.calls:
                if ck.bb not in blocks or ck.item != 'contains_key': continue
                if T.access_path(body, ck.args[0])[:2] != T.access_path(body, c.args[0])[:2]: continue
                for sb, neg in T.bool_flow(body, ck.dst['l']):
                    tb, fb = T.switch_sides(body, sb, neg)
                    if fb is None or tb == fb: continue
                    only_false = body.edge_region(sb, fb)
                    if c.bb in only_false:
                        out.append(dict(call=c, key=c.args[1], value=c.args[2], map=c.args[0], how='contains_key', test=ck))
    return out
