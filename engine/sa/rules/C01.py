"""C01 — evaluation returns the polynomial's value (DESIGN §5 C01).

The rules are formulated on the *normal form* of the mini-MIR (sa.normalize: helpers unknown on the
pinned tree inlined, closure adaptor chains / try_fold / extend([..]) as explicit `next` loops) and on
value expressions (`VX`, below) rather than on the syntactic shape of the evaluators:

  value  = the operand of the single `Ok((value, ids))` exit, resolved backwards through copies,
           references, `?` (Try::branch + Continue payload), Ok-wrapping, tuple building and - for
           locals with several definitions - as a `phi` of its definitions, in which a reference to
           the local itself is the marker `acc`.  `sum = init; loop { sum += t }`, `sum = t + sum`,
           `try_fold(init, |acc, x| Ok(acc + t))?` and `fold` all come out as
                 phi(sum, [init, Add(acc, t)])
  loops  = `for` loops (after normalisation): the item of a loop is `next(..) as Some.0`; where an
           item comes from in the message is found by walking the iterator expression through
           pure "view" calls (ITERISH) and zips (COMPONENT idioms) down to a field path of `self`.
A kernel (Linear / Quadratic / Polynomial) is described by message paths (KERNELS) and checked
against:  value = init + Σ_{terms} coefficient · Π_{ids} state[id],  ids ⊆ returned set.
"""
from .common import *

VIEW = 'norm'

STATE_GET = r'HashMap::<u64, f64>::get'
# documented "is this variable fixed?" probes: a missing entry legitimately means "keep the term"
PROBE_EXEMPT = {
    ('v1::Linear', 'partial_evaluate'): 1, ('v1::Quadratic', 'partial_evaluate'): 3, ('v1::Polynomial', 'partial_evaluate'): 1,
    ('v1::Instance', 'partial_evaluate'): 1, ('v1::Instance', 'check_bound'): 0,
}

# what a kernel computes, as field paths from `self` (lists are crossed by loops)
KERNELS = {
    'Linear': dict(ty='v1::Linear', init='constant',
                   coef=[('v1::Linear', 'terms'), ('v1::linear::Term', 'coefficient')],
                   ids=[[('v1::Linear', 'terms'), ('v1::linear::Term', 'id')]]),
    'Quadratic': dict(ty='v1::Quadratic', init='linear-part',
                      coef=[('v1::Quadratic', 'values')],
                      ids=[[('v1::Quadratic', 'rows')], [('v1::Quadratic', 'columns')]]),
    'Polynomial': dict(ty='v1::Polynomial', init='zero',
                       coef=[('v1::Polynomial', 'terms'), ('v1::Monomial', 'coefficient')],
                       ids=[[('v1::Polynomial', 'terms'), ('v1::Monomial', 'ids')]]),
}


# ------------------------------------------------------------------------------------------------
# variant-aware value expressions
# ------------------------------------------------------------------------------------------------
OKV = ('Ok', 'Some', 'Continue', '<ok>'); ERRV = ('Err', 'None', 'Break')
OK_OF = 'std::result::Result::Ok'
OK_PROJ = [{'dc': '<ok>'}, {'f': '0', 'of': OK_OF}]
# equivalent ways of building the Ok variant by a call
OK_CTOR_CALL = re.compile(r'^anyhow::Ok$|^anyhow::__private::Ok$')           # anyhow::Ok(x) ≡ Ok(x)
SCALAR = ('f64', 'f32', 'u64', 'i64', 'usize', 'bool', 'i32', 'u32')
OWNED_COLLECTION = re.compile(r'^(std::vec::Vec|std::collections::|std::string::String)')


def _vclass(v):
    if v in OKV: return 'ok'
    if v in ERRV: return 'err'
    return v


def _split(p):
    """projection list without derefs (references are followed transparently); None if it has an element not modelled here"""
    out = []
    for x in p:
        if x == '*': continue
        if isinstance(x, dict) and ('dc' in x or 'f' in x): out.append(x)
        else: return None
    return out


def _fs(q):
    return [(e['of'], e['f']) for e in q if 'f' in e]


class VX:
    """expression trees like templates.expr, plus:
       * `X as V.0` picks the definitions of X that build variant V (agg Ok/Some/Continue, anyhow::Ok,
         the Continue side of Try::branch); `from_residual` results are Err/None only;
       * `?` is transparent:  (branch(X) as Continue).0  ≡  (X as Ok).0;
       * a local with several definitions is ('phi', local, [definition exprs], [definition blocks]);
         inside its own definitions the local is ('acc', local);
       * `x op= y` through `&mut x` (f64 OpAssign traits) is the definition  x = x op y."""

    def __init__(self, body):
        self.b = body
        self.callmap = {c.bb: c for c in body.calls}
        self._defs = {}
        # &mut aliases of whole locals
        alias = {}
        for bi, st in body.stmts():
            rv = st['rv']
            if rv['k'] == 'ref' and rv.get('mut') and not st['dst']['p'] and not rv['pl']['p']: alias[st['dst']['l']] = rv['pl']['l']
        changed = True
        while changed:
            changed = False
            for bi, st in body.stmts():
                rv = st['rv']; d = st['dst']
                if d['p'] or d['l'] in alias: continue
                if rv['k'] == 'ref' and rv.get('mut') and rv['pl']['p'] == ['*'] and rv['pl']['l'] in alias:
                    alias[d['l']] = alias[rv['pl']['l']]; changed = True
                elif rv['k'] == 'use' and rv['ops'][0]['k'] in ('copy', 'move') and not rv['ops'][0]['pl']['p'] and rv['ops'][0]['pl']['l'] in alias:
                    alias[d['l']] = alias[rv['ops'][0]['pl']['l']]; changed = True
        self.alias = alias
        self.opassign = {}
        self.through = {}           # x -> [(bb, stmt)]: `*r = ..` with r a &mut alias of x (a captured accumulator after splicing)
        escaped = set()
        for bi, st in body.stmts():
            d = st['dst']
            if d['p'] == ['*'] and d['l'] in alias: self.through.setdefault(alias[d['l']], []).append((bi, st))
        for r, x in alias.items():
            for kind, bi, u in body.uses.get(r, ()):
                if kind == 'call':
                    m = T.ASSIGN_CALL.match(u.name)
                    if m and u.arg_local(0) == r and not u.args[0]['pl']['p']:
                        self.opassign.setdefault(x, []).append((u.bb, m.group(1), u.args[1]))
                    elif all(a['pl']['p'][:1] == ['*'] for a in u.args if a['k'] in ('copy', 'move') and a['pl']['l'] == r): continue    # reads *r
                    else: escaped.add(x)
                elif kind == 'stmt':
                    if u['dst']['l'] in alias and not u['dst']['p']: continue     # re-borrow / copy of the reference
                    rv = u['rv']
                    srcs = [o['pl'] for o in rv.get('ops', []) if o['k'] in ('copy', 'move') and o['pl']['l'] == r]
                    if 'pl' in rv and rv['pl']['l'] == r: srcs.append(rv['pl'])
                    if all(pl['p'][:1] == ['*'] for pl in srcs) and not (rv['k'] == 'ref' and rv.get('mut')): continue       # reads *r
                    if rv['k'] == 'agg' and rv['adt'].startswith('closure:') and not u['dst']['p'] and not body.uses.get(u['dst']['l']): continue   # captured by a closure whose body has been spliced (the value is dead)
                    escaped.add(x)
        self.escaped = escaped      # locals mutably borrowed for something else than an OpAssign / a spliced closure

    def opaque(self, l):
        if l not in self.escaped: return False
        ty = self.b.locals[l].strip()
        return ty in SCALAR or bool(OWNED_COLLECTION.match(ty))

    def defs(self, l):
        if l in self._defs: return self._defs[l]
        out = []
        for k, bi, d in self.b.defs_of(l):
            if d['dst']['p']: out = None; break         # partial writes are not modelled
            out.append((k, bi, d))
        if out is not None:
            for bi, op, rhs in self.opassign.get(l, ()): out.append(('opassign', bi, (op, rhs)))
            for bi, st in self.through.get(l, ()): out.append(('stmt', bi, st))
        self._defs[l] = out
        return out

    def variant_of(self, d):
        kind, bi, x = d
        if kind == 'stmt':
            rv = x['rv']
            if rv['k'] == 'agg' and '::' in rv['adt'] and not rv['adt'].startswith('closure:'): return rv['adt'].split('::')[-1]
            return None
        if kind == 'call':
            nm = T.strip_generics_tail(x['r'] or x['f'])
            if T.FROM_RESIDUAL.search(nm): return 'Err'
            if OK_CTOR_CALL.match(nm): return 'Ok'
        return None

    def may_hold(self, d, want):
        v = self.variant_of(d)
        if v is None: return True
        return _vclass(v) == _vclass(want)

    # ---- entry points
    def op(self, operand, acc=frozenset(), depth=48, q=()):
        k = operand['k']
        if k in ('copy', 'move'):
            return self.place(operand['pl']['l'], list(operand['pl']['p']) + list(q), acc, depth)
        if k == 'const':
            n = T.expr(self.b, operand, depth=6)
            return ('proj', n, _fs(q)) if _fs(q) else n
        return ('local', -1)

    def place(self, l, p, acc, depth):
        b = self.b
        raw = fields_of_place({'l': l, 'p': p})
        def unresolved():
            return ('place', l, raw) if (raw or 1 <= l <= b.argc) else ('local', l)
        if p[:1] == ['*'] and l in self.alias: return self.place(self.alias[l], p[1:], acc, depth)       # *r with r = &mut x
        q = _split(p)
        if q is None or depth <= 0 or 1 <= l <= b.argc: return unresolved()
        if l in acc: return ('acc', l) if not q else unresolved()
        ds = self.defs(l)
        if not ds or self.opaque(l): return unresolved()
        want = q[0]['dc'] if q and 'dc' in q[0] else None
        cands = [d for d in ds if self.may_hold(d, want)] if want else ds
        if not cands: return unresolved()
        if len(cands) == 1: return self.apply(cands[0], q, l, acc, depth - 1)
        nodes = [self.apply(d, q, l, acc | {l}, depth - 1) for d in cands]
        if all(n == nodes[0] for n in nodes) and not has_acc(nodes[0], l): return nodes[0]      # the same value on every path
        return ('phi', l, nodes, [d[1] for d in cands])

    def collected(self, node):
        """`let mut v = Vec::new(); loop { v.push(x) }; v.iter().sum()` (also what `.map(..).collect::<Vec<_>>()` + sum() is in the
        normal form) ≡ `s = 0.0; loop { s += x }`: returned as the phi of that accumulator; None if `node` is not such a sum / product"""
        n = peel(node)
        if not (n[0] == 'call' and n[1] in ('sum', 'product') and 'Iterator' in n[2] and n[3]): return None
        src = n[3][0]
        while src[0] == 'call' and ITERISH.search(T.strip_generics_tail(src[2])) and src[3]: src = src[3][0]
        if src[0] != 'local' or src[1] < 0: return None
        L = src[1]; b = self.b
        ds = b.defs_of(L)
        if len(ds) != 1 or ds[0][0] != 'call' or not re.search(r'Vec::<.*>::(new|with_capacity)$', T.strip_generics_tail(ds[0][2]['r'] or ds[0][2]['f'])): return None
        pushes = []
        for r, x in self.alias.items():
            if x != L: continue
            for kind, bi, u in b.uses.get(r, ()):
                if kind != 'call': continue
                if u.item == 'push' and 'Vec' in u.name and u.arg_local(0) == r: pushes.append(u)
                else: return None                       # the vector is changed in another way
        if not pushes: return None
        op = 'Add' if n[1] == 'sum' else 'Mul'
        return ('phi', L, [('const', '0f64' if op == 'Add' else '1f64')] + [('bin', op, ('acc', L), self.op(u.args[1])) for u in pushes], [ds[0][1]] + [u.bb for u in pushes])

    def apply(self, d, q, l, acc, depth):
        kind, bi, x = d
        fs = _fs(q)
        def wrap(node):
            if not fs: return node
            if node[0] == 'place': return ('place', node[1], node[2] + fs)
            if node[0] == 'proj': return ('proj', node[1], node[2] + fs)
            return ('proj', node, fs)
        if kind == 'opassign':
            op, rhs = x
            return wrap(('bin', op, self.place(l, [], acc, depth), self.op(rhs, acc, depth)))
        if kind == 'call':
            nm = x['r'] or x['f']; args = x['args']; tail = T.strip_generics_tail(nm)
            if len(q) >= 2 and 'dc' in q[0] and 'f' in q[1] and args:
                v = q[0]['dc']
                if T.TRY_BRANCH.search(nm) and v == 'Continue':
                    return self.op(args[0], acc, depth, OK_PROJ + q[2:])          # `?` is transparent
                if OK_CTOR_CALL.match(tail) and _vclass(v) == 'ok':
                    return self.op(args[0], acc, depth, q[2:])
            c = self.callmap.get(bi)
            node = ('call', c.item if c else tail.split('::')[-1], nm, [self.op(a, acc, depth) for a in args], bi)
            return wrap(node)
        rv = x['rv']; kk = rv['k']
        if kk == 'use': return self.op(rv['ops'][0], acc, depth, q)
        if kk == 'ref': return self.place(rv['pl']['l'], list(rv['pl']['p']) + q, acc, depth)
        if kk == 'agg':
            ops = rv['ops']; names = rv.get('fields') or []
            if len(q) >= 2 and 'dc' in q[0] and 'f' in q[1]:
                f = q[1]['f']
                i = names.index(f) if f in names else (int(f) if f.isdigit() else -1)
                if 0 <= i < len(ops): return self.op(ops[i], acc, depth, q[2:])
            elif q and 'f' in q[0] and not rv['adt'].startswith('closure:'):
                f = q[0]['f']
                i = names.index(f) if f in names else (int(f) if f.isdigit() else -1)
                if 0 <= i < len(ops): return self.op(ops[i], acc, depth, q[1:])
            return wrap(('agg', rv['adt'], [self.op(o, acc, depth) for o in ops]))
        if kk == 'bin': return wrap(('bin', rv['op'], self.op(rv['ops'][0], acc, depth), self.op(rv['ops'][1], acc, depth)))
        if kk == 'un': return wrap(('un', rv['op'], self.op(rv['ops'][0], acc, depth)))
        if kk == 'cast': return wrap(('cast', rv['to'], self.op(rv['ops'][0], acc, depth)))
        if kk == 'discr': return wrap(('discr', self.place(rv['pl']['l'], rv['pl']['p'], acc, depth)))
        return ('place', l, fs) if fs else ('local', l)


def is_item(e):
    """the current item of a `for` loop: next(it) as Some.0 ..."""
    return e[0] == 'proj' and e[1][0] == 'call' and e[1][1] == 'next' and 'Iterator' in e[1][2]


def peel(e):
    """strip transparent wrappers (clone/into/deref/`?`/with_context/..., Ok/Some/Continue payloads) but keep loop items"""
    while True:
        if e[0] == 'proj' and not is_item(e) and all(T.WRAPPER_OWNER.search(a) for a, f in e[2]): e = e[1]; continue
        if e[0] == 'call' and T.TRANSPARENT.search(T.strip_generics_tail(e[2])) and e[3]: e = e[3][0]; continue
        return e


def has_acc(n, l):
    return any(x[0] == 'acc' and x[1] == l for x in T.expr_walk(n))


def recurrence(node, vx=None):
    """accumulator: phi(l, [.., op(acc, x), ..])  ->  (l, inits [(expr, bb)], updates [(op, x, bb)]); else None.
    `acc op x` and (commutative ops) `x op acc` are the same update."""
    n = peel(node)
    if vx is not None and n[0] == 'call': n = vx.collected(n) or n
    if n[0] != 'phi': return None
    l = n[1]; inits = []; ups = []
    for x, bi in zip(n[2], n[3]):
        if not has_acc(x, l): inits.append((x, bi)); continue
        a = T.arith(x)
        if a[0] == 'bin' and a[2] == ('acc', l) and not has_acc(a[3], l): ups.append((a[1], a[3], bi))
        elif a[0] == 'bin' and a[3] == ('acc', l) and not has_acc(a[2], l) and a[1] in ('Add', 'Mul'): ups.append((a[1], a[2], bi))
        elif a == ('acc', l): continue                      # x = x
        else: ups.append(('?', x, bi))
    if not ups: return None
    return l, inits, ups


def product_factors(node, via=None, vx=None):
    """leaves of a product as (leaf, block of the `*=` update it enters through | None); a product
    accumulator  p = init; loop { p *= x }  is expanded into init × x"""
    out = []
    for leaf in T.flatten(node, 'Mul'):
        r = recurrence(leaf, vx)
        if r is not None:
            l, inits, ups = r
            if len(inits) == 1 and all(op == 'Mul' for op, x, bi in ups):
                out += product_factors(inits[0][0], via, vx)
                for op, x, bi in ups: out += product_factors(x, bi, vx)
            else:
                out.append((('bad-accumulator', [op for op, x, bi in ups]), via))
            continue
        if leaf == ('const', '1f64'): continue             # p = 1.0; p *= x; .. c * p : the neutral start of a product
        out.append((leaf, via))
    return out


# ------------------------------------------------------------------------------------------------
# path-sensitive error flow
# ------------------------------------------------------------------------------------------------
DISCR = {'Ok': 0, 'Err': 1, 'None': 0, 'Some': 1, 'Continue': 0, 'Break': 1}


def reach_v(body, starts, stop=()):
    """forward reachability that knows which variant a Result/Option/ControlFlow local holds on the
    path (built by an aggregate, `from_residual`, anyhow::Ok, Try::branch of a known value) and
    follows a switch on its discriminant only into the matching arm.  Needed where a `?` inside an
    inlined helper / spliced closure hands its Err to an outer `?`."""
    seen = set(); out = set(); work = [(s, frozenset()) for s in starts if s not in stop]
    while work:
        bi, env = work.pop()
        if (bi, env) in seen: continue
        seen.add((bi, env)); out.add(bi)
        if len(seen) > 20000: return body.reach(starts, stop)
        e = dict(env); blk = body.blocks[bi]
        for st in blk['st']:
            if 'dst' not in st: continue
            d = st['dst']; rv = st['rv']
            if d['p']:
                e.pop(d['l'], None); continue
            val = None
            if rv['k'] == 'agg' and rv['adt'].split('::')[-1] in DISCR and '::' in rv['adt']: val = rv['adt'].split('::')[-1]
            elif rv['k'] == 'use' and rv['ops'][0]['k'] in ('copy', 'move') and not rv['ops'][0]['pl']['p']: val = e.get(rv['ops'][0]['pl']['l'])
            elif rv['k'] == 'discr' and not rv['pl']['p'] and isinstance(e.get(rv['pl']['l']), str): val = ('d', DISCR[e[rv['pl']['l']]])
            if val is None: e.pop(d['l'], None)
            else: e[d['l']] = val
        t = blk['term']; succs = body.succ(bi)
        if t['k'] == 'call':
            d = t['dst']; nm = t['r'] or t['f']; tail = T.strip_generics_tail(nm); val = None
            a0 = t['args'][0] if t['args'] else None
            src = e.get(a0['pl']['l']) if a0 and a0['k'] in ('copy', 'move') and not a0['pl']['p'] else None
            if T.FROM_RESIDUAL.search(tail): val = 'None' if nm.lstrip('<').startswith('std::option::Option') else 'Err'
            elif OK_CTOR_CALL.match(tail): val = 'Ok'
            elif T.TRY_BRANCH.search(nm) and isinstance(src, str): val = 'Continue' if _vclass(src) == 'ok' else 'Break'
            if d['p'] or val is None: e.pop(d['l'], None)
            else: e[d['l']] = val
        elif t['k'] == 'switch' and t['d']['k'] != 'const' and not t['d']['pl']['p']:
            v = e.get(t['d']['pl']['l'])
            if isinstance(v, tuple):
                m = {val: tg for val, tg in t['ts']}
                succs = [m.get(v[1], t['else'])]
        fe = frozenset(e.items())
        for s in succs:
            if s not in stop and not body.blocks[s]['cleanup']: work.append((s, fe))
    return out


def must_pass_v(body, start, targets, via):
    """templates.must_pass on reach_v: every path from `start` to a block in `targets` passes a block in `via`"""
    return not (reach_v(body, [start], stop=set(via)) & set(targets))


def errflow_v(body, local, depth=0, none_variant=0):
    """templates.errflow with path-sensitive reachability (reach_v) on the error side"""
    res = []
    if depth > 6: return [('bad', 'adaptor chain too deep')]
    if local == 0: return [('ok', 'returned')]
    oks = body.strict_ok_exits()
    uses = body.uses.get(local, ())
    if not uses: return [('bad', 'result unused (dropped)')]
    for kind, bi, x in uses:
        if kind == 'call':
            name = x.name
            if T.TRY_BRANCH.search(name):
                arms = T.try_arms(body, local)
                if arms:
                    if reach_v(body, [arms[1]]) & oks: res.append(('bad', 'Break arm of ? reaches an Ok-exit'))
                    else: res.append(('ok', '?'))
                else: res.append(('bad', 'Try::branch without switch'))
            elif T.ERR_ADAPTORS.search(name):
                res += [(k, '%s -> %s' % (x.item, h)) for k, h in errflow_v(body, x.dst['l'], depth + 1, none_variant)]
            elif T.ERR_BAD.search(name): res.append(('bad', 'consumed by ' + x.item))
            else: res.append(('bad', 'passed to ' + name[:60]))
        elif kind == 'stmt':
            rv = x['rv']
            if rv['k'] == 'discr':
                for k3, b3, sw in body.uses.get(x['dst']['l'], ()):
                    if k3 != 'switch': continue
                    m = {v: t for v, t in sw['ts']}
                    if reach_v(body, [m.get(none_variant, sw['else'])]) & oks: res.append(('bad', 'None/Err side of match reaches an Ok-exit'))
                    else: res.append(('ok', 'match: None/Err side reaches only Err-exits'))
            elif rv['k'] == 'use' and x['dst']['p'] == []:
                o = rv['ops'][0]
                if o['k'] in ('copy', 'move') and o['pl']['l'] == local and o['pl']['p'] == []:
                    if x['dst']['l'] == 0: res.append(('ok', 'returned'))
                    else: res += errflow_v(body, x['dst']['l'], depth + 1, none_variant)
            elif rv['k'] == 'ref':
                res += errflow_v(body, x['dst']['l'], depth + 1, none_variant)
    if not res: res.append(('bad', 'no recognised consumer'))
    return res


def errflow_bad(body, calls):
    out = []
    for c in calls:
        bad = sorted({h for k, h in errflow_v(body, c.dst['l']) if k == 'bad'})
        if bad: out.append((c, '; '.join(bad)))
    return out


def decide(ctx, rule, template, body, problems, site=None):
    """one rule instance: ok, or one violation per problem [(detail, site)]"""
    if not problems: ctx.ok(rule, template, site or body.site())
    for detail, st in problems: ctx.bad(rule, template, body.name, detail, st or body.site())
    return not problems


# ------------------------------------------------------------------------------------------------
# loops and where their items come from
# ------------------------------------------------------------------------------------------------
# calls that give a view of the same elements in the same order (≡ iterating the collection itself)
ITERISH = re.compile(r'::(into_iter|iter|deref|as_ref|as_slice|borrow|by_ref|copied|cloned)$')


def components(n):
    """structure of an iterator expression:
         ('src', expr)            the elements of a place, through ITERISH views only
         ('zip', [components])    itertools::multizip((a, b, ..)) ≡ izip!(a, b, ..) ≡ a.zip(b) (nested: ((a, b), c))
         ('index',)               the counter of enumerate()
         ('other', expr)          anything else (filtered / cloned / re-ordered / derived collection)"""
    while True:
        if n[0] == 'call':
            nm = T.strip_generics_tail(n[2])
            if nm.endswith('multizip') and n[3] and n[3][0][0] == 'agg' and n[3][0][1] == 'tuple': return ('zip', [components(x) for x in n[3][0][2]])
            if n[1] == 'zip' and 'Iterator' in n[2] and len(n[3]) == 2: return ('zip', [components(n[3][0]), components(n[3][1])])
            if n[1] == 'enumerate' and 'Iterator' in n[2] and n[3]: return ('zip', [('index',), components(n[3][0])])
            if ITERISH.search(nm) and n[3]: n = n[3][0]; continue
            return ('other', n)
        if n[0] == 'place' or is_item(n): return ('src', n)
        return ('other', n)


def comp_leaves(c):
    if c[0] == 'zip':
        for x in c[1]: yield from comp_leaves(x)
    else: yield c


class Kernel:
    def __init__(self, ctx, body):
        self.ctx = ctx; self.body = body; self.vx = VX(body)
        self.for_loops = T.for_loops(body)                       # (next_call, header, some_bb, none_bb, blocks)
        self.by_next = {lo[0].bb: lo for lo in self.for_loops}
        self.by_header = {lo[1]: lo for lo in self.for_loops}
        self.nat = body.loops()
        self._comp = {}

    def innermost(self, bb):
        c = [(h, bl) for h, bl in self.nat.items() if bb in bl]
        return min(c, key=lambda x: len(x[1]))[0] if c else None

    def comp_of(self, lo):
        k = lo[0].bb
        if k not in self._comp: self._comp[k] = components(self.vx.op(lo[0].args[0]))
        return self._comp[k]

    def msg_path(self, node, depth=0):
        """where in the message a value is read: (field path from self, [next-call blocks of the loops crossed]); None = not (only) from the message"""
        n = peel(node)
        if n[0] == 'call' and n[1] == 'next' and 'Iterator' in n[2]: n = ('proj', n, [('std::option::Option::Some', '0')])
        if n[0] == 'place' and n[1] == 1: return list(n[2]), []
        if is_item(n) and depth < 4:
            fs = list(n[2])
            if not fs or not fs[0][0].endswith('Option::Some'): return None
            fs = fs[1:]
            lo = self.by_next.get(n[1][4])
            if lo is None: return None
            c = self.comp_of(lo)
            while c[0] == 'zip':
                if not fs or fs[0][0] != 'tuple' or not fs[0][1].isdigit() or int(fs[0][1]) >= len(c[1]): return None
                c = c[1][int(fs[0][1])]; fs = fs[1:]
            if c[0] != 'src': return None
            base = self.msg_path(c[1], depth + 1)
            if base is None: return None
            return base[0] + fs, base[1] + [n[1][4]]
        return None

    def every_iteration(self, chain, sites):
        """reasons why `sites` (blocks) are NOT passed once per element of the nested lists crossed by the loops `chain` (outermost first)"""
        body = self.body; oks = body.strict_ok_exits(); why = []
        los = [self.by_next.get(nb) for nb in chain]
        if any(lo is None for lo in los): return ['loop not found']
        if not los:
            if not any(all(body.dominates(s, e) for e in oks) for s in sites): why.append('not on every path to the Ok-exit')
            return why
        L1 = los[0]
        if not all(body.dominates(L1[1], e) for e in oks): why.append('the loop does not dominate the Ok-exit')
        if not must_pass_v(body, L1[2], oks, {L1[1]}): why.append('the loop can be left before the last element without an error')
        for Lo, Li in zip(los, los[1:]):
            if Li[1] not in Lo[4]: why.append('loops are not nested'); continue
            if not must_pass_v(body, Lo[2], {Lo[1]}, {Li[1]}): why.append('the inner loop is skipped on some path')
            if not must_pass_v(body, Li[2], {Lo[1]}, {Li[1]}): why.append('the inner loop can be left before its last element')
        Lk = los[-1]
        if not must_pass_v(body, Lk[2], {Lk[1]}, set(sites)): why.append('a path through the loop body skips it')
        return why


def same_path(got, want):
    return got is not None and len(got) == len(want) and all(f == wf and (a == wa or a.endswith('::' + wa)) for (a, f), (wa, wf) in zip(got, want))


def live_closures(ctx, body, depth=0):
    """closure bodies whose value is still used in `body` (a spliced closure leaves a dead aggregate behind), transitively.
    Not ctx.F.closures_of: the normal form also drops closures from that list which it looked at but then left in place."""
    out = []
    for bi, st, path in body.closures_created():
        cb = ctx.F.bodies.get(path)
        if cb is None or not body.uses.get(st['dst']['l']) or depth > 3: continue
        out.append(cb); out += live_closures(ctx, cb, depth + 1)
    return out


def state_lookups(ctx, body, state_param=2):
    out = []
    for c in body.calls:
        if c.item == 'get' and re.search(STATE_GET, c.name):
            fs, root, _ = T.access_path(body, c.args[0])
            if ('v1::State', 'entries') in fs: out.append(c)
    return out


def is_lookup(e):
    e = peel(e)
    return e[0] == 'call' and e[1] == 'get' and bool(re.search(STATE_GET, e[2])) and len(e[3]) == 2


def returned_pair(body):
    """(exit block, value operand, set operand) of the `Ok((value, set))` exits"""
    out = []
    for e, k, st in body.ret_assignments():
        if k == 'ok':
            op = st['rv']['ops'][0]
            if op['k'] in ('copy', 'move'):
                l = op['pl']['l']
                for _ in range(4):          # through plain copies of the pair
                    ds = body.defs_of(l)
                    if len(ds) == 1 and ds[0][0] == 'stmt' and ds[0][2]['rv']['k'] == 'use' and ds[0][2]['rv']['ops'][0]['k'] in ('copy', 'move') and not ds[0][2]['rv']['ops'][0]['pl']['p'] and not ds[0][2]['dst']['p']:
                        l = ds[0][2]['rv']['ops'][0]['pl']['l']
                    else: break
                for k2, b2, d in body.defs_of(l):
                    if k2 == 'stmt' and d['rv']['k'] == 'agg' and d['rv']['adt'] == 'tuple' and len(d['rv']['ops']) == 2:
                        out.append((e, d['rv']['ops'][0], d['rv']['ops'][1]))
    return out


# ------------------------------------------------------------------------------------------------
# the three kernels
# ------------------------------------------------------------------------------------------------
def kernel_rules(ctx, short):
    spec = KERNELS[short]; ty = spec['ty']; R = 'C01'
    body = ctx.method(R + '.anchor/%s::evaluate' % short, ty, 'evaluate', trait='Evaluate')
    if body is None: return
    K = Kernel(ctx, body); vx = K.vx
    fn = body.name

    # ---- C01.lookup: a missing variable is an error, for every lookup in the given state
    lookups = state_lookups(ctx, body)
    closures = live_closures(ctx, body)
    hidden = [(cb, c) for cb in closures for c in state_lookups(ctx, cb)]
    decide(ctx, R + '.lookup/%s/missing-is-error' % short, 'T-ERRFLOW', body,
           [('state lookup: ' + why, body.site(c.bb)) for c, why in errflow_bad(body, lookups)] +
           [('state lookup: ' + why, cb.site(c.bb)) for cb in closures for c, why in errflow_bad(cb, state_lookups(ctx, cb))] +
           ([] if lookups or hidden else [('no state lookup in the evaluator', None)]))
    decide(ctx, R + '.lookup/%s/state' % short, 'T-CARRY', body,
           [('lookup is not in the given state', body.site(c.bb)) for c in lookups if T.access_path(body, c.args[0])[1] != 2])
    # lookups hidden in closures that the normal form could not splice cannot be followed: fail closed (but see weak_kernel)
    def visible_rule():
        decide(ctx, R + '.lookup/%s/visible' % short, 'T-ERRFLOW', body,
               [('a state lookup sits in closure %s whose use is not recognised' % cb.name.split('::')[-1], cb.site(c.bb)) for cb, c in hidden])

    pairs = returned_pair(body)
    ctx.check(len(pairs) == 1, R + '.fields/%s/result' % short, 'T-CARRY', fn, 'expected one Ok((value, ids)) exit, found %d' % len(pairs), body.site())
    if len(pairs) != 1:
        visible_rule(); return
    exit_bb, vop, sop = pairs[0]

    # ---- the value: init + Σ term
    value = vx.op(vop)
    # `sum = init; .. ; Ok((sum, ids))`  ≡  `sum = 0.0; .. ; Ok((sum + init, ids))`: summands added at the exit count as part of the start value
    leaves = T.flatten(value, 'Add')
    recs = [(x, recurrence(x, vx)) for x in leaves]
    rec = [r for x, r in recs if r is not None][0] if len([1 for x, r in recs if r is not None]) == 1 else None
    if rec is not None:
        rec = (rec[0], rec[1] + [(x, exit_bb) for x, r in recs if r is None], rec[2])
    else:
        un = unopened_consumers(value)
        if un and not any(r is not None for x, r in recs):
            # the sum is formed inside an iterator consumer that the normal form leaves closed (e.g. `.map(..).sum::<Result<f64>>()`):
            # the precise rules cannot be decided; weaker necessary conditions of the same clauses are
            weak_kernel(ctx, K, short, spec, vop, sop, un[0], hidden); return
    visible_rule()
    ups = rec[2] if rec else []
    excl = all(u2[2] not in body.reach(body.succ(u1[2]), stop={K.innermost(u1[2])}) for u1 in ups for u2 in ups if u1 is not u2 and K.innermost(u1[2]) is not None)
    sum_ok = bool(ups) and all(op == 'Add' for op, x, bi in ups) and excl
    ctx.check(sum_ok, R + '.fields/%s/sum-is-added' % short, 'T-BRANCHFX', fn,
              'the result is not accumulated by `sum += term` once per term (found %s%s)' % ([op for op, x, bi in ups] if rec else T.expr_str(peel(value)), '' if excl else ', several updates on one path'), body.site())
    if not rec: return
    acc_l, inits, ups = rec
    heads = {K.innermost(bi) for op, x, bi in ups}
    Lp = K.by_header.get(list(heads)[0]) if len(heads) == 1 else None
    ctx.check(Lp is not None, R + '.every-term/%s/loop' % short, 'T-LOOPMUST', fn, 'the updates of the sum are not in one `for`-like loop over the terms (loop headers %s)' % sorted(heads, key=str), body.site(ups[0][2]))
    if Lp is None: return
    term_loop = Lp[0].bb

    # ---- every term: the term loop iterates the message's own lists, completely; the update lies on every path
    why = K.every_iteration([term_loop], [bi for op, x, bi in ups])
    ctx.check(not [w for w in why if 'dominate' in w], R + '.every-term/%s/dominates' % short, 'T-MUSTCALL', fn, 'term loop does not dominate the Ok-exit', body.site(Lp[0].bb))
    ctx.check(not [w for w in why if 'left before' in w], R + '.every-term/%s/all-terms' % short, 'T-LOOPMUST', fn, 'the term loop can end before the last term without an error', body.site(Lp[0].bb))
    ctx.check(not [w for w in why if 'skips' in w], R + '.every-term/%s/accumulated' % short, 'T-LOOPMUST', fn, 'a term can be skipped without being added', body.site(ups[0][2]))

    # ---- init
    init_check(ctx, K, short, spec['init'], inits, Lp)

    # ---- the term: coefficient × Π state[id]
    loops_used = {term_loop}
    coefs = []; looks = []; other = []
    for op, term, ubi in ups:
        for f, via in product_factors(term, None, vx):
            if f[0] == 'bad-accumulator': other.append((f, via)); continue
            if is_lookup(f): looks.append((peel(f), via, ubi)); continue
            mp = K.msg_path(f)
            if mp is not None and same_path(mp[0], spec['coef']): coefs.append((f, via, ubi, mp))
            else: other.append((f, via))
    nups = len(ups)
    facs = ['%s' % T.expr_str(f[0]) if f[0][0] != 'bad-accumulator' else 'accumulator updated by %s' % f[0][1] for f in coefs + looks + other]
    ctx.check(len(coefs) == nups and not other and len(looks) == nups * len(spec['ids']), R + '.fields/%s/term-is-coefficient-times-values' % short, 'T-BRANCHFX', fn,
              'term is not coefficient × Π value(id): factors = %s' % facs, body.site(ups[0][2]), factors=facs)
    # each lookup is keyed by an id of this term, and multiplied in exactly once per occurrence of the id
    keys = []; once = []
    for f, via, ubi in looks:
        mp = K.msg_path(f[3][1])
        hit = [i for i, p in enumerate(spec['ids']) if mp is not None and same_path(mp[0], p)]
        keys.append(spec['ids'][hit[0]][-1][1] if hit else None)
        if mp is None: continue
        loops_used |= set(mp[1])
        # the factor enters the product in the loop that yields its id (directly in the term, or through a `p *= x` update)
        site_loop = K.innermost(via if via is not None else ubi)
        key_loop = K.by_next[mp[1][-1]][1] if mp[1] and mp[1][-1] in K.by_next else None
        if mp[1][:1] != [term_loop] or site_loop != key_loop:
            once.append(('a looked-up value is not multiplied in exactly once per id of the term (update in loop bb%s, id from loop bb%s)' % (site_loop, key_loop), body.site(via if via is not None else ubi)))
        elif via is not None:
            w = K.every_iteration(mp[1], [via])
            if w: once.append(('the factor of an id can be skipped: %s' % '; '.join(w), body.site(via)))
    for f, via, ubi, mp in coefs:
        loops_used |= set(mp[1])
        if mp[1] != [term_loop] or via is not None and K.innermost(via) != Lp[1]:
            once.append(('the coefficient is not the one of the current term', body.site(ubi)))
    want = sorted(p[-1][1] for p in spec['ids'])
    ctx.check(sorted(x for x in keys if x) == want * nups and None not in keys, R + '.fields/%s/lookup-keys' % short, 'T-CARRY', fn, 'values are looked up under %s, expected %s' % (keys, want), body.site(ups[0][2]))
    decide(ctx, R + '.fields/%s/one-factor-per-id' % short, 'T-LOOPMUST', body, once)
    # the loops that yield coefficient and ids run over the message's own lists (no filtered, de-duplicated or re-ordered copy)
    probs = []
    for nb in sorted(loops_used):
        lo = K.by_next.get(nb)
        for leaf in comp_leaves(K.comp_of(lo)) if lo else [('other', ('local', -1))]:
            if leaf[0] == 'index': continue
            if leaf[0] != 'src' or K.msg_path(leaf[1]) is None:
                probs.append(('a loop iterates a derived collection instead of the message\'s own list (%s)' % T.expr_str(leaf[1]), body.site(nb)))
    # an id loop that is not recognised at all (key does not resolve): report the loop of the lookup
    for f, via, ubi in looks:
        if K.msg_path(f[3][1]) is None:
            probs.append(('the id of a lookup does not come straight from the message\'s own list (%s)' % T.expr_str(f[3][1]), body.site(f[4] if len(f) > 4 else ubi)))
    decide(ctx, R + '.every-term/%s/iterates-message-directly' % short, 'T-LOOPMUST', body, probs)

    # ---- used ids
    used_rules(ctx, K, short, spec, sop)


# ------------------------------------------------------------------------------------------------
# fallback: the accumulation is hidden in an iterator consumer that the normal form does not open
# ------------------------------------------------------------------------------------------------
FULL_CONSUMERS = ('sum', 'product', 'fold', 'try_fold', 'for_each', 'try_for_each', 'collect')      # visit every element (unlike find / any / all / position / nth / last ..)
PASS_ADAPTORS = ('map', 'inspect', 'copied', 'cloned', 'by_ref', 'enumerate', 'zip')             # one output element per input element
PRECISE = {'fields': ['sum-is-added', 'init', 'term-is-coefficient-times-values', 'lookup-keys', 'one-factor-per-id'],
           'every-term': ['loop', 'dominates', 'all-terms', 'accumulated', 'iterates-message-directly'],
           'used': ['ids', 'into-result-set', 'every-id'], 'lookup': ['visible']}
DERIVING = re.compile(r'::(dedup\w*|sort\w*|retain|truncate|drain|filter|skip|take|step_by|take_while|skip_while|filter_map|nth|map_while|rev|unique|dedup_by_key)(::<.*>)?$')


def unopened_consumers(value):
    """calls of Iterator consumers (with a closure somewhere below) left in a value expression"""
    out = []
    for x in T.expr_walk(value):
        if x[0] == 'call' and 'Iterator' in x[2] and x[3] and any(y[0] == 'agg' and y[1].startswith('closure:') for y in T.expr_walk(x)):
            if not any(x is not o and any(y is x for y in T.expr_walk(o)) for o in out): out.append(x)
    return out[:1] if out else []


def weak_kernel(ctx, K, short, spec, vop, sop, consumer, hidden):
    R = 'C01'; body = K.body; fn = body.name
    why = 'the value is accumulated inside `%s` over a closure chain that the normal form does not open' % consumer[1]
    for fam, names in PRECISE.items():
        for n in names: ctx.undecided('%s.%s/%s/%s' % (R, fam, short, n), 'T-LOOPMUST' if fam == 'every-term' else 'T-CARRY', body.site(consumer[4]), why)
    def weak(fam, name, cond, detail, template='T-CARRY'):
        ctx.check(bool(cond), '%s.%s/%s/%s~weak' % (R, fam, short, name), template, fn, detail, body.site(consumer[4]))
    sv = ctx.S.slice_operand(body, vop); ss = ctx.S.slice_operand(body, sop)
    init_field = {'constant': ('v1::Linear', 'constant'), 'linear-part': ('v1::Quadratic', 'linear')}.get(spec['init'])
    # ---- value
    weak('fields', 'sum-is-added', sv.has_field(*spec['coef'][-1]), 'the value does not depend on the coefficients')
    weak('fields', 'init', init_field is None or sv.has_field(*init_field), 'the value does not depend on %s' % (init_field,))
    weak('fields', 'term-is-coefficient-times-values', sv.has_call(STATE_GET) and 2 in sv.params, 'the value does not depend on lookups in the given state')
    weak('fields', 'lookup-keys', all(sv.has_field(*p[-1]) for p in spec['ids']), 'the value does not depend on every id field')
    weak('fields', 'one-factor-per-id', not [c for c in sv.calls if DERIVING.search(T.strip_generics_tail(c))], 'the value goes through a filtered / re-ordered / de-duplicated collection: %s' % sorted(c.split('::')[-1] for c in sv.calls if DERIVING.search(T.strip_generics_tail(c)))[:4], 'T-LOOPMUST')
    # ---- the chain under the consumer
    n = consumer[3][0]; restricted = []
    while n[0] == 'call' and n[3]:
        nm = T.strip_generics_tail(n[2])
        if 'Iterator' in n[2] and n[1] in PASS_ADAPTORS and n[1] != 'zip': n = n[3][0]; continue
        if ITERISH.search(nm) and n[1] != 'zip' and not nm.endswith('multizip'): n = n[3][0]; continue
        if 'Iterator' in n[2] and n[1] not in ('zip',): restricted.append(n[1])
        break
    comp = components(n)
    leaves = list(comp_leaves(comp))
    def leaf_from_msg(l):
        if l[0] == 'index': return True
        mp = K.msg_path(l[1]) if l[0] == 'src' else None
        return mp is not None and any(same_path(mp[0][:1], p[:1]) for p in [spec['coef']] + spec['ids'])
    from_msg = all(leaf_from_msg(l) for l in leaves)
    weak('every-term', 'loop', from_msg, 'the consumer does not run over the message\'s own term list (%s)' % [T.expr_str(l[1]) if len(l) > 1 else l[0] for l in leaves], 'T-LOOPMUST')
    weak('every-term', 'dominates', all(body.dominates(consumer[4], e) for e in body.strict_ok_exits()), 'the consumer does not dominate the Ok-exit', 'T-MUSTCALL')
    weak('every-term', 'all-terms', not restricted, 'the term iterator is restricted by %s' % restricted, 'T-LOOPMUST')
    weak('every-term', 'accumulated', consumer[1] in FULL_CONSUMERS, '`%s` does not visit every term' % consumer[1], 'T-LOOPMUST')
    weak('every-term', 'iterates-message-directly', all(l[0] in ('src', 'index') for l in leaves), 'the consumer runs over a derived collection', 'T-LOOPMUST')
    # ---- the Result of the consumer (errors of the closure) is propagated
    cc = [c for c in body.calls if c.bb == consumer[4]]
    fallible = bool(cc) and 'Result' in body.locals[cc[0].dst['l']]
    bad = errflow_bad(body, cc) if fallible else []
    weak('lookup', 'visible', not hidden or (fallible and not bad), 'errors of the closure (missing variables) are not propagated: %s' % ([w for c, w in bad] or 'the consumer does not return a Result'), 'T-ERRFLOW')
    # ---- used ids
    weak('used', 'ids', all(ss.has_field(*p[-1]) for p in spec['ids']), 'the returned set does not depend on every id field')
    weak('used', 'into-result-set', ss.has_call(r'BTreeSet(::)?<.*>(::| as .*>::)(insert|extend)'), 'nothing is inserted into the returned set')
    weak('used', 'every-id', not [c for c in ss.calls if DERIVING.search(T.strip_generics_tail(c))], 'the ids go through a filtered / re-ordered / de-duplicated collection', 'T-LOOPMUST')
    if spec['init'] == 'linear-part':
        tests = option_field_tests(body, 'v1::Quadratic', 'linear'); oks = body.strict_ok_exits()
        none_only = set().union(*[body.reach([nn]) - body.reach([sm]) for sb, sm, nn in tests]) if tests else set()
        zero = [bi for bi, st in body.stmts() if bi in none_only and any(o['k'] == 'const' and o['v'] == '0f64' for o in st['rv'].get('ops', []))]
        ctx.check(bool(zero), R + '.linear-none/zero', 'T-CONST', fn, 'absent linear part does not contribute (0, {})', body.site())
        ctx.check(any(reach_v(body, [nn]) & oks for sb, sm, nn in tests) and not (none_only & body.err_exits()), R + '.linear-none/ok', 'T-GUARD', fn, 'absent linear part leads to an error', body.site())
        le = [c for c in body.calls if c.item == 'evaluate' and 'v1::Linear as evaluate::Evaluate' in c.name]
        decide(ctx, R + '.fields/%s/linear-error' % short, 'T-ERRFLOW', body, [('linear part evaluation: ' + w, body.site(c.bb)) for c, w in errflow_bad(body, le)] + ([] if le else [('the linear part is not evaluated', None)]))
        ctx.check(ss.has_call(r'v1::Linear as evaluate::Evaluate>::evaluate'), R + '.used/Quadratic/includes-linear-ids', 'T-CARRY', fn, 'ids of the linear part are not reported', body.site())


def init_check(ctx, K, short, kind, inits, Lp):
    """inits: the summands the sum starts from (definitions of the accumulator outside the loop + summands added at the exit)"""
    R = 'C01'; body = K.body; fn = body.name
    descr = [T.expr_str(peel(x)) for x, bi in inits]
    outside = all(bi not in Lp[4] for x, bi in inits)
    nz = [(peel(x), bi) for x, bi in inits if peel(x) != ('const', '0f64')]          # 0.0 + x ≡ x
    init_ok = False
    if kind == 'constant':
        init_ok = len(nz) == 1 and K.msg_path(nz[0][0]) == ([('v1::Linear', 'constant')], [])
    elif kind == 'zero':
        init_ok = not nz and bool(inits)
    elif kind == 'linear-part':
        # (sum, ids) = match &self.linear { Some(l) => l.evaluate(state)?, None => (0.0, {}) }   (if let / match / as_ref() alike)
        entries = []
        if len(nz) == 1:
            n, bi = nz[0]
            entries = list(zip(n[2], n[3])) if n[0] == 'phi' else [(n, bi)]
        tests = option_field_tests(body, 'v1::Quadratic', 'linear')
        some_ok = none_ok = False; rest = []
        for x, bi in entries:
            n = peel(x)
            if n == ('const', '0f64'):
                if any(bi in body.reach([nn], stop={Lp[1]}) and bi not in body.reach([sm], stop={Lp[1]}) for sb, sm, nn in tests):
                    none_ok = True
                    # an absent linear part is not an error
                    ctx.check(bool(reach_v(body, [bi]) & body.strict_ok_exits()), R + '.linear-none/ok', 'T-GUARD', fn, 'absent linear part leads to an error', body.site(bi))
                    continue
            if n[0] == 'proj' and n[1][0] == 'call' and n[1][1] == 'evaluate' and 'v1::Linear as evaluate::Evaluate' in n[1][2]:
                ev = n[1]
                if [f for a, f in n[2] if a == 'tuple'] == ['0'] and ('v1::Quadratic', 'linear') in T.expr_fields(ev[3][0]) and peel(ev[3][1]) == ('place', 2, []) \
                        and any(ev[4] in body.reach([sm], stop={Lp[1]}) and ev[4] not in body.reach([nn], stop={Lp[1]}) for sb, sm, nn in tests):
                    some_ok = True; continue
            rest.append(x)
        init_ok = some_ok and none_ok and not rest
        ctx.check(none_ok, R + '.linear-none/zero', 'T-CONST', fn, 'absent linear part does not contribute (0, {})', body.site())
        le = [c for c in body.calls if c.item == 'evaluate' and 'v1::Linear as evaluate::Evaluate' in c.name]
        decide(ctx, R + '.fields/%s/linear-error' % short, 'T-ERRFLOW', body, [('linear part evaluation: ' + why, body.site(c.bb)) for c, why in errflow_bad(body, le)])
    ctx.check(init_ok and outside, R + '.fields/%s/init' % short, 'T-CARRY', fn, 'accumulator does not start from %s (found %s)' % (kind, descr), body.site())


# ways of recording ids in the result set
#   set.insert(id)                       inside the loop that yields the id, on every path
#   set.extend(<ITERISH view of ids>)    ≡ for id in ids { set.insert(*id) }       (extend([a, b]) is two inserts in the normal form)
SET_INSERT = re.compile(r'BTreeSet::<.*>::insert$')
SET_EXTEND = re.compile(r'BTreeSet<.*> as std::iter::Extend<.*>>::extend$|BTreeSet::<.*>::extend$')


def used_rules(ctx, K, short, spec, sop):
    R = 'C01'; body = K.body; fn = body.name; vx = K.vx
    set_l = T.access_path(body, sop, transparent=T.TRANSPARENT_NOCLONE)[1]
    def into_set(c):
        return T.access_path(body, c.args[0], transparent=T.TRANSPARENT_NOCLONE)[1] == set_l
    sites = []          # (call, path fields, loops chain)
    stray = []
    for c in body.calls:
        nm = T.strip_generics_tail(c.name)
        if c.item == 'insert' and SET_INSERT.search(nm) and len(c.args) == 2:
            mp = K.msg_path(vx.op(c.args[1]))
            if mp is None or not any(same_path(mp[0], p) for p in spec['ids']): continue
            (sites if into_set(c) else stray).append((c, mp[0], mp[1]))
        elif c.item == 'extend' and SET_EXTEND.search(nm) and len(c.args) == 2:
            comp = components(vx.op(c.args[1]))
            mp = K.msg_path(comp[1]) if comp[0] == 'src' else None
            if mp is None or not any(same_path(mp[0], p) for p in spec['ids']): continue
            (sites if into_set(c) else stray).append((c, mp[0], mp[1]))
    got = []; probs = []
    for p in spec['ids']:
        cands = [s for s in sites if same_path(s[1], p)]
        why = None
        for c, fs, chain in cands:
            w = K.every_iteration(chain, [c.bb])
            # the loops crossed must run over the message's own lists
            for nb in chain:
                if any(leaf[0] not in ('src', 'index') or (leaf[0] == 'src' and K.msg_path(leaf[1]) is None) for leaf in comp_leaves(K.comp_of(K.by_next[nb]))): w.append('derived collection')
            if not w: why = None; got.append(p[-1][1]); break
            why = w
        if why: probs.append(('an id of %s can be skipped: %s' % (p[-1][1], '; '.join(why)), body.site(cands[0][0].bb)))
    want = sorted(p[-1][1] for p in spec['ids'])
    seen = sorted({s[1][-1][1] for s in sites})
    ctx.check(seen == want, R + '.used/%s/ids' % short, 'T-CARRY', fn, 'ids recorded in the result set are %s, expected %s' % (seen, want), body.site())
    decide(ctx, R + '.used/%s/into-result-set' % short, 'T-CARRY', body,
           [('id is inserted into another set', body.site(c.bb)) for c, fs, ch in stray if not any(same_path(s[1], fs) for s in sites)])
    decide(ctx, R + '.used/%s/every-id' % short, 'T-LOOPMUST', body, probs)
    if spec['init'] == 'linear-part':
        s = ctx.S.backslice(body, [set_l])
        ctx.check(s.has_call(r'v1::Linear as evaluate::Evaluate>::evaluate'), R + '.used/Quadratic/includes-linear-ids', 'T-CARRY', fn, 'ids of the linear part are not reported', body.site())


# ------------------------------------------------------------------------------------------------
# the oneof dispatcher
# ------------------------------------------------------------------------------------------------
def oneof_rules(ctx):
    R = 'C01.oneof'
    body = ctx.method(R + '/anchor', 'v1::Function', 'evaluate', trait='Evaluate')
    if body is None: return
    en = ctx.F.adt('v1::function::Function')
    if en is None:
        ctx.lost(R, 'enum v1::function::Function'); return
    vx = VX(body)
    variants = [v['name'] for v in en['variants']]
    want = {'Constant': None, 'Linear': 'v1::Linear', 'Quadratic': 'v1::Quadratic', 'Polynomial': 'v1::Polynomial'}
    ctx.check(set(variants) == set(want), R + '/variant-list', 'T-TABLE', body.name, 'oneof variants are %s, rule table knows %s' % (variants, sorted(want)), body.site())
    # outer Option test (match / if let / let-else, on &self.function or self.function.as_ref()) and inner enum switch
    tests = option_field_tests(body, 'v1::Function', 'function')
    ctx.check(len(tests) >= 1, R + '/option-test', 'T-BRANCHFX', body.name, 'no test on self.function', body.site())
    if not tests: return
    sb, some_t, none_t = tests[0]
    nr = T.reach_cp(body, [none_t]) - T.reach_cp(body, [some_t])
    # unset oneof => (0.0, empty set), no error
    tuples = [(bi, st) for bi, st in body.stmts() if bi in nr and st['rv']['k'] == 'agg' and st['rv']['adt'] == 'tuple' and len(st['rv']['ops']) == 2]
    okn = False
    for bi, st in tuples:
        o0, o1 = st['rv']['ops']
        s1 = T.expr(body, o1)
        if o0['k'] == 'const' and o0['v'] == '0f64' and s1[0] == 'call' and s1[1] == 'new' and 'BTreeSet' in s1[2]: okn = True
    ctx.check(okn and not (nr & body.err_exits()) and bool(T.reach_cp(body, [none_t]) & body.strict_ok_exits()), R + '/unset-is-zero', 'T-BRANCHFX', body.name,
              'an unset oneof does not evaluate to (0.0, {})', body.site())
    # one arm per variant: the switch on the discriminant of the oneof payload
    sw = None
    for bi in sorted(T.reach_cp(body, [some_t]) | {sb}):
        t = body.blocks[bi]['term']
        if t['k'] == 'switch' and t['d']['k'] != 'const':
            for k2, b2, d in body.defs_of(t['d']['pl']['l']):
                if k2 != 'stmt' or d['rv']['k'] != 'discr': continue
                pl = d['rv']['pl']; fsp = fields_of_place(pl)
                lty = body.locals[pl['l']].replace('&', '').replace("'_ ", '').strip()
                on_enum = any('function::Function' in a for a, f in fsp) or (not fsp and lty.endswith('v1::function::Function')) or any(isinstance(p, dict) and p.get('dc') == 'Some' for p in pl['p'])
                if on_enum and (bi != sb or len(t['ts']) > 1): sw = (bi, t)
    if sw is None:
        # the Option and the enum may be tested by one switch chain; look for any switch with >= 3 targets
        for bi in sorted(body.live):
            t = body.blocks[bi]['term']
            if t['k'] == 'switch' and len(t['ts']) >= 3: sw = (bi, t)
    ctx.check(sw is not None, R + '/enum-switch', 'T-BRANCHFX', body.name, 'no switch over the oneof variants', body.site())
    if sw is None: return
    bi, t = sw; m = {v: tg for v, tg in t['ts']}
    targets = {v['name']: m.get(v['discr'], t['else']) for v in en['variants']}
    # what the Ok-exits return: `Ok(x)` with x resolved through copies / `?` / phi of the arms; or a callee's Result returned as it is
    returned = []           # value expressions
    direct = set()          # blocks of calls whose Result is the function's result
    for e, k, st in body.ret_assignments():
        if k == 'ok':
            n = peel(vx.op(st['rv']['ops'][0]))
            returned += [peel(x) for x in n[2]] if n[0] == 'phi' else [n]
        elif k == 'callval': direct.add(e)
        elif k == 'val':
            n = peel(vx.op(st['rv']['ops'][0]))
            for x in ([peel(y) for y in n[2]] if n[0] == 'phi' else [n]):
                if x[0] == 'call': direct.add(x[4])
    for name, tg in targets.items():
        others = [x for n2, x in targets.items() if n2 != name]
        reg = T.reach_cp(body, [tg]) - set().union(*[T.reach_cp(body, [x]) for x in others if x != tg]) if others else T.reach_cp(body, [tg])
        evs = [c for c in body.calls if c.bb in reg and c.item == 'evaluate' and 'Evaluate' in (c.trait or '')]
        if want.get(name) is None:
            # constant: value is the payload itself
            okc = False
            for b2, st in body.stmts():
                if b2 in reg and st['rv']['k'] == 'agg' and st['rv']['adt'] == 'tuple' and len(st['rv']['ops']) == 2:
                    ex = T.expr(body, st['rv']['ops'][0])
                    if any(f == '0' and 'Constant' in a for a, f in T.expr_fields(ex)): okc = True
            ctx.check(okc and not evs, R + '/arm/' + name, 'T-BRANCHFX', body.name, 'Constant arm does not return its payload', body.site(tg))
        else:
            ok = len(evs) == 1 and re.search(r'<%s as evaluate::Evaluate>::evaluate' % re.escape(want[name]), evs[0].name) and T.access_path(body, evs[0].args[1])[1] == 2 \
                 and any(name in a for a, f in T.access_path(body, evs[0].args[0])[0])
            ctx.check(bool(ok), R + '/arm/' + name, 'T-BRANCHFX', body.name, '%s arm does not evaluate its %s payload at the given state' % (name, name), body.site(tg))
            decide(ctx, R + '/arm/%s/error' % name, 'T-ERRFLOW', body, [('payload evaluation: ' + why, body.site(c.bb)) for c, why in errflow_bad(body, evs)])
            # the value of the chosen arm is returned unchanged:  Ok(e?) ≡ e
            unchanged = len(evs) == 1 and (evs[0].bb in direct or any(x[0] == 'call' and x[1] == 'evaluate' and x[4] == evs[0].bb for x in returned)
                                            or any(rebuilt_pair(x, evs[0].bb) for x in returned))
            ctx.check(unchanged, R + '/returns-arm-result/' + name, 'T-CARRY', body.name, 'the result of evaluating the %s payload is not what the function returns' % name, body.site(tg))
    arith_ops = [b2 for b2, st2 in body.stmts() if st2['rv']['k'] in ('bin', 'un') and st2['rv'].get('ty') == 'f64']
    arith_ops += [c.bb for c in body.calls if T.ARITH_CALL.match(c.name) or T.ASSIGN_CALL.match(c.name)]
    ctx.check(not arith_ops, R + '/no-arithmetic', 'T-BRANCHFX', body.name, 'the dispatcher modifies the value', body.site(arith_ops[0]) if arith_ops else body.site())


def rebuilt_pair(x, bb):
    """`let (v, ids) = e?; (v, ids)` ≡ `e?`: a tuple whose k-th component is (one definition of which is) the k-th component of the call result at block bb"""
    if x[0] != 'agg' or x[1] != 'tuple' or len(x[2]) != 2: return False
    for k, comp in enumerate(x[2]):
        comp = peel(comp)
        alts = [peel(y) for y in comp[2]] if comp[0] == 'phi' else [comp]
        if not any(y[0] == 'proj' and y[1][0] == 'call' and y[1][1] == 'evaluate' and y[1][4] == bb and [f for a, f in y[2] if a == 'tuple'] == [str(k)] for y in alts): return False
    return True


def check(ctx):
    for short in ('Linear', 'Quadratic', 'Polynomial'): kernel_rules(ctx, short)
    oneof_rules(ctx)
    # coverage of the message fields by the evaluators
    for ty, ex in (('v1::Linear', ()), ('v1::Quadratic', ()), ('v1::Polynomial', ())):
        b = ctx.F.one(ty, 'evaluate', trait='Evaluate')
        cover(ctx, 'C01.cover/' + ty.split('::')[-1], b, ty, exempt=ex)
    b = ctx.F.one('v1::Linear', 'evaluate', trait='Evaluate'); cover(ctx, 'C01.cover/Term', b, 'v1::linear::Term')
    b = ctx.F.one('v1::Polynomial', 'evaluate', trait='Evaluate'); cover(ctx, 'C01.cover/Monomial', b, 'v1::Monomial')
    ctx.floor('C01.lookup', 9); ctx.floor('C01.fields', 19); ctx.floor('C01.used', 10); ctx.floor('C01.every-term', 15); ctx.floor('C01.oneof', 15); ctx.floor('C01.linear-none', 2); ctx.floor('C01.cover', 11)


def thorough(ctx):
    """crate-wide sweep: every lookup in a State's entries either errors on a missing id or is one of
    the documented 'is this variable fixed?' probes"""
    seen = {}
    spliced = getattr(ctx.F, 'inlined_closures', set())
    for b in ctx.F.bodies.values():
        if b.kind == 'promoted' or b.name in spliced: continue       # a spliced closure is checked where its body now stands
        lk = state_lookups(ctx, b)
        if not lk: continue
        root = ctx.F.bodies.get(b.parent, b)
        key = (root.hdr.get('self'), root.hdr.get('item'))
        for c in lk:
            res = errflow_v(b, c.dst['l'])
            bad = [h for k, h in res if k == 'bad']
            if not bad:
                ctx.ok('C01.sweep/lookup', 'T-ERRFLOW', b.site(c.bb)); continue
            seen[key] = seen.get(key, 0) + 1
            allow = PROBE_EXEMPT.get(key)
            if allow is not None and seen[key] <= max(allow, 0) and allow > 0:
                ctx.ok('C01.sweep/probe', 'T-ERRFLOW', b.site(c.bb), exempt='documented probe in %s::%s' % key)
            else:
                ctx.bad('C01.sweep/lookup', 'T-ERRFLOW', b.name, 'state lookup whose missing entry is not an error: %s' % '; '.join(sorted(set(bad))), b.site(c.bb))
