"""C20 — artifacts return what was stored in them (DESIGN §5 C20).

The rules are written against the normal form (sa.normalize): helpers that do not exist on the pinned
tree are inlined, iterator chains with closures are explicit `next` loops.  Conditions are stated on
dataflow and on *outcomes* (which variant of Result/Option the function returns along a path), not on
the number or the spelling of syntactic items:

  Flow          path-sensitive forward exploration that knows the variant of Option/Result/ControlFlow
                locals (`x = None`, `Try::branch`, `from_residual`, `context`, `ok_or_else`, `match`)
                and of short-circuit bools; an exit is `ok`, `err` or `unknown` by the variant `_0` holds
                at the `return`.  This makes `for .. {return Ok} bail!` ≡ `find(..).with_context(..)`,
                `x?` ≡ `match x {Err(e) => return Err(e), ..}`, and a `?` inside an inlined helper
                (whose Err is first stored in the helper's result and re-branched by the caller) decidable.
  propagates    T-ERRFLOW: when the call's result is Err/None every exit is `err`.
  guard_holds   T-GUARD: no `ok`/`unknown` exit is reachable without passing the test, and the side
                of the test that contradicts the required polarity only has `err` exits.
"""
import os
from .common import *

VIEW = 'norm'

KINDS = {
    # kind: (builder fn, reader fn, media type fn, message type, annotation type)
    'instance': ('add_instance', 'get_instance', 'v1_instance', 'v1::Instance', 'InstanceAnnotations'),
    'parametric-instance': ('add_parametric_instance', 'get_parametric_instance', 'v1_parametric_instance', 'v1::ParametricInstance', 'ParametricInstanceAnnotations'),
    'solution': ('add_solution', 'get_solution', 'v1_solution', 'v1::State', 'SolutionAnnotations'),
    'sample-set': ('add_sample_set', 'get_sample_set', 'v1_sample_set', 'v1::SampleSet', 'SampleSetAnnotations'),
}
BUILDER = 'artifact::builder::Builder<Base>'; ART = 'artifact::Artifact<Base>'
MT_FN = re.compile(r'^artifact::media_types::(v1_\w+)$')

# prost calls that produce / consume exactly the plain (not length-delimited) wire encoding of a message
ENCODERS = ('encode_to_vec',      # msg.encode_to_vec()
            'encode')             # msg.encode(&mut buf)?
DECODERS = ('decode',)            # T::decode(bytes)


# ------------------------------------------------------------------------------- combinators as matches
# `x.and_then(f)` ≡ `match x { Ok(v) => f(v), Err(e) => Err(e) }` etc.: a call of an Option/Result combinator
# whose argument is a closure (or a fn item such as a tuple-struct constructor) is rewritten, in a private copy
# of the facts, as the explicit match with the closure's body spliced in (same machinery as sa.normalize uses
# for iterator adaptors).  Code that moved into such a closure is then seen where a `?` / `match` would have it.
#   (receiver family, item): (arm when Ok/Some, arm when Err/None)
#   arm = ('apply', wrap)   result = wrap(f(payload))         ('apply0', wrap)  result = wrap(f())
#         ('pass', wrap)    result = wrap(payload)            ('unit', wrap)    result = wrap      ; wrap None = bare value
COMBINATORS = {
    ('Result', 'and_then'):       (('apply', None), ('pass', 'Err')),      # match x { Ok(v) => f(v), Err(e) => Err(e) }
    ('Result', 'map'):            (('apply', 'Ok'), ('pass', 'Err')),      # match x { Ok(v) => Ok(f(v)), Err(e) => Err(e) }
    ('Result', 'map_err'):        (('pass', 'Ok'), ('apply', 'Err')),      # match x { Ok(v) => Ok(v), Err(e) => Err(f(e)) }
    ('Result', 'or_else'):        (('pass', 'Ok'), ('apply', None)),       # match x { Ok(v) => Ok(v), Err(e) => f(e) }
    ('Result', 'unwrap_or_else'): (('pass', None), ('apply', None)),       # match x { Ok(v) => v, Err(e) => f(e) }
    ('Option', 'and_then'):       (('apply', None), ('unit', 'None')),     # match x { Some(v) => f(v), None => None }
    ('Option', 'map'):            (('apply', 'Some'), ('unit', 'None')),   # match x { Some(v) => Some(f(v)), None => None }
    ('Option', 'ok_or_else'):     (('pass', 'Ok'), ('apply0', 'Err')),     # match x { Some(v) => Ok(v), None => Err(f()) }
    ('Option', 'or_else'):        (('pass', 'Some'), ('apply0', None)),    # match x { Some(v) => Some(v), None => f() }
    ('Option', 'unwrap_or_else'): (('pass', None), ('apply0', None)),      # match x { Some(v) => v, None => f() }
}
BOOL_COMBINATORS = {'then_some': 'value',     # c.then_some(v) ≡ if c { Some(v) } else { None }
                    'then': 'closure'}        # c.then(|| v)   ≡ if c { Some(f()) } else { None }
CTOR = {'Ok': 'std::result::Result::Ok', 'Err': 'std::result::Result::Err', 'Some': 'std::option::Option::Some', 'None': 'std::option::Option::None'}
SCOPE = re.compile(r'^<?artifact::')       # bodies of the artifact module (the anchors of this property)


def _payload(local, variant):
    return {'k': 'move', 'pl': {'l': local, 'p': [{'dc': variant}, {'f': '0', 'of': CTOR[variant]}]}}


def _desugar_body(F, N, d):
    """the body dict `d` with every combinator call of table COMBINATORS turned into a match; None if nothing to do"""
    from .. import normalize as NZ
    rw = NZ.Rewriter(d); rw.promoted_of = N._promoted_of
    bi = 0; done = 0
    while bi < len(rw.blocks) and done < 60:
        blk = rw.blocks[bi]; t = blk['term']; bi += 1
        if blk['cleanup'] or t['k'] != 'call' or t.get('synthetic') or t['t'] < 0 or len(t['args']) != 2: continue
        ri = t.get('ri') or {}
        if (ri.get('self') or '') == 'bool' and ri.get('item') in BOOL_COMBINATORS and not ri.get('trait') and t['args'][0]['k'] in ('copy', 'move'):
            cond, v = t['args']; span = t.get('span'); line = (span or {}).get('lo', 0); dst = t['dst']; after = t['t']
            ci = N._closure_of(rw, v) if (BOOL_COMBINATORS[ri['item']] == 'closure' and v['k'] in ('copy', 'move')) else None
            if BOOL_COMBINATORS[ri['item']] == 'closure' and (ci is None or ci[0]['argc'] != 1): continue
            c = rw.new_local('bool'); yes = rw.new_block(); no = rw.new_block()
            blk['st'].append(NZ._use(c, cond, line))
            blk['term'] = {'k': 'switch', 'd': NZ._mv(c), 'ts': [[0, no]], 'else': yes}
            rw.blocks[no]['st'].append(NZ._agg(dst, CTOR['None'], [], line=line)); rw.goto(no, after)
            if ci is None:
                rw.blocks[yes]['st'].append(NZ._agg(dst, CTOR['Some'], [v], line=line)); rw.goto(yes, after)
            else:
                r = rw.new_local(ci[0]['locals'][0]); cont = rw.new_block()
                rw.blocks[cont]['st'].append(NZ._agg(dst, CTOR['Some'], [NZ._mv(r)], line=line)); rw.goto(cont, after)
                rw.goto(yes, rw.splice(ci[0], [NZ._const('()', 'env')], NZ._pl(r), cont, span, captures=ci[1]))
            rw.changed = True; done += 1; continue
        fam = ty_family(ri.get('self') or '')
        key = ({'Some': 'Option', 'Ok': 'Result'}.get(fam[0]) if fam else None, ri.get('item'))
        if key not in COMBINATORS or ri.get('trait'): continue
        recv, f = t['args']
        if recv['k'] not in ('copy', 'move'): continue
        ci = N._closure_of(rw, f) if f['k'] in ('copy', 'move') else None
        fnitem = f if (f['k'] == 'const' and (f.get('fn') or f.get('fnp'))) else None
        if ci is None and fnitem is None: continue
        okv, errv = ('Ok', 'Err') if key[0] == 'Result' else ('Some', 'None')
        arms = COMBINATORS[key]
        need = [a[0] for a in arms if a[0].startswith('apply')]
        if ci is not None and any(ci[0]['argc'] != (2 if n == 'apply' else 1) for n in need): continue
        span = t.get('span'); line = (span or {}).get('lo', 0); dst = t['dst']; after = t['t']
        x = rw.new_local(rw.locals[recv['pl']['l']] if not recv['pl']['p'] else '?')
        dl = rw.new_local('isize')
        blocks = [rw.new_block(), rw.new_block()]; un = rw.new_block()
        blk['st'].append(NZ._use(x, recv, line)); blk['st'].append(NZ._discr(dl, NZ._pl(x), line))
        # discriminants: Ok = 0 / Err = 1 ; None = 0 / Some = 1
        order = [[0, blocks[0]], [1, blocks[1]]] if key[0] == 'Result' else [[1, blocks[0]], [0, blocks[1]]]
        blk['term'] = {'k': 'switch', 'd': NZ._mv(dl), 'ts': order, 'else': un}
        for (how, wrap), variant, b0 in zip(arms, (okv, errv), blocks):
            if how == 'unit':
                rw.blocks[b0]['st'].append(NZ._agg(dst, CTOR[wrap], [], line=line)); rw.goto(b0, after); continue
            if how == 'pass':
                val = _payload(x, variant)
                rw.blocks[b0]['st'].append(NZ._agg(dst, CTOR[wrap], [val], line=line) if wrap else NZ._use(dst, val, line)); rw.goto(b0, after); continue
            args = [_payload(x, variant)] if how == 'apply' else []
            if wrap is None and not dst['p']: r = None; out = dst; cont = after
            else:
                r = rw.new_local(ci[0]['locals'][0] if ci else '?'); out = NZ._pl(r); cont = rw.new_block()
                rw.blocks[cont]['st'].append(NZ._agg(dst, CTOR[wrap], [NZ._mv(r)], line=line) if wrap else NZ._use(dst, NZ._mv(r), line)); rw.goto(cont, after)
            if ci is not None:
                e = rw.splice(ci[0], [NZ._const('()', 'env')] + args, out, cont, span, captures=ci[1])
                rw.goto(b0, e)
            else:
                nm = fnitem.get('fn') or fnitem['fnp']; path = fnitem.get('fnp') or nm
                rw.blocks[b0]['term'] = NZ.mk_call(nm, path, None, None, path.split('::')[-1], args, out, cont, span)
        rw.changed = True; done += 1
    return rw.d if done else None


def desugared(F):
    """(facts, spliced closures) with the Option/Result combinators of the artifact module written as matches"""
    got = getattr(F, '_c20_desugared', None)
    if got is not None: return got
    from .. import normalize as NZ
    from ..facts import Facts
    N = NZ.Normalizer(F, None, loops=False)
    dicts = []; changed = 0
    for name, b in F.bodies.items():
        d2 = None
        if b.kind == 'fn' and SCOPE.search(name):
            try: d2 = _desugar_body(F, N, b.d)
            except Exception: d2 = None            # leave the body as it is: the rules then see the combinator call (fail towards an alarm)
        if d2 is not None: changed += 1
        dicts.append(d2 if d2 is not None else b.d)
    if not changed:
        F._c20_desugared = F; return F
    F2 = Facts(F.path, parts=(F.header, dicts, F.adts, F.impls, F.consts))
    F2.raw = getattr(F, 'raw', F); F2.norm_stats = getattr(F, 'norm_stats', None)
    gone = set(getattr(F, 'inlined_closures', ())) | set(N.inlined_closures)
    F2.inlined_closures = gone
    for k in list(F2._closures): F2._closures[k] = [b for b in F2._closures[k] if b.name not in gone]
    F._c20_desugared = F2
    return F2


# ------------------------------------------------------------------------------- outcomes
OKV = ('Ok', 'Some', 'Continue'); ERRV = ('Err', 'None', 'Break')
VIDX = {'None': 0, 'Some': 1, 'Ok': 0, 'Err': 1, 'Continue': 0, 'Break': 1}
ADT_VARIANT = re.compile(r'(?:option::Option|result::Result|ops::ControlFlow)::(Some|None|Ok|Err|Continue|Break)$')

# adaptors that keep the ok-ness of their receiver (Some/Ok -> Some/Ok, None/Err -> None/Err); the variant
# names of the result are taken from the type of the destination.  (receiver family, item)
KEEPS_OKNESS = {
    ('Option', 'as_ref'), ('Option', 'as_mut'), ('Option', 'as_deref'), ('Option', 'as_deref_mut'),     # borrow the payload
    ('Option', 'cloned'), ('Option', 'copied'),                                                         # copy the payload
    ('Option', 'map'), ('Option', 'inspect'),                                                           # transform the payload
    ('Option', 'ok_or'), ('Option', 'ok_or_else'),                                                      # None -> Err(e)
    ('Option', 'context'), ('Option', 'with_context'),                                                  # anyhow: None -> Err(msg)
    ('Result', 'as_ref'), ('Result', 'as_mut'), ('Result', 'cloned'), ('Result', 'copied'),
    ('Result', 'map'), ('Result', 'inspect'),                                                           # transform the Ok payload
    ('Result', 'map_err'), ('Result', 'inspect_err'),                                                   # transform the error
    ('Result', 'context'), ('Result', 'with_context'),                                                  # anyhow: wrap the error
    ('Result', 'ok'),                                                                                   # Err -> None
}


# ... of which those that hand the Ok/Some payload on unchanged (not `map`, `inspect` is a side effect only, `as_ref`/`cloned` borrow / copy it)
PAYLOAD_KEPT = {k for k in KEEPS_OKNESS if k[1] not in ('map',)}


def ty_family(ty):
    """(ok variant, err variant) of an Option / Result / ControlFlow type (references stripped)"""
    t = re.sub(r"^(&('\w+ )?(mut )?)+", '', (ty or '').strip())
    if t.startswith('std::option::Option'): return ('Some', 'None')
    if t.startswith('std::result::Result'): return ('Ok', 'Err')
    if t.startswith('std::ops::ControlFlow'): return ('Continue', 'Break')
    return None


def _recv_family(c):
    f = ty_family(c.self_ty or '')
    return {'Some': 'Option', 'Ok': 'Result'}.get(f[0]) if f else None


def _whole(o):
    """local of an operand that is the whole local or a deref of it"""
    if o['k'] in ('copy', 'move') and all(p == '*' for p in o['pl']['p']): return o['pl']['l']
    return None


class Flow:
    def __init__(self, body):
        self.b = body; self.bools = T._cp_tracked(body)
        self.callmap = {c.bb: c for c in body.calls}
        self._memo = {}

    def _stmts(self, e, sts):
        b = self.b
        for st in sts:
            if 'dst' not in st: continue
            d = st['dst']; l = d['l']; rv = st['rv']; k = rv['k']
            if k in ('ref', 'rawptr') and (rv.get('mut') or k == 'rawptr') and all(p == '*' for p in rv['pl']['p']):
                e.pop(rv['pl']['l'], None)          # the value may be changed through the borrow
            if d['p']:
                e.pop(l, None); continue
            v = None
            if k == 'use':
                o = rv['ops'][0]
                if o['k'] == 'const':
                    if o['v'] in ('true', 'false') and l in self.bools: v = (o['v'] == 'true')
                else:
                    s = _whole(o)
                    if s is not None: v = e.get(s)
            elif k == 'ref' and not rv.get('mut'):
                if all(p == '*' for p in rv['pl']['p']): v = e.get(rv['pl']['l'])
            elif k == 'agg':
                m = ADT_VARIANT.search(rv['adt'])
                if m: v = m.group(1)
            elif k == 'discr':
                if all(p == '*' for p in rv['pl']['p']):
                    s = e.get(rv['pl']['l'])
                    if isinstance(s, str): v = ('d', VIDX[s])
            elif k == 'un' and rv.get('op') == 'Not':
                s = _whole(rv['ops'][0])
                if s is not None and isinstance(e.get(s), bool): v = not e[s]
            if v is None: e.pop(l, None)
            else: e[l] = v

    def _call(self, e, c):
        b = self.b; dl = c.dst['l']
        if c.dst['p']:
            e.pop(dl, None); return
        v = None
        a0 = _whole(c.args[0]) if c.args else None
        s = e.get(a0) if a0 is not None else None
        if T.TRY_BRANCH.search(c.name):
            if isinstance(s, str): v = 'Continue' if s in OKV else 'Break'
        elif c.item == 'from_residual' and T.FROM_RESIDUAL.search(c.name):
            fam = ty_family(b.locals[dl]) or ('Ok', 'Err')
            v = fam[1]
        elif T.NOT_CALL.search(c.name):
            if isinstance(s, bool): v = not s
        elif isinstance(s, str) and (_recv_family(c), c.item) in KEEPS_OKNESS:
            fam = ty_family(b.locals[dl])
            if fam: v = fam[0] if s in OKV else fam[1]
        if v is None: e.pop(dl, None)
        else: e[dl] = v

    def outcomes(self, starts, stop=(), env=None, assume=None, cut=()):
        """kinds of exits ('ok' | 'err' | 'unknown') reachable from the blocks `starts` without entering `stop`.
        assume = {block of a call: variant its result is taken to have}; cut = edges (from block, to block) not taken"""
        key = (tuple(starts), frozenset(stop), frozenset((env or {}).items()), frozenset((assume or {}).items()), frozenset(cut))
        if key in self._memo: return self._memo[key]
        b = self.b; out = set(); seen = set()
        work = [(s, frozenset((env or {}).items())) for s in starts if s not in stop]
        while work:
            bi, fe = work.pop()
            if (bi, fe) in seen: continue
            seen.add((bi, fe))
            if len(seen) > 60000:
                out.add('unknown'); break
            e = dict(fe); blk = b.blocks[bi]
            self._stmts(e, blk['st'])
            t = blk['term']; k = t['k']; succs = b.succ(bi)
            if k == 'return':
                v = e.get(0)
                out.add('ok' if v in OKV else 'err' if v in ERRV else 'unknown')
                continue
            if k == 'call':
                self._call(e, self.callmap.get(bi) or facts_call(bi, t))
                if assume and bi in assume and not t['dst']['p']: e[t['dst']['l']] = assume[bi]
            elif k == 'switch' and t['d']['k'] != 'const' and not t['d']['pl']['p']:
                v = e.get(t['d']['pl']['l'])
                n = (1 if v else 0) if isinstance(v, bool) else v[1] if isinstance(v, tuple) else None
                if n is not None:
                    m = {val: tg for val, tg in t['ts']}
                    succs = [m.get(n, t['else'])]
            fe2 = frozenset(e.items())
            for s in succs:
                if s in stop or (bi, s) in cut or b.blocks[s]['cleanup']: continue
                work.append((s, fe2))
        self._memo[key] = out
        return out

    def reached(self, starts, stop=(), env=None):
        """blocks reached from `starts` without entering `stop`, following only the arm a known variant / bool selects
        (the Err of a `?` inside a spliced closure does not take the Continue arm of the re-branch after the join)"""
        b = self.b; seen = set(); out = set()
        work = [(s, frozenset((env or {}).items())) for s in starts if s not in stop]
        while work:
            bi, fe = work.pop()
            if (bi, fe) in seen: continue
            seen.add((bi, fe)); out.add(bi)
            if len(seen) > 60000: return set(b.live)
            e = dict(fe); blk = b.blocks[bi]
            self._stmts(e, blk['st'])
            t = blk['term']; k = t['k']; succs = b.succ(bi)
            if k == 'call': self._call(e, self.callmap.get(bi) or facts_call(bi, t))
            elif k == 'switch' and t['d']['k'] != 'const' and not t['d']['pl']['p']:
                v = e.get(t['d']['pl']['l'])
                n = (1 if v else 0) if isinstance(v, bool) else v[1] if isinstance(v, tuple) else None
                if n is not None: succs = [{val: tg for val, tg in t['ts']}.get(n, t['else'])]
            fe2 = frozenset(e.items())
            for x in succs:
                if x in stop or b.blocks[x]['cleanup']: continue
                work.append((x, fe2))
        return out

    def must_pass(self, start, targets, via):
        """every (feasible) path from `start` to a block of `targets` goes through a block of `via`"""
        return not (self.reached([start], stop=set(via)) & set(targets)) if start not in via else True

    def may_succeed(self, starts, stop=(), env=None):
        return bool(self.outcomes(starts, stop, env) & {'ok', 'unknown'})


def facts_call(bi, t):
    from ..facts import Call
    return Call(bi, t)


def flow(body):
    f = getattr(body, '_c20_flow', None)
    if f is None: f = body._c20_flow = Flow(body)
    return f


def propagates(ctx, rule, body, calls, what):
    """T-ERRFLOW (path-sensitive): if the call yields Err/None, the function only has Err exits.
    Covers `?`, adaptor chains ending in `?`, `match`/`let else` on the result, returning it directly,
    and a `?` inside an inlined helper whose result the caller branches on again."""
    fl = flow(body)
    for c in calls:
        ctx.counters['cfg_paths'] += 1
        fam = ty_family(body.locals[c.dst['l']]) if not c.dst['p'] else None
        if fam is None or c.target < 0:
            ctx.bad(rule, 'T-ERRFLOW', body.name, '%s: result is not an Option/Result value' % what, body.site(c.bb)); continue
        out = fl.outcomes([c.target], env={c.dst['l']: fam[1]})
        ctx.check(out == {'err'}, rule, 'T-ERRFLOW', body.name, '%s: when it yields %s the function can still exit with %s' % (what, fam[1], sorted(out - {'err'}) or 'no error'),
                  body.site(c.bb), outcomes=sorted(out))


def guard_holds(body, call, polarity):
    """T-GUARD (path-sensitive): every ok/unknown exit passes the test of `call`'s bool, and the side
    contradicting `polarity` has Err exits only.  ensure!(c) ≡ if !c { bail! } ≡ if !c { return Err(..) }"""
    fl = flow(body)
    for sb, neg in T.bool_flow(body, call.dst['l']):
        t, f = T.switch_sides(body, sb, neg)
        req, oth = (t, f) if polarity else (f, t)
        if req is None or oth is None: continue
        if fl.may_succeed([req]) and fl.outcomes([oth]) == {'err'} and not fl.may_succeed([0], stop={sb}):
            GUARD_EDGES[(body.name, sb)] = {(sb, oth)} | variant_reject_edges(body, call)
            return sb
    return None


GUARD_EDGES = {}        # (function, switch block of a guard that holds) -> its rejecting edges


def variant_reject_edges(body, eq_call):
    """`matches!(x, V(p) if p == K)` / `if let V(p) = x { if p == K .. }`: the comparison is made on the payload of a
    variant of x; the arms of the discriminant test on x that do not lead to the comparison reject as well (x is not
    even a V) and belong to the same guard.  Returns those edges (switch block, target)."""
    out = set()
    for a in eq_call.args:
        if a['k'] not in ('copy', 'move'): continue
        l, proj = origin(body, a['pl'])
        dcs = [i for i, p in enumerate(proj) if isinstance(p, dict) and 'dc' in p]
        if not dcs: continue
        key = lambda ps: [(p.get('dc') or p.get('f')) for p in ps if isinstance(p, dict)]
        prefix = key(proj[:dcs[-1]])            # the value whose variant is tested: everything before the last `as V`
        for bi, st in body.stmts():
            if st['rv']['k'] != 'discr' or st['dst']['p']: continue
            l2, p2 = origin(body, st['rv']['pl'])
            if l2 != l or key(p2) != prefix: continue
            for kind, sb, sw in body.uses.get(st['dst']['l'], ()):
                if kind != 'switch': continue
                for t in {x[1] for x in sw['ts']} | {sw['else']}:
                    if eq_call.bb not in body.reach([t]): out.add((sb, t))
    return out


def only_fails_by(ctx, rule, body, calls, guards, what, cut=()):
    """T-ERRFLOW, the converse of `propagates`: the function has no OTHER cause of failure than the given fallible calls
    and the rejecting side of the given guards.  Taking every such call to succeed and not taking the rejecting edges, no
    Err exit is reachable (checks added after decoding -- re-encoded length, "canonical" form, non-empty -- are reported)."""
    fl = flow(body)
    assume = {}
    for c in calls:
        fam = ty_family(body.locals[c.dst['l']]) if not c.dst['p'] else None
        if fam: assume[c.bb] = fam[0]
    cut = set(cut) | {e for sb in guards for e in GUARD_EDGES.get((body.name, sb), ())}
    out = fl.outcomes([0], assume=assume, cut=cut)
    ctx.counters['cfg_paths'] += 1
    ctx.check('err' not in out, rule, 'T-ERRFLOW', body.name, 'the function can fail although %s' % what, body.site(), outcomes=sorted(out))


def media_fns(body, operand):
    """media_types::v1_* functions whose result the operand is computed from (expression tree)"""
    out = []
    for x in T.expr_walk(T.expr(body, operand)):
        if x[0] == 'call':
            m = MT_FN.match(x[2])
            if m: out.append(m.group(1))
    return out


def media_texts(ctx):
    """{v1_K: text of the media type the function media_types::v1_K() returns} (evaluated, see media_type_text)"""
    got = getattr(ctx.F, '_c20_media_texts', None)
    if got is None:
        got = {}
        for b in ctx.F.bodies.values():
            m = MT_FN.match(b.name)
            if m and b.kind == 'fn':
                v = media_type_text(ctx, b)
                if v is None:
                    lits = sorted(set(string_literals(ctx, b)))
                    v = lits[0] if len(lits) == 1 else None
                got[m.group(1)] = v
        ctx.F._c20_media_texts = got
    return got


def media_kinds(ctx, body, operand):
    """the media types an operand denotes: the media_types::v1_K() it is computed from (media_fns), or -- the constant
    spelled out, `matches!(ty, MediaType::Other(name) if name == "application/org.ommx.v1.artifact")`,
    `ty.to_string() == ARTIFACT_TYPE` -- the v1_K whose text it evaluates to (text_of)"""
    out = media_fns(body, operand)
    if not out:
        t = text_of(ctx, T.expr(body, operand, depth=30))
        if t is not None: out = [k for k, v in media_texts(ctx).items() if v == t]
    return out


def same_ty(t, want):
    t = (t or '').strip()
    return t == want or t.endswith('::' + want)


def is_type_param(t):
    """a bare generic parameter (`M`, `T`): the call stands in an inlined generic helper"""
    return re.fullmatch(r'[A-Z]\w*', (t or '').strip()) is not None


def mentions(ty, name):
    return re.search(r'(?<![\w:])%s(?![\w])' % re.escape(name), ty or '') is not None


STORES_INTO = ('push', 'push_back', 'push_front', 'insert', 'extend', 'append')      # collection.m(value): the value is in the collection afterwards


def landing_types(body, local, param, depth=24):
    """types of the first locals NOT mentioning the type parameter `param` that the value of `local`
    is moved into (plain moves, tuples/Ok(..) built from it, `?`, pushed into a collection that is then moved
    on): where a generic helper's result lands in its (inlined) caller the parameter is instantiated
    (by the caller's turbofish or by inference from its return type -- the type of that local shows either)."""
    out = []; seen = {local}; work = [(local, 0)]
    while work:
        l, d = work.pop()
        if d > depth: continue
        for kind, bi, x in body.uses.get(l, ()):
            nl = None
            if kind == 'stmt' and x['rv']['k'] in ('use', 'agg') and not x['dst']['p']:
                # the error payload (`as Break.0`, `as Err.0`) does not carry the message
                if any(isinstance(p, dict) and p.get('dc') in ERRV for o in x['rv']['ops'] if o['k'] in ('copy', 'move') and o['pl']['l'] == l for p in o['pl']['p']): continue
                nl = x['dst']['l']
            elif kind == 'call' and T.TRY_BRANCH.search(x.name) and not x.dst['p']: nl = x.dst['l']
            elif kind == 'call' and x.item in STORES_INTO and len(x.args) >= 2 and x.args[0]['k'] in ('copy', 'move') and x.arg_local(0) != l:
                # out.push((desc, message)): the value goes into the collection behind the `&mut` receiver
                nl = origin(body, x.args[0]['pl'])[0]
            if nl is None or nl in seen: continue
            seen.add(nl)
            if mentions(body.locals[nl], param) or '?' in body.locals[nl]: work.append((nl, d + 1))       # '?': a temporary of the normal form, type not recorded
            else: out.append(body.locals[nl])
    return out


def message_type_is(body, call, msg, value_local=None):
    """the prost call works on message type `msg`: its Self type is `msg`, or it is a type parameter of
    an inlined generic helper that is instantiated with `msg` (decided where the value comes from /
    lands: the declared type of the encoded parameter, the type the decoded value is moved into)"""
    st = call.self_ty or ''
    if same_ty(st, msg): return True
    if not is_type_param(st): return False
    if value_local is not None:
        lt = landing_types(body, value_local, st)
        return bool(lt) and all(mentions(t, msg) for t in lt)
    root = root_param(body, call.args[0])
    return root is not None and same_ty(body.locals[root], msg)


# another view / an unchanged copy of the receiver: v.as_slice() ≡ &v[..] ≡ &*v ≡ v.as_ref() ≡ v.borrow(); s.as_str() ≡ &s[..]; x.clone() ≡ x.to_owned() ≡ v.to_vec()
VIEW_OF = re.compile(r'::(as_ref|as_mut|deref|deref_mut|borrow|borrow_mut|as_slice|as_mut_slice|as_str|as_mut_str|as_bytes|clone|to_owned|to_vec|into_vec|into_boxed_slice|into|from|into_inner)$|'
                     r'as std::ops::Index(Mut)?<std::ops::RangeFull>>::index(_mut)?$')          # only the full range: &v[1..] is another value


def mutations_of(body, locals_):
    """places where one of the given locals (or a part of it, or what it points to) is written or mutably borrowed:
    `x.f = ..`, `&mut x`, `&mut x.f` (x.f.sort(), mem::take(&mut x.f), x.f.push(..)), raw pointers"""
    out = []; ls = set(locals_)
    for bi, st in body.stmts():
        d = st['dst']; rv = st['rv']
        if d['l'] in ls and d['p']: out.append((bi, 'write to a part of _%d' % d['l']))
        if rv['k'] in ('ref', 'rawptr') and (rv.get('mut') or rv['k'] == 'rawptr') and rv['pl']['l'] in ls: out.append((bi, 'mutable borrow of _%d' % rv['pl']['l']))
    return out


def root_param(body, operand):
    """number of the parameter the operand is (a view / copy of), as a whole; None otherwise"""
    if operand['k'] not in ('copy', 'move'): return None
    l, proj = origin(body, operand['pl'])
    return l if (1 <= l <= body.argc and not proj) else None


def origin(body, pl, depth=40, trail=None):
    """where the value of a place comes from: (local, projections) after following, backwards, plain
    moves/copies/borrows, transparent calls (`as_slice`, `deref`, `as_ref`, `?`), and the construction
    of tuples / Ok / Some / Continue values the projection selects a component of.  A local built on
    several paths is resolved by the variant the projection names: `(x as Continue).0` only looks at the
    definitions `x = Continue(..)` (the `?` of a spliced closure, a helper's `Ok((a, b))`)."""
    l = pl['l']; proj = [p for p in pl['p'] if p != '*']
    for _ in range(depth):
        if trail is not None: trail.append(l)
        if 1 <= l <= body.argc: break
        defs = [d for d in body.defs_of(l) if not (d[0] == 'stmt' and d[2]['dst']['p'])]
        want = proj[0]['dc'] if proj and isinstance(proj[0], dict) and 'dc' in proj[0] else None
        if want is not None:
            keep = []
            for d in defs:
                if d[0] == 'stmt' and d[2]['rv']['k'] == 'agg':
                    m = ADT_VARIANT.search(d[2]['rv']['adt'])
                    if m and m.group(1) != want: continue            # builds another variant
                if d[0] == 'call' and (d[2].get('ri') or {}).get('item') == 'from_residual' and want in OKV: continue     # builds the error
                keep.append(d)
            defs = keep
        if len(defs) > 1 and all(d[0] == 'stmt' and d[2]['rv']['k'] == 'use' and d[2]['rv'] == defs[0][2]['rv'] for d in defs): defs = defs[:1]
        if len(defs) != 1: break
        kind, bi, d = defs[0]
        if kind == 'call':
            nm = d['r'] or d['f']
            a0 = d['args'][0] if d['args'] else None
            if a0 is None or a0['k'] not in ('copy', 'move'): break
            if T.TRY_BRANCH.search(nm) and want == 'Continue':
                # (branch(x) as Continue).0  is  (x as Ok).0 / (x as Some).0
                fam = ty_family(body.locals[a0['pl']['l']]) if not a0['pl']['p'] else None
                if fam is None: break
                src = [p for p in a0['pl']['p'] if p != '*']
                l = a0['pl']['l']; proj = src + [{'dc': fam[0]}] + proj[1:]; continue
            if (T.TRANSPARENT_NOCLONE.search(T.strip_generics_tail(nm)) or VIEW_OF.search(T.strip_generics_tail(nm)) or VIEW_OF.search(nm)) and want is None:
                l = a0['pl']['l']; proj = [p for p in a0['pl']['p'] if p != '*'] + proj; continue
            ri = d.get('ri') or {}
            rfam = ty_family(ri.get('self') or '')
            if want in OKV and rfam and not a0['pl']['p'] and ({'Some': 'Option', 'Ok': 'Result'}[rfam[0]] if rfam[0] in ('Some', 'Ok') else None, ri.get('item')) in PAYLOAD_KEPT:
                # (opt.context(..) as Ok).0  is  (opt as Some).0 ; (res.map_err(f) as Ok).0  is  (res as Ok).0
                fam = ty_family(body.locals[a0['pl']['l']])
                if fam is None: break
                l = a0['pl']['l']; proj = [{'dc': fam[0]}] + proj[1:]; continue
            break
        rv = d['rv']; k = rv['k']
        if k == 'use' and rv['ops'][0]['k'] in ('copy', 'move'):
            sp = rv['ops'][0]['pl']; l = sp['l']; proj = [p for p in sp['p'] if p != '*'] + proj; continue
        if k == 'ref':
            sp = rv['pl']; l = sp['l']; proj = [p for p in sp['p'] if p != '*'] + proj; continue
        if k == 'agg':
            rest = proj[1:] if want is not None else proj
            if not rest or not (isinstance(rest[0], dict) and 'f' in rest[0]): break
            f = rest[0]['f']; names = rv.get('fields') or []
            i = names.index(f) if f in names else (int(f) if f.isdigit() else None)
            if i is None or i >= len(rv['ops']) or rv['ops'][i]['k'] not in ('copy', 'move'): break
            sp = rv['ops'][i]['pl']; l = sp['l']; proj = [p for p in sp['p'] if p != '*'] + rest[1:]; continue
        break
    return l, proj


def ok_payloads(body):
    """operands wrapped by `Ok(..)` and assigned to the return place"""
    return [st['rv']['ops'][0] for bi, k, st in body.ret_assignments() if k == 'ok' and st.get('rv', {}).get('ops')]


PUSHES = ('push', 'push_back')      # Vec::push, VecDeque::push_back; collect() is `Vec::new` + `push` in normal form
ITER_OF = re.compile(r'::(into_iter|iter|iter_mut)(::<.*>)?$')     # the iterator of a collection yields its elements


def iter_root(body, lo):
    """local holding the collection / call result the loop `lo` iterates over"""
    a = lo[0].args[0]
    if a['k'] not in ('copy', 'move'): return None
    l, proj = origin(body, a['pl'])
    for _ in range(4):
        defs = [d for d in body.defs_of(l) if not (d[0] == 'stmt' and d[2]['dst']['p'])]
        if len(defs) == 1 and defs[0][0] == 'call' and ITER_OF.search(T.strip_generics_tail(defs[0][2]['r'] or defs[0][2]['f'])) and defs[0][2]['args'] and defs[0][2]['args'][0]['k'] in ('copy', 'move'):
            l, proj = origin(body, defs[0][2]['args'][0]['pl']); continue
        break
    return l, proj


def innermost_loop(body, bb):
    best = None
    for lo in T.for_loops(body):
        if bb in lo[4] and (best is None or len(lo[4]) < len(best[4])): best = lo
    return best


def stages(ctx, body, d, depth=4):
    """[(loop, sink call)] from the loop over OciArtifact::get_layers() to the loop in which `d` is executed.  One
    entry when d stands in the loop over the layers; after a loop fission (`filter(..).collect()` then a second loop,
    two `for`s with a staging Vec) the earlier stages end in the push that fills the Vec the next one iterates."""
    lo = innermost_loop(body, d.bb)
    if lo is None: return None
    chain = [(lo, d)]
    for _ in range(depth):
        r = iter_root(body, chain[0][0])
        if r is None: return None
        l, proj = r
        defs = [x for x in body.defs_of(l) if not (x[0] == 'stmt' and x[2]['dst']['p'])]
        if len(defs) == 1 and defs[0][0] == 'call':
            nm = defs[0][2]['r'] or defs[0][2]['f']; item = (defs[0][2].get('ri') or {}).get('item')
            if item == 'get_layers' and 'OciArtifact' in nm and [p.get('dc') for p in proj if isinstance(p, dict) and 'dc' in p] in (['Ok'], []):
                return chain
            if item in ('new', 'with_capacity') and re.search(r'\b(Vec|VecDeque)::<', nm) and not proj:
                fills = [c for c in body.calls if c.item in PUSHES and c.args and c.args[0]['k'] in ('copy', 'move') and origin(body, c.args[0]['pl']) == (l, [])]
                los = [innermost_loop(body, c.bb) for c in fills]
                # every fill is a push in one and the same loop (several pushes on different branches are one stage each: not supported, fail closed)
                if len(fills) == 1 and los[0] is not None and los[0] is not chain[0][0] and all(los[0] is not x[0] for x in chain):
                    chain.insert(0, (los[0], fills[0])); continue
        return None
    return None


def carries_item(body, operand, item):
    """the operand is the loop item itself (`(next() as Some).0`) or the tuple of its components in the same order"""
    if operand['k'] not in ('copy', 'move'): return False
    l, proj = origin(body, operand['pl'])
    def is_item(l, proj, extra):
        keys = [(p.get('dc') or p.get('f')) for p in proj if isinstance(p, dict)]
        return l == item and keys == ['Some', '0'] + extra
    if is_item(l, proj, []): return True
    defs = [x for x in body.defs_of(l) if not (x[0] == 'stmt' and x[2]['dst']['p'])]
    if proj or len(defs) != 1 or defs[0][0] != 'stmt' or defs[0][2]['rv']['k'] != 'agg' or defs[0][2]['rv']['adt'] != 'tuple': return False
    ops = defs[0][2]['rv']['ops']
    return bool(ops) and all(o['k'] in ('copy', 'move') and is_item(*origin(body, o['pl']), [str(i)]) for i, o in enumerate(ops))


# the digest of a descriptor: desc.digest() | Digest::from_descriptor(&desc) | Digest::new(desc.digest())
DIGEST_OF = r'Descriptor::digest$|Digest::(from_descriptor|new)$'


def returned_payloads(body, local=0, depth=6):
    """operands holding the Ok/Some payload of the value returned through `local`: `Ok(x)`; `opt.with_context(..)` /
    `ok_or(..)` / `res.map_err(..)` returned directly (table KEEPS_OKNESS: the payload of the receiver); copies.
    None if some definition is not understood."""
    out = []
    for kind, bi, d in body.defs_of(local):
        if kind == 'stmt':
            if d['dst']['p']: return None
            rv = d['rv']
            if rv['k'] == 'agg':
                m = ADT_VARIANT.search(rv['adt'])
                if m is None: return None
                if m.group(1) in OKV and rv['ops']: out.append(rv['ops'][0])
            elif rv['k'] == 'use' and rv['ops'][0]['k'] in ('copy', 'move') and not rv['ops'][0]['pl']['p'] and depth > 0:
                sub = returned_payloads(body, rv['ops'][0]['pl']['l'], depth - 1)
                if sub is None: return None
                out += sub
            else: return None
        else:
            c = [x for x in body.calls if x.bb == bi][0]
            if c.item == 'from_residual': continue
            a0 = c.args[0] if c.args else None
            fam = ty_family(body.locals[a0['pl']['l']]) if (a0 and a0['k'] in ('copy', 'move') and not a0['pl']['p']) else None
            if fam and (_recv_family(c), c.item) in KEEPS_OKNESS and c.item not in ('map', 'inspect'):
                out.append({'k': 'move', 'pl': {'l': a0['pl']['l'], 'p': [{'dc': fam[0]}, {'f': '0', 'of': CTOR.get(fam[0], fam[0])}]}})
            else: return None
    return out


TAKE_AT = ('swap_remove', 'remove')        # Vec::swap_remove(i) / Vec::remove(i): the element at index i, by value


def taken_by_position(body, operand, lo):
    """operand = coll.swap_remove(i) / coll.remove(i) where coll is what the loop `lo` iterates over and i is the
    counter of that loop (0 before it, +1 per iteration: `position` in normal form) as delivered by `Some(counter)`"""
    if operand['k'] not in ('copy', 'move') or operand['pl']['p']: return False
    defs = body.defs_of(operand['pl']['l'])
    if len(defs) != 1 or defs[0][0] != 'call': return False
    c = [x for x in body.calls if x.bb == defs[0][1]][0]
    if c.item not in TAKE_AT or len(c.args) != 2 or any(a['k'] not in ('copy', 'move') for a in c.args): return False
    root = iter_root(body, lo)
    if root is None or origin(body, c.args[0]['pl'])[0] != root[0]: return False
    cnt, proj = origin(body, c.args[1]['pl'])
    cdefs = body.defs_of(cnt)
    def is_step(d):
        rv = d[2]['rv'] if d[0] == 'stmt' else None
        if rv is None or d[2]['dst']['p']: return False
        if rv['k'] == 'use' and rv['ops'][0]['k'] == 'const': return T.f64_const(rv['ops'][0]['v']) == 0.0 and d[1] not in lo[4]
        return rv['k'] == 'bin' and rv['op'].startswith('Add') and d[1] in lo[4] and rv['ops'][0]['k'] in ('copy', 'move') and rv['ops'][0]['pl']['l'] == cnt and rv['ops'][1]['k'] == 'const' and T.f64_const(rv['ops'][1]['v']) == 1.0
    return not proj and len(cdefs) == 2 and all(is_step(d) for d in cdefs)


def digest_lookup(ctx, body, lo):
    """the loop `lo` (over all layers) looks a layer up by the digest parameter: an eq/ne test in it between the digest of
    the loop's item (table DIGEST_OF) and parameter 2, whose hit side can succeed within the iteration and whose miss side
    cannot (it goes on with the next layer).  Returns the test call or None."""
    fl = flow(body); headers = set(body.loops()); nxt = lo[0]
    for c in eq_tests(body):
        if c.bb not in lo[4]: continue
        sides = [(T.expr(body, a), a) for a in c.args]
        item_digest = any(T.expr_has_call(e, name_re=DIGEST_OF) and nxt in ctx.S.slice_operand(body, a).call_objs for e, a in sides)
        given = any(any(x[0] == 'place' and x[1] == 2 for x in T.expr_walk(e)) for e, a in sides)
        if not (item_digest and given): continue
        for sb, neg in T.bool_flow(body, c.dst['l']):
            t, f = T.switch_sides(body, sb, neg)
            yes, no = (t, f) if c.item == 'eq' else (f, t)
            if fl.may_succeed([yes], stop=headers) and not fl.may_succeed([no], stop=headers): return c
    return None


class DecodeSite:
    """where a message is decoded from bytes: `call` = the fallible prost call, args[0] = the bytes, value = the local
    (or call result) holding the message"""
    def __init__(self, call, blob, value):
        self.call = call; self.bb = call.bb; self.args = [blob]; self.value = value


def loop_header(body, bb):
    best = None
    for h, blocks in body.loops().items():
        if bb in blocks and (best is None or len(blocks) < len(best[1])): best = (h, blocks)
    return best[0] if best else None


def decode_sites(body):
    """T::decode(bytes)   ≡   let mut m = T::default(); m.merge(bytes)?;   (the latter is the body of prost's Message::decode).
    The merge form counts only for a FRESH value merged ONCE: the receiver's single definition is `default()`, made in the
    same loop iteration as the merge (not a message reused across the layers of a loop), and this merge is the only place
    that borrows it mutably or writes to it."""
    out = []
    for c in body.calls:
        if not (c.trait or '').endswith('prost::Message'): continue
        if c.item in DECODERS and c.args:
            out.append(DecodeSite(c, c.args[0], c.dst['l']))
        elif c.item == 'merge' and len(c.args) == 2 and c.args[0]['k'] in ('copy', 'move'):
            m, proj = origin(body, c.args[0]['pl'])
            defs = [d for d in body.defs_of(m) if not (d[0] == 'stmt' and d[2]['dst']['p'])]
            if proj or len(defs) != 1 or defs[0][0] != 'call': continue
            made = [x for x in body.calls if x.bb == defs[0][1]][0]
            if made.item != 'default' or made.args: continue
            if len(mutations_of(body, {m})) != 1 or len(body.defs_of(m)) != 1: continue
            if loop_header(body, made.bb) != loop_header(body, c.bb): continue
            out.append(DecodeSite(c, c.args[1], m))
    return out


def handed_on_unchanged(body, place, sites):
    """the value at `place` (the message component of what is returned / pushed) is the value of one of the decode sites
    itself: walking back through moves, `?`, Ok(..)/tuples and views reaches that site, and no local on the way is written in
    part or mutably borrowed (a compatibility shim moving fields around, mem::take / mem::replace on a field, clearing a
    deprecated field, sorting) -- the one merge of a `default() + merge` site excepted.  Returns a list of complaints."""
    trail = []
    root, proj = origin(body, place, trail=trail)
    held = set(trail)
    for l in list(held): held |= T.copies_of(body, l)
    muts = mutations_of(body, {l for l in held if not body.locals[l].startswith('&mut')})
    site = [d for d in sites if root in (d.value, d.call.dst['l'])]
    allowed = 1 if any(d.call.item == 'merge' and d.value == root for d in site) else 0
    why = sorted({w for _, w in muts}) if len(muts) > allowed else []
    defs = [x for x in body.defs_of(root) if not (x[0] == 'stmt' and x[2]['dst']['p'])]
    if not site and len(defs) == 1: why.append('it is rebuilt or the result of another step, not the value of the decoder')        # several definitions: lost at a join, left to the slice rules
    return why


def over_all_layers(ctx, body, lo):
    """the loop iterates over the result of `OciArtifact::get_layers` (all (descriptor, blob) pairs in manifest order)"""
    return any(x.item == 'get_layers' and 'OciArtifact' in x.name for x in ctx.S.slice_operand(body, lo[0].args[0]).call_objs)


def eq_tests(body, needle=''):
    return [c for c in body.calls if c.item in ('eq', 'ne') and 'PartialEq' in (c.trait or '') and needle in c.name]


# ------------------------------------------------------------------------------- per kind
def kinds_rules(ctx):
    R = 'C20.kinds'
    for kind, (addf, getf, mt, msg, ann) in KINDS.items():
        b = ctx.method(R + '/%s/add/anchor' % kind, BUILDER, addf)
        if b is not None:
            fl = flow(b)
            enc = [c for c in b.calls if c.item in ENCODERS and (c.trait or '').endswith('prost::Message')]
            # the encoded value is the message parameter itself and is encoded as its own type
            good = [c for c in enc if root_param(b, c.args[0]) == 2 and same_ty(b.locals[2], msg) and message_type_is(b, c, msg)]
            ctx.check(bool(good), R + '/%s/add/encodes-message' % kind, 'T-SIBLING', b.name, 'the stored blob is not the encoding of the given %s' % msg, b.site())
            # ... of the message AS GIVEN: between the parameter and the encoder nothing writes to it, borrows it (or a field)
            # mutably, or rebuilds it (sorting its lists "canonically", clearing a field, mem::take).  Every local the value
            # passes through on the way to the encoder is looked at, and the locals holding plain copies / borrows of them.
            touched = []
            for c in good:
                trail = []
                origin(b, c.args[0]['pl'], trail=trail)
                held = set(trail)
                for l in list(held): held |= T.copies_of(b, l)
                touched += mutations_of(b, {l for l in held if not b.locals[l].startswith('&mut')} | {2})
            ctx.check(bool(good) and not touched, R + '/%s/add/message-unchanged' % kind, 'T-CARRY', b.name, ('the %s is modified before it is encoded: %s' % (msg, sorted({w for _, w in touched}))) if good else 'no encoder is applied to the given %s itself' % msg, b.site(touched[0][0]) if touched else b.site())
            al = [c for c in b.calls if c.item == 'add_layer' and 'OciArtifactBuilder' in c.name]
            okl = bool(al)
            for c in al:
                blob = ctx.S.slice_operand(b, c.args[2]); an = ctx.S.slice_operand(b, c.args[3])
                args_ok = media_kinds(ctx, b, c.args[1]) == [mt] and any(e in blob.call_objs for e in good) and not any(e in blob.call_objs for e in enc if e not in good) and 3 in an.params
                # exactly one layer per successful call: no other add_layer after this one
                once = not (b.reach([c.target]) & {x.bb for x in al}) if c.target >= 0 else False
                okl = okl and args_ok and once
            # ... and at least one on every path that does not fail
            okl = okl and not fl.may_succeed([0], stop={c.bb for c in al})
            ctx.check(okl, R + '/%s/add/layer' % kind, 'T-SIBLING', b.name, 'add_layer is not called exactly once with (media_types::%s(), encoded blob, given annotations) on every success path' % mt, b.site())
            propagates(ctx, R + '/%s/add/error' % kind, b, al, 'add_layer')
            # the annotations stored with the layer are the caller's, as given: the map handed to add_layer is parameter 3 through
            # moves / into() / into_inner() / clone only, and nothing on that way inserts, removes or "corrects" an entry
            # (set_*(..) on it, entry(), retain, a &mut borrow of it or of the map inside)
            ann_ok = bool(al); ann_why = []
            for c in al:
                trail = []
                root = origin(b, c.args[3]['pl'], trail=trail)[0] if c.args[3]['k'] in ('copy', 'move') else None
                held = set(trail)
                for l in list(held): held |= T.copies_of(b, l)
                ann_why += [w for _, w in mutations_of(b, {l for l in held if not b.locals[l].startswith('&mut')} | {3})]
                if root != 3: ann_why.append('the map does not come from the parameter by moves and conversions only')
            ctx.check(ann_ok and not ann_why, R + '/%s/add/annotations-unchanged' % kind, 'T-CARRY', b.name, 'the annotations are not stored as given: %s' % sorted(set(ann_why)), b.site())
        g = ctx.method(R + '/%s/get/anchor' % kind, ART, getf)
        if g is not None:
            gl = [c for c in g.calls if c.item == 'get_layer' and c.path.endswith('Artifact::<Base>::get_layer')]
            dec = decode_sites(g)
            fd = [c for c in g.calls if c.item == 'from_descriptor' and ann in c.path]
            # ... or get_layer written out in place (the helper inlined by hand): a loop over get_layers() with the digest test;
            # its item (the `next` call) then stands for the lookup's result
            fl = flow(g)
            inplace = [lo for lo in T.for_loops(g) if over_all_layers(ctx, g, lo)]
            listing = [c for c in g.calls if c.item == 'get_layers' and 'OciArtifact' in c.name] if inplace else []
            # the layer lookups whose result is decoded / whose descriptor gives the annotations
            used = [l for l in gl + [lo[0] for lo in inplace] if any(l in ctx.S.slice_operand(g, c.args[0]).call_objs for c in dec + fd)]
            used_loops = [lo for lo in inplace if lo[0] in used]
            by_digest = bool(used) and all(root_param(g, l.args[1]) == 2 for l in used if l in gl) and all(digest_lookup(ctx, g, lo) is not None for lo in used_loops)
            ctx.check(by_digest, R + '/%s/get/by-digest' % kind, 'T-CARRY', g.name, 'layer is not looked up by the given digest', g.site())
            propagates(ctx, R + '/%s/get/unknown-digest-error' % kind, g, gl + listing, 'get_layer')
            for lo in used_loops:
                # in place: when the layers are exhausted without a hit the function fails (get_layer's trailing bail!)
                ctx.check(fl.outcomes([lo[3]]) == {'err'}, R + '/%s/get/unknown-digest-error' % kind, 'T-ERRFLOW', g.name, 'an unknown digest does not end in an error', g.site(lo[0].bb))
            # media type guard: <descriptor of the looked-up layer>.media_type() == media_types::v1_K()
            okg = False; guard_sbs = []
            for c in eq_tests(g):
                sides = [(T.expr(g, a), a) for a in c.args]
                mts = [m for e, a in sides for m in media_kinds(ctx, g, a)]
                desc = any(T.expr_has_call(e, 'media_type') and any(l in ctx.S.slice_operand(g, a).call_objs for l in used) for e, a in sides)
                if mts == [mt] and desc:
                    sb = guard_holds(g, c, c.item == 'eq')
                    if sb is not None: okg = True; guard_sbs.append(sb)
            ctx.check(okg, R + '/%s/get/media-type-guard' % kind, 'T-GUARD', g.name, 'a layer of another media type is not rejected (expected desc.media_type() == media_types::%s())' % mt, g.site())
            # the returned message is the layer's blob decoded as T_K
            pay = ok_payloads(g)
            okd = False
            for d in dec:
                from_layer = any(l in ctx.S.slice_operand(g, d.args[0]).call_objs for l in used)
                # ... the whole blob: followed back through views and moves the decoder's input is the lookup's result itself,
                # not the result of another call on it (`&blob[1..]`, `blob.trim_ascii()`); a path lost at a join is left to the slice
                src = origin(g, d.args[0]['pl'])[0] if d.args[0]['k'] in ('copy', 'move') else None
                sdefs = [x for x in g.defs_of(src) if not (x[0] == 'stmt' and x[2]['dst']['p'])] if src is not None else []
                if len(sdefs) == 1 and sdefs[0][0] == 'call' and not any(l.bb == sdefs[0][1] for l in used): from_layer = False
                returned = bool(pay) and all(d.call in ctx.S.slice_operand(g, p).call_objs for p in pay)
                if from_layer and returned and message_type_is(g, d.call, msg, value_local=d.value) and g.locals[0].startswith('std::result::Result<(%s, ' % msg): okd = True
            ctx.check(okd, R + '/%s/get/decodes-message' % kind, 'T-SIBLING', g.name, 'the blob of the layer is not decoded as %s' % msg, g.site())
            propagates(ctx, R + '/%s/get/decode-error' % kind, g, [d.call for d in dec], 'decode')
            # reading succeeds whenever the layer exists, has the kind's media type and decodes: no further cause of failure
            not_found = {(x, lo[3]) for lo in used_loops for x in g.preds.get(lo[3], ())}          # in place: "no layer of this digest" is the lookup's failure
            only_fails_by(ctx, R + '/%s/get/only-expected-errors' % kind, g, gl + listing + [d.call for d in dec], guard_sbs, 'the layer is found, has media type %s and decodes as %s' % (mt, msg), cut=not_found)
            okf = any(any(l in ctx.S.slice_operand(g, c.args[0]).call_objs for l in used) and bool(pay) and all(c in ctx.S.slice_operand(g, p).call_objs for p in pay) for c in fd)
            ctx.check(okf, R + '/%s/get/annotations' % kind, 'T-SIBLING', g.name, 'annotations are not read from the layer\'s descriptor as %s' % ann, g.site())
            # read back EQUAL to what was stored: the message returned is the decoder's value as it is (the get-side twin of add/message-unchanged)
            why = []
            for pp in pay:
                if pp['k'] in ('copy', 'move'): why += handed_on_unchanged(g, {'l': pp['pl']['l'], 'p': list(pp['pl']['p']) + [{'f': '0', 'of': 'tuple'}]}, dec)
            ctx.check(bool(pay) and bool(dec) and not why, R + '/%s/get/message-unchanged' % kind, 'T-CARRY', g.name, 'the decoded %s is modified before it is returned: %s' % (msg, sorted(set(why))), g.site())
    # list readers: every layer of the kind's media type, decoded, with its own descriptor, in order
    for fn, mt, msg in (('get_instances', 'v1_instance', 'v1::Instance'), ('get_solutions', 'v1_solution', 'v1::State')):
        g = ctx.method(R + '/%s/anchor' % fn, ART, fn)
        if g is None: continue
        headers = set(g.loops())
        dec = [d for d in decode_sites(g) if message_type_is(g, d.call, msg, value_local=d.value)]
        # the loop over all layers of the archive in which the message is decoded -- or, after a loop fission, the
        # chain of loops leading there: [(loop over get_layers(), push into a staging Vec), .., (loop over that Vec, decode)]
        chain = None
        for d in dec:
            chain = chain or stages(ctx, g, d)
        okg = False
        if chain:
            for lo, sink in chain:
                nxt, header, some_bb = lo[0], lo[1], lo[2]
                for c in eq_tests(g):
                    if c.bb not in lo[4]: continue
                    sides = [(T.expr(g, a), a) for a in c.args]
                    mts = [m for e, a in sides for m in media_kinds(ctx, g, a)]
                    desc = any(T.expr_has_call(e, 'media_type') and nxt in ctx.S.slice_operand(g, a).call_objs for e, a in sides)
                    if mts != [mt] or not desc: continue
                    for gd in T.guards_from_call(g, c):
                        # layers of other types are skipped, matching ones go on (to the decoder / the next stage); no way around the test
                        yes, no = (gd.true_bb, gd.false_bb) if c.item == 'eq' else (gd.false_bb, gd.true_bb)
                        yr = g.reach([yes], stop=headers); nr = g.reach([no], stop=headers)
                        around = g.reach([some_bb], stop=headers | {gd.switch_bb})
                        if sink.bb in yr and sink.bb not in nr and sink.bb not in around: okg = (lo, yes)
        ctx.check(bool(okg), R + '/%s/filter' % fn, 'T-SIBLING', g.name, 'does not decode exactly the layers of media type %s as %s' % (mt, msg), g.site())
        propagates(ctx, R + '/%s/decode-error' % fn, g, [d.call for d in dec], 'decode')
        listing = [c for c in g.calls if c.item == 'get_layers' and 'OciArtifact' in c.name]
        only_fails_by(ctx, R + '/%s/only-expected-errors' % fn, g, listing + [d.call for d in dec], [], 'the layers can be listed and every layer of media type %s decodes as %s' % (mt, msg))
        if not chain:
            # fail closed: the per-layer conditions cannot be placed
            ctx.bad(R + '/%s/every-match-kept' % fn, 'T-LOOPMUST', g.name, 'no loop over OciArtifact::get_layers() in which a layer is decoded as %s' % msg, g.site())
            ctx.bad(R + '/%s/same-layer' % fn, 'T-CARRY', g.name, 'no loop over OciArtifact::get_layers() in which a layer is decoded as %s' % msg, g.site())
            ctx.bad(R + '/%s/message-unchanged' % fn, 'T-CARRY', g.name, 'no loop over OciArtifact::get_layers() in which a layer is decoded as %s' % msg, g.site())
        else:
            lo, d = chain[-1]; item = lo[0].dst['l']
            pushes = [c for c in g.calls if c.item in PUSHES and c.bb in lo[4] and d.call in ctx.S.slice_operand(g, c.args[1]).call_objs]
            # from the test's yes side (the start of the iteration in a stage without the test) every path back to the
            # loop header goes through the stage's sink, and from the decoder through the final push
            flg = flow(g)
            kept = bool(pushes) and flg.must_pass(d.call.target if d.call.target >= 0 else d.bb, {lo[1]}, {c.bb for c in pushes})
            for lo_i, sink in chain:
                start = okg[1] if (okg and okg[0] is lo_i) else lo_i[2]
                kept = kept and flg.must_pass(start, {lo_i[1]}, {sink.bb})
            # ... and every stage looks at ALL its items: the loop is left only when it is exhausted or with an error
            # (`break` at the first layer of another type, an early `return Ok(out)`, take(n) lose the layers behind)
            early = []
            fl = flow(g)
            for lo_i, sink in chain:
                for x in lo_i[4]:
                    for y in g.succ(x):
                        if y in lo_i[4] or g.blocks[y]['cleanup'] or y == lo_i[3]: continue
                        if fl.outcomes([y]) - {'err'}: early.append((x, y))
                si = ctx.S.slice_operand(g, lo_i[0].args[0])
                early += [(c.bb, c.item) for c in si.call_objs if c.item in RESTRICTING and 'Iterator' in (c.trait or '')]
            ctx.check(kept and not early, R + '/%s/every-match-kept' % fn, 'T-LOOPMUST', g.name, 'a matching / decoded layer can be dropped' if not kept else 'the iteration over the layers can end before the last layer (%s)' % early[:3], g.site())
            # descriptor and blob of one entry are the two halves of the same layer (not looked up again by digest:
            # two layers may have the same digest and different annotations)
            ok_same = bool(pushes) and d.args[0]['k'] in ('copy', 'move') and origin(g, d.args[0]['pl'])[0] == item
            for c in pushes:
                a = c.args[1]
                first = {'l': a['pl']['l'], 'p': list(a['pl']['p']) + [{'f': '0', 'of': 'tuple'}]} if a['k'] in ('copy', 'move') else None      # the Descriptor of the pushed (Descriptor, message)
                ok_same = ok_same and first is not None and origin(g, first)[0] == item
            # a staging Vec carries the layers themselves: the pushed value is the loop item, or (item.0, item.1) rebuilt
            for lo_i, sink in chain[:-1]:
                ok_same = ok_same and carries_item(g, sink.args[1], lo_i[0].dst['l'])
            ctx.check(ok_same, R + '/%s/same-layer' % fn, 'T-CARRY', g.name, 'the descriptor and the decoded blob of an entry are not taken from the same layer of the iteration', g.site())
            why = []
            for c in pushes:
                a = c.args[1]
                if a['k'] in ('copy', 'move'): why += handed_on_unchanged(g, {'l': a['pl']['l'], 'p': list(a['pl']['p']) + [{'f': '1', 'of': 'tuple'}]}, dec)
            ctx.check(bool(pushes) and not why, R + '/%s/message-unchanged' % fn, 'T-CARRY', g.name, 'the decoded %s is modified before it is stored in the result: %s' % (msg, sorted(set(why))), g.site())


# ------------------------------------------------------------------------------- media types, manifest, digest
def const_text(ctx, o):
    """text of a constant operand; a named constant (`const KEY: &str = ".."`, associated consts) is its value"""
    v = o['v']
    named = ctx.F.consts.get(v) or ctx.F.consts.get(v[6:] if v.startswith('const ') else v)
    return named[1] if named else v


# calls that return the text of their receiver unchanged (as String / &str / slice of it)
SAME_TEXT = re.compile(r'<(str|&str|std::string::String|&std::string::String) as std::string::ToString>::to_string$|ToOwned for str>::to_owned$|as std::borrow::ToOwned>::to_owned$|'
                       r'String::as_str$|String as std::ops::Deref>::deref$|as std::clone::Clone>::clone$|as std::convert::(From|Into)<.*>>::(from|into)$|as std::convert::AsRef<str>>::as_ref$|'
                       r'as std::borrow::Borrow<str>>::borrow$|std::fmt::format$|std::hint::must_use::<.*>$|Arguments::<.*>::(from_str|new_const)(::<.*>)?$|String::into_boxed_str$|Box::<str>::from$')


def fmt_template(text):
    """tokens of a lowered `format_args!` template (`Arguments::new(b"\\x18literal\\xc0..\\x00", args)`): a literal piece is
    length-prefixed, 0xc0 is the next argument printed with `{}`, 0x00 ends it.  None if another spec occurs."""
    v = text.strip()
    if v.startswith('const '): v = v[6:]
    if not (v.startswith('b"') and v.endswith('"')): return None
    raw = T._unescape_bytes(v[2:-1]); out = []; i = 0
    while i < len(raw):
        n = raw[i]
        if n == 0: break
        if n == 0xc0: out.append(None); i += 1; continue
        if n >= 0x80: return None
        out.append(raw[i + 1:i + 1 + n].decode('utf-8', 'replace')); i += 1 + n
    return out


def text_of(ctx, e, depth=24):
    """the constant text an expression tree (T.expr) evaluates to, or None: literals and named constants, conversions
    that keep the text (table SAME_TEXT), `format!("lit{}lit", a, ..)` with constant arguments, `a + b`, `[a, b].concat()`"""
    if depth <= 0 or not isinstance(e, tuple): return None
    k = e[0]
    if k == 'const':
        v = const_text(ctx, {'v': e[1]})
        if v.startswith('const '): v = v[6:]
        return v[1:-1] if len(v) >= 2 and v[0] == '"' and v[-1] == '"' else None
    if k == 'call':
        nm = e[2]; args = e[3]
        if re.search(r'fmt::Arguments::<.*>::new(::<.*>)?$|fmt::Arguments::<.*>::new_v1(::<.*>)?$', nm) and len(args) == 2 and args[0][0] == 'const':
            toks = fmt_template(args[0][1]); vals = args[1][2] if args[1][0] == 'agg' and args[1][1] == 'array' else None
            if toks is None or vals is None: return None
            out = ''; it = iter(vals)
            for t in toks:
                if t is not None: out += t; continue
                a = next(it, None)
                if a is None or a[0] != 'call' or not re.search(r'Argument::<.*>::new_display', a[2]) or not a[3]: return None
                x = text_of(ctx, a[3][0], depth - 1)
                if x is None: return None
                out += x
            return out
        if re.search(r'as std::ops::Add<.*>>::add$', nm) and len(args) == 2:
            a, b = text_of(ctx, args[0], depth - 1), text_of(ctx, args[1], depth - 1)
            return a + b if a is not None and b is not None else None
        arr = args[0] if args else None
        while arr is not None and arr[0] == 'cast': arr = arr[2]              # &[&str; N] -> &[&str]
        if re.search(r'\]>::concat(::<.*>)?$|slice::<impl \[.*\]>::concat', nm) and arr is not None and arr[0] == 'agg' and arr[1] == 'array':
            parts = [text_of(ctx, a, depth - 1) for a in arr[2]]
            return ''.join(parts) if all(x is not None for x in parts) else None
        if SAME_TEXT.search(T.strip_generics_tail(nm)) or SAME_TEXT.search(nm):
            return text_of(ctx, args[0], depth - 1) if args else None
        return None
    if k == 'proj' and all(T.WRAPPER_OWNER.search(a) for a, f in e[2]): return text_of(ctx, e[1], depth - 1)
    if k == 'cast': return text_of(ctx, e[2], depth - 1)
    return None


def media_type_text(ctx, body):
    """text of the MediaType the function returns: the operand of `MediaType::Other(..)` evaluated (text_of)"""
    vals = []
    for kind, bi, d in body.defs_of(0):
        if kind == 'stmt' and d['rv']['k'] == 'agg' and d['rv']['adt'].endswith('MediaType::Other') and d['rv']['ops']:
            vals.append(text_of(ctx, T.expr(body, d['rv']['ops'][0], depth=30)))
        else: return None
    return vals[0] if len(vals) == 1 else None


def string_literals(ctx, body):
    out = []
    for c in body.calls:
        out += [const_text(ctx, a) for a in c.args if a['k'] == 'const']
    for bi, st in body.stmts():
        out += [const_text(ctx, o) for o in st['rv'].get('ops', []) if o['k'] == 'const']
    return [v.strip('"') for v in out if v.startswith('"')]


def types_rules(ctx, repo):
    R = 'C20.types'
    vals = {}
    for b in ctx.F.bodies.values():
        m = MT_FN.match(b.name)
        if m and b.kind == 'fn':
            ctx.fn(b)
            # "lit".to_string() ≡ String::from("lit") ≡ "lit".to_owned() ≡ "lit".into(): the one string literal of the function
            # or built: format!("application/org.ommx.v1.{name}") in a helper, PREFIX.to_owned() + "instance", concat
            vals[m.group(1)] = media_texts(ctx).get(m.group(1))
    want = {'v1_artifact': 'application/org.ommx.v1.artifact', 'v1_config': 'application/org.ommx.v1.config+json', 'v1_instance': 'application/org.ommx.v1.instance',
            'v1_parametric_instance': 'application/org.ommx.v1.parametric-instance', 'v1_solution': 'application/org.ommx.v1.solution', 'v1_sample_set': 'application/org.ommx.v1.sample-set'}
    ctx.check(set(vals) == set(want), R + '/function-set', 'T-CONST', 'artifact::media_types', 'media type functions: %s' % sorted(vals))
    ctx.check(len(set(vals.values())) == len(vals) and None not in vals.values(), R + '/pairwise-distinct', 'T-CONST', 'artifact::media_types', 'media types are not pairwise distinct: %s' % vals)
    for k, v in vals.items():
        ctx.check(bool(v) and re.fullmatch(r'application/org\.ommx\.v1\.[a-z-]+(\+json)?', v) is not None and v == want.get(k, v), R + '/value/' + k, 'T-CONST', 'artifact::media_types::' + k,
                  'media type is %r, expected %r' % (v, want.get(k)))
    try:
        doc = open(os.path.join(repo, 'ARTIFACT.md')).read()
        documented = set(re.findall(r'application/org\.ommx\.v1\.[a-z-]+(?:\+json)?', doc))
        for k in ('v1_artifact', 'v1_config', 'v1_solution', 'v1_instance'):
            ctx.check(vals.get(k) in documented, R + '/documented/' + k, 'T-CONST', 'ARTIFACT.md', '%s = %r is not a media type documented in ARTIFACT.md (%s)' % (k, vals.get(k), sorted(documented)))
    except OSError:
        ctx.lost(R + '/documented', 'ARTIFACT.md')
    # every builder constructor passes v1_artifact(); get_manifest checks it
    # (combinator closures are spliced by `desugared`; a closure that is still separate is searched too)
    def creations(b):
        return [(x, c) for x in [b] + list(ctx.F.closures_of(b)) for c in x.calls if c.item == 'new' and 'OciArtifactBuilder' in c.name]
    ctors = [b for b in ctx.F.bodies.values() if b.kind == 'fn' and re.search(r'artifact::builder::Builder<', b.hdr.get('self') or '') and creations(b)]
    ctx.check(len(ctors) >= 3, R + '/constructors', 'T-CONST', 'artifact::builder', 'expected >= 3 constructors creating an OciArtifactBuilder, found %d' % len(ctors))
    for b in ctors:
        ctx.fn(b)
        for x, c in creations(b):
            mts = media_kinds(ctx, x, c.args[1])
            ctx.check(mts == ['v1_artifact'], R + '/constructor/' + b.hdr.get('item', '?'), 'T-CONST', b.name, 'artifact type passed to OciArtifactBuilder::new is %s' % mts, x.site(c.bb))
    g = ctx.method(R + '/get_manifest/anchor', ART, 'get_manifest')
    if g is not None:
        at = [c for c in g.calls if c.item == 'artifact_type' and 'ImageManifest' in c.name]
        okg = False; whole = False; guard_sbs = []
        for c in eq_tests(g):
            mts = [m for a in c.args for m in media_kinds(ctx, g, a)]
            from_manifest = any(x in ctx.S.slice_operand(g, a).call_objs for a in c.args for x in at)
            sb = guard_holds(g, c, c.item == 'eq') if (mts == ['v1_artifact'] and from_manifest) else None
            if sb is not None:
                okg = True; guard_sbs.append(sb)
                # `manifest.artifact_type() == &Some(v1_artifact())`: the comparison itself rejects a missing type
                if any(T.strip_wrappers(T.expr(g, a))[0] == 'agg' and T.strip_wrappers(T.expr(g, a))[1].endswith('Option::Some') for a in c.args): whole = True
        # a missing artifactType is an error: as_ref().context(..)? ≡ match { None => bail!, .. } ≡ let Some(ty) = .. else { bail! } ≡ ok_or_else(..)?
        if whole and okg:
            ctx.ok(R + '/get_manifest/missing-type-is-error', 'T-ERRFLOW', g.site(), how='compared as a whole Option with Some(v1_artifact())')
        elif at:
            propagates(ctx, R + '/get_manifest/missing-type-is-error', g, at, 'missing artifact type')
        else:
            ctx.bad(R + '/get_manifest/missing-type-is-error', 'T-ERRFLOW', g.name, 'the artifact type of the manifest is not read', g.site())
        ctx.check(okg, R + '/get_manifest/type-guard', 'T-GUARD', g.name, 'a manifest whose artifact type is not v1_artifact() is accepted', g.site())
        # the manifest of a genuine OMMX artifact is always returned: once the image's manifest is read, its artifact type is
        # present and is v1_artifact(), nothing else can fail (e.g. a fallible call needed only for the text of an error message)
        reads = [c for c in g.calls if c.item == 'get_manifest' and not c.path.startswith('artifact::')]       # ocipkg's Image::get_manifest of the underlying image
        only_fails_by(ctx, R + '/get_manifest/only-expected-errors', g, reads + at, guard_sbs, 'the manifest is read and its artifact type is v1_artifact()')
    gl = ctx.method('C20.digest/get_layer/anchor', ART, 'get_layer')
    if gl is not None:
        fl = flow(gl)
        # the loop over the layers of the archive (a `for`, or find / find_map / position in normal form)
        loops = [lo for lo in T.for_loops(gl) if over_all_layers(ctx, gl, lo)]
        # when the layers are exhausted without a hit, the function fails: trailing bail! ≡ find(..).with_context(..) ≡ .ok_or_else(..)? ≡ match { None => bail! }
        ok = bool(loops) and all(fl.outcomes([lo[3]]) == {'err'} for lo in loops)
        ctx.check(ok, 'C20.digest/unknown-is-error', 'T-ERRFLOW', gl.name, 'an unknown digest does not end in an error', gl.site())
        cmp_ok = any(digest_lookup(ctx, gl, lo) is not None for lo in loops)
        # a layer that is present is returned: nothing but listing the layers and "no layer of this digest" can fail
        listing = [c for c in gl.calls if c.item == 'get_layers' and 'OciArtifact' in c.name]
        only_fails_by(ctx, 'C20.digest/only-expected-errors', gl, listing, [], 'the layers are listed and one of them has the digest', cut={(x, lo[3]) for lo in loops for x in gl.preds.get(lo[3], ())})
        ctx.check(cmp_ok, 'C20.digest/compares-digest', 'T-GUARD', gl.name, 'layers are not selected by comparing their digest with the argument', gl.site())
        # what is returned is the matching layer itself: descriptor and blob of the item of that loop
        pay = returned_payloads(gl)
        strong = bool(loops) and pay is not None and bool(pay) and all(any(carries_item(gl, p, lo[0].dst['l']) for lo in loops) for p in pay)
        if not strong and loops and pay and all(any(carries_item(gl, p, lo[0].dst['l']) or taken_by_position(gl, p, lo) for lo in loops) for p in pay):
            # `position(..)` + `layers.swap_remove(i)`: that i is the index of the matching item is not decided (it needs the
            # counter's arithmetic); decided instead: the element is removed from the iterated collection at the counter of that loop
            ctx.undecided('C20.digest/returns-hit', 'T-CARRY', gl.site(), 'the layer is taken out of the collection by the index the search returned')
            ctx.ok('C20.digest/returns-hit/by-position', 'T-CARRY', gl.site())
        else:
            ctx.check(strong, 'C20.digest/returns-hit', 'T-CARRY', gl.name, 'the returned (descriptor, blob) is not the layer of the iteration that matched', gl.site())


# ------------------------------------------------------------------------------- annotations
MAP_TYPES = re.compile(r'HashMap|hash_map::(Entry|VacantEntry|OccupiedEntry)|BTreeMap|btree_map::(Entry|VacantEntry|OccupiedEntry)')
# ways of writing one (key, value) pair into a map: item -> (index of the operand carrying the key, index of the value)
MAP_WRITES = {'insert': (1, 2),            # map.insert(k, v); extend([(k, v)]) and collect() are `insert` in normal form
              'or_insert': (0, 1),         # map.entry(k).or_insert(v): the entry (receiver) carries the key
              'or_insert_with': (0, 1),    # map.entry(k).or_insert_with(|| v)
              'insert_entry': (0, 1),      # map.entry(k).insert_entry(v)
              'extend': (1, 1)}            # map.extend(pairs) where it was not desugared: key and value come with the pairs
ENTRY_INSERT = re.compile(r'hash_map::(Entry|VacantEntry)|btree_map::(Entry|VacantEntry)')      # VacantEntry::insert(v): (0, 1)


def stores(ctx, body, is_key, is_val, depth=3, sites=None):
    """the function writes a pair (k, v) into a map with is_key(body, operand of k) and is_val(body, operand of v):
    directly (table MAP_WRITES), or by passing them on to a function of the crate that does (an existing setter such
    as `set_other(key, value)` reused; positions are followed through the callee's parameters)"""
    for c in body.calls:
        if c.item in MAP_WRITES and MAP_TYPES.search(c.name):
            ki, vi = (0, 1) if (c.item == 'insert' and ENTRY_INSERT.search(c.name)) else MAP_WRITES[c.item]
            if max(ki, vi) < len(c.args) and is_key(body, c.args[ki]) and is_val(body, c.args[vi]):
                if sites is None: return True
                sites.append(c)
        elif depth > 0:
            cb = ctx.F.bodies.get(c.path) or ctx.F.bodies.get(c.name)
            if cb is None or cb.kind != 'fn' or cb.argc != len(c.args) or is_derive_body(cb): continue
            def through(pred, c=c):
                # the callee's operand derives from a parameter whose argument satisfies the caller's predicate
                return lambda b2, op: any(1 <= p <= len(c.args) and pred(body, c.args[p - 1]) for p in ctx.S.slice_operand(b2, op).params if p != 1 or not mutlike_self(b2))
            if stores(ctx, cb, through(is_key), through(is_val), depth - 1):
                if sites is None: return True
                sites.append(c)
    return bool(sites)


def mutlike_self(body):
    """parameter 1 is `&mut self`: every argument of every call on it flows into it in the slices (over-approximation), so it identifies nothing"""
    return body.argc >= 1 and body.locals[1].startswith('&mut')


# ------------------------------------------------------------------------------- accessor = inverse of setter
# calls through which a value (or a sequence of values) passes unchanged; the walk continues with the receiver
SAME_VALUE = re.compile(
    r'String::as_str$|as std::ops::Deref>::deref$|as std::convert::AsRef<.*>>::as_ref$|as std::borrow::Borrow<.*>>::borrow$|'        # borrow as another view
    r'as std::clone::Clone>::clone$|as std::borrow::ToOwned>::to_owned$|ToOwned for str>::to_owned$|'                                 # copy
    r'<(str|&str|std::string::String|&std::string::String) as std::string::ToString>::to_string$|'                                     # text -> the same text
    r'as std::convert::(From|Into)<.*>>::(from|into)$|'                                                                               # String <-> &str <-> Box<str>
    r'Vec::<.*>::as_slice$|Vec::<.*>::into_boxed_slice$|\]>::(to_vec|into_vec|iter)$|'                                               # the same elements as slice / Vec
    r'as std::iter::IntoIterator>::into_iter$|as std::iter::Iterator>::(by_ref|peekable|fuse|copied|cloned)$|'                       # the same elements as iterator
    r'Box::<.*>::new$|'
    r'DateTime::<.*>::(with_timezone|fixed_offset|to_utc)(::<.*>)?$')                                                                # the same instant in another time zone (equal as DateTime)
COLLECT_INTO = re.compile(r'^(std::vec::Vec|std::collections::VecDeque|std::boxed::Box<\[)')                                          # collect() keeps elements and order only for these
SAME_ELEMENT_FN = re.compile(r'String::as_str$|Deref>::deref$|AsRef<.*>>::as_ref$|Clone>::clone$|ToOwned>::to_owned$|ToString>::to_string$|Into<.*>>::into$|From<.*>>::from$|Borrow<.*>>::borrow$')   # it.map(String::as_str)
MAP_GET = re.compile(r'(HashMap|BTreeMap)::<.*>::get(::<.*>)?$|artifact::annotations::\w+::get$')        # the stored text of a key: the map's get / the type's private `get(key)`

# how a value is written into its annotation text and read back: (calls of the setter between the parameter and the
# stored text, calls of the getter between the stored text and the returned value); anything else on either path
# (trim, filter, map, skip, to_lowercase, splitn, ..) means the accessor does not return what was set
CODECS = [
    ((), ()),                                                                                                     # text stored and returned as it is
    ((r'DateTime::<.*>::to_rfc3339$',), (r'DateTime::<.*>::parse_from_rfc3339$',)),   # time stamps; the zone conversion (.with_timezone(&Local) ≡ .into() ≡ DateTime::<Local>::from) keeps the instant: SAME_VALUE
    ((r'<usize as std::string::ToString>::to_string$',), (r'str>::parse::<usize>$|<usize as std::str::FromStr>::from_str$|FromStr for usize>::from_str$',)),          # counts
    ((r'<ocipkg::Digest as std::string::ToString>::to_string$',), (r'ocipkg::Digest::new$',)),                          # digests
    ((r'serde_json::to_string::<',), (r'serde_json::from_str::<',)),                                                 # user parameters as JSON
    ((r'\]>::join::<',), (r'str>::split::<',)),                                                                  # list of names: join(SEP) / split(SEP), SEP compared by authors/separator
]


class Step:
    """a non-call step of a value path (cast, arithmetic), shaped like a Call for the codec table"""
    def __init__(self, name): self.name = name; self.item = name


def value_path(ctx, body, place, depth=60):
    """(calls, terminal): the calls that are not value preserving (table SAME_VALUE) on the way of a value, walked
    backwards along the receiver, in the order they are applied; terminal = ('param', n) | ('get', call) | ('item', next call)
    | ('const', text) | ('lost', why).  `?`, Ok(..), context(..) and moves are followed by `origin`."""
    calls = []
    for _ in range(depth):
        l, proj = origin(body, place)
        if 1 <= l <= body.argc: return calls[::-1], ('param', l)
        defs = [d for d in body.defs_of(l) if not (d[0] == 'stmt' and d[2]['dst']['p'])]
        keep = []
        for d in defs:            # the error value of the function is not the value looked for
            if d[0] == 'call' and (d[2].get('ri') or {}).get('item') == 'from_residual': continue
            if d[0] == 'stmt' and d[2]['rv']['k'] == 'agg' and (ADT_VARIANT.search(d[2]['rv']['adt']) or [None, None])[1] in ERRV: continue
            keep.append(d)
        # `(f(x)? )`: the Ok/Some payload of a fallible step is the step's value
        payload = [(p.get('dc') or p.get('f')) for p in proj if isinstance(p, dict)]
        if len(keep) != 1 or not (payload == [] or (len(payload) == 2 and payload[0] in OKV and payload[1] == '0' and keep[0][0] == 'call')):
            return calls[::-1], ('lost', 'local _%d has %d definitions / an unresolved projection' % (l, len(keep)))
        kind, bi, d = keep[0]
        if kind == 'stmt':
            rv = d['rv']
            if rv['k'] == 'agg' and ADT_VARIANT.search(rv['adt']) and rv['ops'] and rv['ops'][0]['k'] in ('copy', 'move'):
                place = rv['ops'][0]['pl']; continue            # Ok(x) / Some(x): the payload
            if rv['k'] == 'use' and rv['ops'][0]['k'] == 'const': return calls[::-1], ('const', rv['ops'][0]['v'])
            if rv['k'] in ('cast', 'bin', 'un') and rv['ops'][0]['k'] in ('copy', 'move'):
                # arithmetic / a cast on the way is a step like a call (`variables as u32`, `n + 1`)
                calls.append(Step('%s:%s' % (rv['k'], rv.get('to') or rv.get('op'))))
                place = rv['ops'][0]['pl']; continue
            return calls[::-1], ('lost', 'definition of _%d' % l)
        c = [x for x in body.calls if x.bb == bi][0]
        nm = c.name; a0 = c.args[0] if c.args else None
        if MAP_GET.search(nm): return calls[::-1], ('get', c)
        if c.item == 'next' and (c.trait or '').endswith('Iterator'): return calls[::-1], ('item', c)
        # the value is changed in place through `&mut l` (names.dedup(), v.sort(), s.make_ascii_lowercase()): steps like any other call
        filled = c.item in ('new', 'with_capacity') and re.search(r'\bVec::<', nm) is not None
        for x in body.calls:
            if x is c or not x.args or x.args[0]['k'] not in ('copy', 'move') or not body.locals[x.args[0]['pl']['l']].startswith('&mut'): continue
            if (filled and x.item in PUSHES) or (x.item == 'next' and (x.trait or '').endswith('Iterator')): continue
            if origin(body, x.args[0]['pl']) == (l, []): calls.append(x)
        if not filled and (a0 is None or a0['k'] not in ('copy', 'move')): return calls[::-1], ('lost', 'call %s without a receiver' % c.item)
        same = bool(SAME_VALUE.search(T.strip_generics_tail(nm)) or SAME_VALUE.search(nm))
        if (_recv_family(c), c.item) in PAYLOAD_KEPT: same = True            # opt.context(..), res.map_err(..) returned directly: the payload is handed on
        if c.item == 'collect' and (c.trait or '').endswith('Iterator') and COLLECT_INTO.search(body.locals[l]): same = True
        if c.item == 'map' and (c.trait or '').endswith('Iterator') and len(c.args) == 2 and c.args[1]['k'] == 'const' and SAME_ELEMENT_FN.search(c.args[1].get('fn') or c.args[1]['v']): same = True
        if filled:
            # collect() of a closure chain in normal form: Vec::new + push in a loop; same elements if the pushed value is the loop item
            fills = [x for x in body.calls if x.item in PUSHES and x.args and x.args[0]['k'] in ('copy', 'move') and origin(body, x.args[0]['pl']) == (l, [])]
            lo = innermost_loop(body, fills[0].bb) if len(fills) == 1 else None
            if lo is None or fills[0].args[1]['k'] not in ('copy', 'move'): return calls[::-1], ('lost', 'Vec filled in an unknown way')
            sub, term = value_path(ctx, body, fills[0].args[1]['pl'], depth - 1)
            if term[0] != 'item' or term[1] is not lo[0]: return calls[::-1], ('lost', 'pushed value is not the loop item')
            calls += sub[::-1]
            r = iter_root(body, lo)
            if r is None: return calls[::-1], ('lost', 'loop source')
            place = {'l': r[0], 'p': r[1]}; continue
        if not same: calls.append(c)
        place = a0['pl']
    return calls[::-1], ('lost', 'too deep')


def codec_of(setter_calls, getter_calls):
    def fits(pats, calls): return len(pats) == len(calls) and all(re.search(p, c.name) for p, c in zip(pats, calls))
    for i, (sp, gp) in enumerate(CODECS):
        if fits(sp, setter_calls) and fits(gp, getter_calls): return i
    return None


def annotation_rules(ctx, repo):
    R = 'C20.annotations'
    prefixes = {'InstanceAnnotations': 'org.ommx.v1.instance.', 'ParametricInstanceAnnotations': 'org.ommx.v1.parametric-instance.', 'SolutionAnnotations': 'org.ommx.v1.solution.', 'SampleSetAnnotations': 'org.ommx.v1.sample-set.'}
    try: doc = open(os.path.join(repo, 'ARTIFACT.md')).read()
    except OSError: doc = ''
    pairs = 0
    for ty, prefix in prefixes.items():
        full = 'artifact::annotations::' + ty
        meths = {b.hdr['item']: b for b in ctx.F.bodies.values() if b.kind == 'fn' and b.hdr.get('self') == full and b.hdr.get('trait') is None}
        def key_of(b):
            ks = []
            def lit(o):
                if o['k'] != 'const': return
                v = const_text(ctx, o)                          # `const KEY: &str = ".."`, `Self::KEY`
                if v.startswith('"org.ommx.'): ks.append(v.strip('"'))
            for c in b.calls:
                for a in c.args: lit(a)
            for bi, st in b.stmts():
                for o in st['rv'].get('ops', []): lit(o)
            return sorted(set(ks))
        for name, sb in sorted(meths.items()):
            if not name.startswith('set_') or name in ('set_created_now', 'set_other', 'set_user_annotation', 'set_user_annotations'): continue
            gname = name[4:]
            gb = meths.get(gname)
            if gb is None:
                ctx.bad(R + '/%s/%s/getter' % (ty, gname), 'T-CONST', sb.name, 'setter has no getter `%s`' % gname, sb.site()); continue
            ctx.fn(sb); ctx.fn(gb)
            sk = key_of(sb); gk = key_of(gb)
            pairs += 1
            ok = len(sk) == 1 and sk == gk and sk[0] == prefix + gname
            ctx.check(ok, R + '/%s/%s/same-key' % (ty, gname), 'T-CONST', sb.name, 'setter key %s, getter key %s, expected one key %s%s in both' % (sk, gk, prefix, gname), sb.site())
            if ty in ('InstanceAnnotations', 'SolutionAnnotations') and sk and doc:
                ctx.check(sk[0] in doc, R + '/%s/%s/documented' % (ty, gname), 'T-CONST', 'ARTIFACT.md', 'annotation key %s is not documented in ARTIFACT.md' % sk[0])
            # the setter writes (its key, the given value) into the map; the getter reads through self.get / the map
            want = prefix + gname
            def is_key(body, op):
                x = ctx.S.slice_operand(body, op) if op['k'] != 'const' else None
                texts = [const_text(ctx, op)] if x is None else [const_text(ctx, {'v': v}) for v in x.consts]
                return any(t.strip('"') == want for t in texts)
            def is_val(body, op):
                return op['k'] != 'const' and 2 in ctx.S.slice_operand(body, op).params
            written = []
            def is_val_rec(body, op):
                if is_val(body, op): written.append(op); return True
                return False
            ctx.check(stores(ctx, sb, is_key, is_val_rec), R + '/%s/%s/stores-value' % (ty, gname), 'T-CARRY', sb.name, 'setter does not insert the given value under its key', sb.site())
            # the accessor returns exactly what was set: the getter's path from the stored text is the inverse of the setter's path to it
            rid = R + '/%s/%s/inverse' % (ty, gname)
            sp = value_path(ctx, sb, written[0]['pl']) if written else ([], ('lost', 'no stored value'))
            gp = value_path(ctx, gb, {'l': 0, 'p': []})
            names = lambda cs: [c.item for c in cs]
            if sp[1][0] == 'lost' or gp[1][0] == 'lost':
                # the path cannot be followed (not: it contains a foreign step): weaker, decided: key and value are connected (same-key, stores-value) and the getter reads the map
                ctx.undecided(rid, 'T-SIBLING', gb.site(), 'value path not followed: setter %s, getter %s' % (sp[1][1], gp[1][1]))
                ctx.check(any(MAP_GET.search(c.name) for c in gb.calls), rid + '/reads-map', 'T-SIBLING', gb.name, 'getter does not read the annotation map', gb.site())
            else:
                okp = sp[1] == ('param', 2) and gp[1][0] == 'get' and codec_of(sp[0], gp[0]) is not None
                ctx.check(okp, rid, 'T-SIBLING', gb.name, 'the getter does not invert the setter: set = %s(%s), get = %s(%s); no entry of CODECS' % (' . '.join(names(sp[0])) or 'id', sp[1][0], ' . '.join(names(gp[0])) or 'id', gp[1][0]), gb.site())
            if gname == 'authors':
                def const_of(body, a):
                    e = T.strip_wrappers(T.expr(body, a))
                    return const_text(ctx, {'v': e[1]}).strip('"').strip("'") if e[0] == 'const' else None
                js = sorted({const_of(sb, c.args[1]) for c in sb.calls if c.item == 'join' and len(c.args) > 1} - {None})
                sp = sorted({const_of(gb, c.args[1]) for c in gb.calls if c.item == 'split' and len(c.args) > 1} - {None})
                okj = len(js) == 1 and js == sp
                ctx.check(okj, R + '/%s/authors/separator' % ty, 'T-CONST', sb.name, 'authors are joined with %s but split with %s' % (js, sp), sb.site())
        # user-defined keys: set_other(key, value) stores exactly (key, value), for every key a user may choose.  ARTIFACT.md:
        # "Users can add arbitrary annotation to arbitrary layer. `org.ommx.user.` prefix is reserved for user-defined annotations."
        # and "The key may not start with `org.ommx.v1.`": so the only keys a check may refuse are those under the documented
        # reserved prefix; every way past the insert must be behind `key.starts_with(P)` with P inside that namespace.
        ob = meths.get('set_other')
        if ob is not None:
            ctx.fn(ob)
            sites = []
            stores(ctx, ob, lambda body, op: body is ob and root_param(body, op) == 2, lambda body, op: body is ob and root_param(body, op) == 3, sites=sites)
            m = re.search(r'may not start with `([^`]+)`', doc)
            reserved = m.group(1) if m else 'org.ommx.v1.'
            refused = set()
            for c in ob.calls:
                if c.item == 'starts_with' and re.search(r'\bstr>::starts_with', c.name) and len(c.args) == 2 and root_param(ob, c.args[0]) == 2:
                    pat = text_of(ctx, T.expr(ob, c.args[1]))
                    if pat is not None and pat.startswith(reserved):
                        for sb_, neg in T.bool_flow(ob, c.dst['l']): refused.add((sb_, T.switch_sides(ob, sb_, neg)[0]))     # the edge "key is reserved"
            # is the exit reachable without the insert and without taking a "key is reserved" edge?  (edges, not blocks: `a || b` shares the target)
            stop = {c.bb for c in sites}; seen = {0}; work = [] if 0 in stop else [0]; bypass = False
            while work and sites:
                x = work.pop()
                if ob.blocks[x]['term']['k'] == 'return': bypass = True; break
                for y in ob.succ(x):
                    if y in seen or y in stop or (x, y) in refused or ob.blocks[y]['cleanup']: continue
                    seen.add(y); work.append(y)
            ctx.check(bool(sites) and not bypass, R + '/%s/set_other/stores' % ty, 'T-MUSTCALL', ob.name,
                      'no insert of (key, value) as given' if not sites else 'a key outside the reserved namespace `%s` can be dropped: the exit is reachable without the insert' % reserved, ob.site())
        # the private `get(key)` the accessors read through returns the stored text of exactly that key
        hb = meths.get('get')
        if hb is not None:
            ctx.fn(hb)
            hp = value_path(ctx, hb, {'l': 0, 'p': []})
            okh = hp[0] == [] and hp[1][0] == 'get' and 'annotations::' not in hp[1][1].name and len(hp[1][1].args) > 1 and root_param(hb, hp[1][1].args[1]) == 2
            ctx.check(okh, R + '/%s/get-helper' % ty, 'T-CARRY', hb.name, 'get(key) does not return the unchanged entry of the map under the given key (%s, %s)' % ([c.item for c in hp[0]], hp[1][0]), hb.site())
        # from_descriptor reads the descriptor's annotations
        fd = meths.get('from_descriptor')
        if fd is not None:
            s = ctx.S.backslice(fd, [0])
            ctx.check(s.has_call(r'Descriptor::annotations') and 1 in s.params, R + '/%s/from_descriptor' % ty, 'T-CARRY', fd.name, 'annotations are not taken from the descriptor', fd.site())
    ctx.extra_pairs = pairs


def check(ctx):
    repo = getattr(ctx, 'repo', '/repo')
    F0, S0 = ctx.F, ctx.S
    try:
        F2 = desugared(F0)
        if F2 is not F0:
            from ..dataflow import Slicer
            ctx.F, ctx.S = F2, Slicer(F2, depth=S0.depth)
        kinds_rules(ctx); types_rules(ctx, repo); annotation_rules(ctx, repo)
    finally:
        ctx.F, ctx.S = F0, S0
    # floors = rule instances decided on the pinned tree
    ctx.floor('C20.kinds', 64); ctx.floor('C20.types', 19); ctx.floor('C20.digest', 4); ctx.floor('C20.annotations', 96)
