"""C09 — penalty methods keep every constraint and build f + weighted squared violations (DESIGN §5 C09).

Written against the normal form (`VIEW = 'norm'`): `for` loops, `map/zip/fold/collect/extend` pipelines and
extracted helpers all look like explicit `next` loops.  The rules speak about *dataflow roles*, not about
the number of loops or constructors:

  constraint loop   a loop whose iterated sequence is `self.constraints` itself (walked through
                    order/completeness preserving adaptors only, see SEQ_ADAPTORS) – one pass or many
  R                 the vector that ends up in `removed_constraints`: starts as `self.removed_constraints`,
                    and some constraint loop pushes `RemovedConstraint{Some(item), ..}` on every path
  P                 (per-constraint) the vector that ends up in `parameters`: filled with exactly one
                    `Parameter{id: fresh + index, subscripts: [item.id]}` per iteration of a constraint loop
  pairing           wherever a weight multiplies g_c or is recorded as "parameter_id" of c, the weight is
                    the one created for c: built in the same iteration from the same item, or taken from
                    P zipped in lock-step with `self.constraints` (both walked in order)
"""
import re
from .common import *

VIEW = 'norm'
# the objective f + sum w*g*g is built with the crate's own arithmetic: `&Parameter * Function`, `Function * Function`,
# `Function + Function`.  C09 therefore re-decides the C02 rule families those operators go through (a Mul kernel that
# merges terms under colliding keys by overwriting breaks g*g although nothing in the penalty methods changed)
RELIES_ON = {'C14': ['C14.relax_constraint'],       # the summary open_relax_loops uses (see there); re-decided on the same tree
             'C02': ['C02.keys', 'C02.kernel', 'C02.dispatch',
                     'C02.deleg/&v1::Parameter_Mul_v1::Function', 'C02.deleg/v1::Function_Mul_v1::Function', 'C02.deleg/v1::Function_Add_v1::Function']}

def _calls_relax_constraint(ctx):
    """the C14 summary is needed (and re-decided) only on a tree whose penalty methods call relax_constraint; on the pinned tree they
    do not, and a defect in relax_constraint is then C14's to report, not C09's"""
    for name in ('penalty_method', 'uniform_penalty_method'):
        for b in ctx.F.bodies.values():
            if b.kind == 'fn' and b.name.endswith('::' + name) and 'Instance' in b.name:
                if any(c.item == 'relax_constraint' for c in b.calls): return True
    return False


RELIES_IF = {'C14': _calls_relax_constraint}

INST = 'v1::Instance'
CARRIED = ['description', 'decision_variables', 'sense', 'constraint_hints', 'decision_variable_dependency']

PARAM_TY = re.compile(r"^(&('\w+ )?(mut )?)?v1::Parameter$")
NEVER = re.compile(r'(?!x)x')
# value-preserving accessors followed when asking "which constraint is this function the function of"
# the constraint's function as a value: accessor, clones, Cow -> owned, `Option<Function>` defaulted to zero
OWN_FUNCTION_T = re.compile(r'::(function|as_ref|as_deref|deref|borrow|clone|cloned|into_owned|to_owned|unwrap_or_else|unwrap_or_default|unwrap_or|into|from)(::<.*>)?$')
FUNC_TRANSPARENT = re.compile(T.TRANSPARENT.pattern.replace('::(as_ref|', '::(function|as_ref|', 1))
# identity-preserving only (no clone): followed when asking "which object is this"
REF_TRANSPARENT = re.compile(r'::(as_ref|as_mut|as_deref|deref|deref_mut|borrow|borrow_mut)(::<.*>)?$')

# ---------------------------------------------------------------------------------------------------
# sequences: what does a loop iterate over, element by element?
# (trait suffix or None for inherent, item) -> (number of sequence arguments, keeps the order)
# every entry hands on *all* elements of its argument(s); `in_order` additionally says element i stays
# element i (needed only when two sequences are walked in lock-step)
SEQ_ADAPTORS = {
    ('IntoIterator', 'into_iter'): (1, True),    # `for x in v` / v.into_iter() / identity on an iterator
    (None, 'iter'): (1, True),                   # v.iter()
    (None, 'iter_mut'): (1, True),               # v.iter_mut()
    (None, 'as_slice'): (1, True),               # v.as_slice()
    (None, 'as_mut_slice'): (1, True),           # v.as_mut_slice()
    ('Deref', 'deref'): (1, True),               # &Vec<T> -> &[T]
    ('DerefMut', 'deref_mut'): (1, True),        # &mut Vec<T> -> &mut [T]
    ('Iterator', 'enumerate'): (1, True),        # (i, x): same elements, adds the position
    ('Iterator', 'zip'): (2, True),              # (a_i, b_i): lock-step over both arguments
    ('Iterator', 'by_ref'): (1, True),           # &mut it
    ('Iterator', 'peekable'): (1, True),         # look-ahead only
    ('Iterator', 'fuse'): (1, True),             # same elements
    ('Iterator', 'copied'): (1, True),           # element-wise copy
    ('Iterator', 'cloned'): (1, True),           # element-wise clone
    ('Clone', 'clone'): (1, True),               # v.clone(): an equal sequence
    ('Iterator', 'rev'): (1, False),             # all elements, reversed: fine for a single pass, breaks lock-step
}
INHERENT_SEQ_OWNER = re.compile(r'slice::<impl \[|::Vec::<|::VecDeque::<')
EMPTY_VEC_CTOR = re.compile(r'::Vec::<.*>::(new|with_capacity)$|<std::vec::Vec<.*> as std::default::Default>::default$')
# calls through `&mut vec` that change which element sits at which position
VEC_REORDER = ('sort', 'sort_by', 'sort_by_key', 'sort_unstable', 'sort_unstable_by', 'sort_unstable_by_key', 'sort_by_cached_key',
               'reverse', 'swap', 'swap_remove', 'remove', 'insert', 'retain', 'retain_mut', 'dedup', 'dedup_by', 'dedup_by_key',
               'truncate', 'pop', 'drain', 'clear', 'rotate_left', 'rotate_right', 'split_off', 'append', 'extend', 'resize')
# the subset that keeps the multiset of elements (harmless unless the position matters)
VEC_PERMUTE = ('sort', 'sort_by', 'sort_by_key', 'sort_unstable', 'sort_unstable_by', 'sort_unstable_by_key', 'sort_by_cached_key',
               'reverse', 'swap', 'rotate_left', 'rotate_right')


def _callmap(body):
    m = getattr(body, '_c09_callmap', None)
    if m is None:
        m = body._c09_callmap = {c.bb: c for c in body.calls}
    return m


def _whole_defs(body, l):
    return [d for d in body.defs_of(l) if not (d[0] == 'stmt' and d[2]['dst']['p'])]


def seq_adaptor(c, body=None):
    tr = (c.trait or '').split('::')[-1] or None
    ent = SEQ_ADAPTORS.get((tr, c.item))
    if ent is not None and not (tr is None and not INHERENT_SEQ_OWNER.search(c.name)): return ent
    # `std::mem::take(&mut v)` / `std::mem::replace(&mut v, new)`: the value v held, i.e. the sequence v
    if re.search(r'^std::mem::(take|replace)::<', c.name): return (1, True)
    # `v.drain(..)`: every element of v, in order (only the full range)
    if tr is None and c.item == 'drain' and INHERENT_SEQ_OWNER.search(c.name) and body is not None and len(c.args) == 2 \
            and c.args[1]['k'] in ('copy', 'move') and body.locals[c.args[1]['pl']['l']].endswith('ops::RangeFull'): return (1, True)
    return None


def takes_all(body, c):
    """calls that move the whole content out of `*arg0` and leave it empty / replaced:
       mem::take(&mut v), mem::replace(&mut v, w), v.drain(..)"""
    if re.search(r'^std::mem::(take|replace)::<', c.name): return True
    return c.trait is None and c.item == 'drain' and INHERENT_SEQ_OWNER.search(c.name) is not None and len(c.args) == 2 \
        and c.args[1]['k'] in ('copy', 'move') and body.locals[c.args[1]['pl']['l']].endswith('ops::RangeFull')


def struct_ret_field(cb, f):
    """crate function whose result is a struct literal: (body, operand initialising field f), else None"""
    r = root_of(cb, {'k': 'move', 'pl': {'l': 0, 'p': []}})[0]
    if r is None: return None
    d = _whole_defs(cb, r)
    if len(d) == 1 and d[0][0] == 'stmt' and d[0][2]['rv']['k'] == 'agg' and f in d[0][2]['rv'].get('fields', []):
        return cb, agg_field_operand(d[0][2], f)
    return None


def crate_callee(body, c):
    F = getattr(body, 'facts', None)
    if F is None: return None
    cb = F.bodies.get(c.path) or F.bodies.get(c.name)
    return cb if cb is not None and cb.kind == 'fn' else None


def seq_sources(body, op, in_order=True, crossed=None, acc=(), depth=24):
    """leaves of the sequence an iterator operand walks: list of (kind, key, in_order)
         ('field', (param, ((adt, f), ..)))   a field of a parameter, e.g. self.constraints
         ('vec', key)                          a Vec created empty and filled by pushes: a local l, or the field
                                               (struct local, field name) of a struct value
         ('other', text)                       anything else (a call result, a restricted iterator, ..)
       `crossed` collects the items of the adaptors passed (e.g. 'enumerate')."""
    if crossed is None: crossed = set()
    if depth == 0 or op['k'] not in ('copy', 'move'): return [('other', 'unknown operand', in_order)]
    pl = op['pl']; l = pl['l']; fs = tuple(fields_of_place(pl)) + tuple(acc)
    if 1 <= l <= body.argc:
        return [('field', (l, fs), in_order)] if fs else [('other', 'parameter _%d' % l, in_order)]
    defs = _whole_defs(body, l)
    if len(defs) != 1: return [('other', 'local _%d has %d definitions' % (l, len(defs)), in_order)]
    k, bi, d = defs[0]
    if k == 'stmt':
        rv = d['rv']
        if rv['k'] == 'use' and rv['ops'][0]['k'] in ('copy', 'move'):
            return seq_sources(body, rv['ops'][0], in_order, crossed, fs, depth - 1)
        if rv['k'] == 'ref':
            return seq_sources(body, {'k': 'copy', 'pl': rv['pl']}, in_order, crossed, fs, depth - 1)
        if rv['k'] == 'agg' and rv['adt'].endswith('ops::RangeFrom') and not fs:
            # `(k..)`: an unbounded counter.  Zipped with a sequence it numbers the elements like `enumerate` and neither
            # drops nor reorders any: no leaf of its own
            crossed.add('enumerate'); return []
        if rv['k'] == 'agg' and fs and fs[0][1] in rv.get('fields', []):
            # field of a struct literal: what the literal put there
            return seq_sources(body, agg_field_operand(d, fs[0][1]), in_order, crossed, fs[1:], depth - 1)
        return [('other', 'local _%d' % l, in_order)]
    c = _callmap(body)[bi]
    if fs:
        # field of a struct returned by a crate function that ends in a struct literal (From / new / builder):
        # follow the literal's operand inside the callee, then the callee's parameter back to our argument
        cb = crate_callee(body, c); sr = struct_ret_field(cb, fs[0][1]) if cb is not None else None
        if sr is None: return [('other', 'projection of ' + c.item, in_order)]
        if len(fs) == 1 and is_empty_vec_operand(cb, sr[1]): return [('vec', (l, fs[0][1]), in_order)]
        out = []
        for kind, key, io in seq_sources(cb, sr[1], in_order, crossed, fs[1:], depth - 1):
            if kind == 'field' and key[0] - 1 < len(c.args): out += seq_sources(body, c.args[key[0] - 1], io, crossed, key[1], depth - 1)
            else: out.append(('other', 'inside %s: %s' % (c.item, key), io))
        return out
    ent = seq_adaptor(c, body)
    if ent is not None:
        n, keeps = ent
        crossed.add(c.item)
        out = []
        for a in c.args[:n]:
            out += seq_sources(body, a, in_order and keeps, crossed, (), depth - 1)
        return out
    if EMPTY_VEC_CTOR.search(c.name): return [('vec', l, in_order)]
    return [('other', 'result of ' + c.name[:70], in_order)]


def is_empty_vec_operand(body, op):
    r = root_of(body, op, cross_proj=False)[0]
    if r is None: return False
    d = _whole_defs(body, r)
    return len(d) == 1 and d[0][0] == 'call' and EMPTY_VEC_CTOR.search(_callmap(body)[d[0][1]].name) is not None


def is_constraints_leaf(leaf):
    k, key, _ = leaf
    return k == 'field' and key[0] == 1 and len(key[1]) == 1 and key[1][0][1] == 'constraints' and \
        (key[1][0][0] == INST or key[1][0][0].endswith('::' + INST))


class Loop:
    def __init__(self, body, lo):
        self.lo = lo; self.next, self.header, self.some_bb, self.none_bb, self.blocks = lo
        self.item = self.next.dst['l']
        self.crossed = set()
        self.leaves = seq_sources(body, self.next.args[0], True, self.crossed)
        self.over_constraints = any(is_constraints_leaf(x) for x in self.leaves)

    def site(self, body): return body.site(self.next.bb)


def innermost(loops, bb):
    best = None
    for L in loops:
        if bb in L.blocks and (best is None or len(L.blocks) < len(best.blocks)): best = L
    return best


def root_of(body, op, transparent=NEVER, depth=24, cross_proj=True):
    """(root local, fields crossed, transparent calls crossed): follows single-definition copies / refs and
    calls matching `transparent` backwards; stops at parameters, aggregates, other calls, multiply-defined locals.
    A value that was packed into a tuple and taken out again (`let (a, b) = (x, y);`, a helper returning a tuple that the
    normal form inlined) is followed to what was packed."""
    crossed = []
    if op is None or op['k'] not in ('copy', 'move'): return None, [], crossed
    l = op['pl']['l']; P = list(op['pl']['p'])          # P: projections still to be applied to l (innermost first)
    fof = lambda proj: [(q['of'], q['f']) for q in proj if isinstance(q, dict) and 'f' in q]
    for _ in range(depth):
        if 1 <= l <= body.argc: return l, fof(P), crossed
        defs = _whole_defs(body, l)
        if len(defs) != 1: return l, fof(P), crossed
        k, bi, d = defs[0]
        if k == 'stmt':
            rv = d['rv']
            if rv['k'] == 'use' and rv['ops'][0]['k'] in ('copy', 'move') and (cross_proj or not fields_of_place(rv['ops'][0]['pl'])):
                src = rv['ops'][0]['pl']; l = src['l']; P = list(src['p']) + P; continue
            if rv['k'] == 'ref' and (cross_proj or not fields_of_place(rv['pl'])):
                l = rv['pl']['l']; P = list(rv['pl']['p']) + P; continue
            if rv['k'] == 'agg' and rv['adt'] == 'tuple':
                Q = [q for q in P if q != '*']
                if Q and isinstance(Q[0], dict) and Q[0].get('of') == 'tuple' and Q[0].get('f', '').isdigit() and int(Q[0]['f']) < len(rv['ops']):
                    o = rv['ops'][int(Q[0]['f'])]
                    if o['k'] in ('copy', 'move'):
                        l = o['pl']['l']; P = list(o['pl']['p']) + Q[1:]; continue
            return l, fof(P), crossed
        nm = d['r'] or d['f']
        if transparent.search(T.strip_generics_tail(nm)) and d['args'] and d['args'][0]['k'] in ('copy', 'move'):
            crossed.append(nm); a0 = d['args'][0]['pl']; l = a0['l']; P = list(a0['p']) + P; continue
        return l, fof(P), crossed
    return None, fof(P), crossed


def agg_def(body, l, adt_suffix):
    """the statement `l = Adt { .. }` if that is l's only definition"""
    if l is None: return None
    defs = _whole_defs(body, l)
    if len(defs) == 1 and defs[0][0] == 'stmt':
        rv = defs[0][2]['rv']
        if rv['k'] == 'agg' and (rv['adt'] == adt_suffix or rv['adt'].endswith('::' + adt_suffix)): return defs[0][1], defs[0][2]
    return None


def vec_of(body, op):
    """the collection an operand (usually the `&mut self` of a method call) stands for:
         a local l                 (also a vector moved out of `self.field`: that local, not `self`)
         (struct local X, field)   a field of a local struct value, `&mut x.items`
       through refs / reborrows / copies of the reference."""
    if op is None or op['k'] not in ('copy', 'move'): return None
    pl = op['pl']
    for _ in range(24):
        l = pl['l']; fs = fields_of_place(pl)
        if fs:
            if len(fs) != 1: return None
            if 1 <= l <= body.argc: return (l, fs[0][1])          # `self.items` of a `mut self` worked on in place
            return (root_of(body, {'k': 'copy', 'pl': {'l': l, 'p': []}})[0], fs[0][1])
        if 1 <= l <= body.argc: return l
        defs = _whole_defs(body, l)
        if len(defs) != 1: return l
        k, bi, d = defs[0]
        if k == 'stmt':
            rv = d['rv']
            if rv['k'] == 'use' and rv['ops'][0]['k'] in ('copy', 'move'):
                src = rv['ops'][0]['pl']
                if fields_of_place(src) and 1 <= src['l'] <= body.argc: return l        # `let v = self.field;`
                pl = src; continue
            if rv['k'] == 'ref': pl = rv['pl']; continue
            return l
        nm = d['r'] or d['f']
        if REF_TRANSPARENT.search(T.strip_generics_tail(nm)) and d['args'] and d['args'][0]['k'] in ('copy', 'move'):
            pl = d['args'][0]['pl']; continue
        return l
    return None


def recv_root(body, c):
    """the collection a method call works on (see vec_of)"""
    if not c.args: return None
    return vec_of(body, c.args[0])


def vec_elem_matches(body, c, vec, elem_ty):
    pat = r'std::vec::Vec<%s>' % re.escape(elem_ty)
    a0 = c.args[0]
    if a0['k'] in ('copy', 'move') and re.search(pat, body.locals[a0['pl']['l']]): return True
    if isinstance(vec, int): return re.search(pat, body.locals[vec]) is not None
    return False


def pushes_into(body, vec_local=None, elem_ty=None):
    out = []
    for c in body.calls:
        if c.item != 'push' or len(c.args) != 2 or '::Vec::<' not in c.name: continue
        r = recv_root(body, c)
        if r is None: continue
        if vec_local is not None and r != vec_local: continue
        if elem_ty is not None and not vec_elem_matches(body, c, r, elem_ty): continue
        out.append(c)
    return out


def vec_str(v):
    return '_%d' % v if isinstance(v, int) else '_%s.%s' % v


def created_empty(body, P):
    """the vector P starts empty: `Vec::new()` / `with_capacity` / `Default::default()`, directly or as the
    field of a struct literal (here or at the end of the crate function that returned the struct)"""
    if isinstance(P, int):
        d = _whole_defs(body, P)
        return len(d) == 1 and d[0][0] == 'call' and EMPTY_VEC_CTOR.search(_callmap(body)[d[0][1]].name) is not None
    X, f = P
    if X is None: return False
    d = _whole_defs(body, X)
    if len(d) != 1: return False
    if d[0][0] == 'stmt':
        return d[0][2]['rv']['k'] == 'agg' and f in d[0][2]['rv'].get('fields', []) and is_empty_vec_operand(body, agg_field_operand(d[0][2], f))
    cb = crate_callee(body, _callmap(body)[d[0][1]]); sr = struct_ret_field(cb, f) if cb is not None else None
    return sr is not None and is_empty_vec_operand(sr[0], sr[1])


def once_per_iteration(body, L, sites):
    """every path Some-arm -> header passes exactly one of the blocks in `sites`"""
    if not sites or not all(s in L.blocks for s in sites): return False, 'not inside the loop'
    if not T.must_pass(body, L.some_bb, {L.header}, set(sites)): return False, 'a path through the loop body skips it'
    for s in sites:
        seen = set(); w = [x for x in body.succ(s) if not body.blocks[x]['cleanup']]
        while w:
            x = w.pop()
            if x in seen or x == L.header or x not in L.blocks: continue
            seen.add(x)
            if x in sites: return False, 'a path through the loop body passes it twice'
            w += [y for y in body.succ(x) if not body.blocks[y]['cleanup']]
    return True, ''


def aligned_parameter_vec(ctx, body, loops, P, need_order=True, _guard=None):
    """is local Vec P filled with exactly one Parameter per element of self.constraints (need_order: and in
    the order of self.constraints, which matters only when P is later walked in lock-step with it)?
    returns (ok, why, fill loop, [(bb, Parameter aggregate stmt)])"""
    _guard = _guard or set()
    if P in _guard: return False, 'cyclic', None, []
    Ps = vec_str(P)
    if not created_empty(body, P):
        return False, '%s is not a vector created empty and filled by push' % Ps, None, []
    sites = pushes_into(body, P)
    if not sites: return False, 'nothing is pushed into %s' % Ps, None, []
    Ls = {id(innermost(loops, c.bb)): innermost(loops, c.bb) for c in sites}
    if len(Ls) != 1 or None in Ls.values(): return False, 'the pushes into %s are not all inside one loop' % Ps, None, []
    L = list(Ls.values())[0]
    if not L.over_constraints: return False, 'the loop filling %s (%s) does not walk self.constraints itself' % (Ps, L.site(body)), L, []
    for leaf in L.leaves:
        if is_constraints_leaf(leaf) and (leaf[2] or not need_order): continue
        if leaf[0] == 'vec' and leaf[2] and aligned_parameter_vec(ctx, body, loops, leaf[1], True, _guard | {P})[0]: continue
        return False, 'the loop filling %s also depends on %s%s' % (Ps, leaf[1] if leaf[0] == 'other' else leaf[0], '' if leaf[2] else ' (order not kept)'), L, []
    ok, why = once_per_iteration(body, L, [c.bb for c in sites])
    if not ok: return False, 'push into %s: %s' % (Ps, why), L, []
    # nothing reorders P afterwards / in between
    for c in body.calls:
        if c in sites or not c.args: continue
        if recv_root(body, c) != P: continue
        a0 = c.args[0]
        if a0['k'] not in ('copy', 'move') or '&mut' not in body.locals[a0['pl']['l']]: continue
        if c.item in VEC_REORDER and (need_order or c.item not in VEC_PERMUTE): return False, '%s is reordered by `%s` (%s)' % (Ps, c.item, body.site(c.bb)), L, []
    aggs = []
    for c in sites:
        r = root_of(body, c.args[1])[0]
        a = construction_of(ctx, body, r, 'v1::Parameter')
        if a is None or a.bb not in L.blocks: return False, 'the value pushed into %s is not a Parameter built in the same iteration' % Ps, L, []
        aggs.append(a)
    return True, '', L, aggs


def parameter_origin(ctx, body, loops, L, op, per_method_P):
    """Is the Parameter value `op`, used inside loop L, the weight of L's current constraint?
    returns (ok, how)"""
    r, fs, calls = root_of(body, op, REF_TRANSPARENT)
    if r is None: return False, 'origin of the parameter not traceable'
    a = construction_of(ctx, body, r, 'v1::Parameter')
    if a is not None:
        # built from the item in this very iteration
        if L is not None and a.bb in L.blocks and L.over_constraints: return True, 'built in the same iteration (%s)' % a.site()
        return False, 'parameter built at %s is used for a constraint of another loop / outside a constraint loop' % a.site()
    if L is not None and r == L.item:
        # lock-step: every sequence walked is self.constraints or a per-constraint parameter vector, all in order
        nvec = 0
        for leaf in L.leaves:
            if not leaf[2]: return False, 'lock-step loop walks a sequence out of order'
            if is_constraints_leaf(leaf): continue
            if leaf[0] == 'vec':
                ok, why, _, _ = aligned_parameter_vec(ctx, body, loops, leaf[1])
                if not ok: return False, 'zipped parameter vector is not index-aligned with self.constraints: ' + why
                nvec += 1; continue
            return False, 'lock-step loop walks %s, which is not self.constraints nor a per-constraint parameter vector' % (leaf[1],)
        if nvec and L.over_constraints: return True, 'zipped with the index-aligned parameter vector'
        return False, 'loop item carries a parameter but the loop does not zip self.constraints with a parameter vector'
    # `&P[i]`: the per-constraint vector indexed with the position of the loop's current constraint
    d = _whole_defs(body, r)
    if L is not None and len(d) == 1 and d[0][0] == 'call':
        c = _callmap(body)[d[0][1]]
        if c.item in ('index', 'index_mut') and (c.trait or '').split('::')[-1] in ('Index', 'IndexMut') and len(c.args) == 2:
            P = vec_of(body, c.args[0]); ir, ifs, icalls = root_of(body, c.args[1])
            a1 = c.args[1]
            is_pos = ir == L.item and 'enumerate' in L.crossed and ifs[-1:] == [('tuple', '0')] and not icalls \
                and a1['k'] in ('copy', 'move') and body.locals[a1['pl']['l']] == 'usize'
            if not is_pos: return False, 'parameter vector is indexed with something else than the position of the current constraint'
            if not (L.over_constraints and all(is_constraints_leaf(x) and x[2] for x in L.leaves)):
                return False, 'the indexing loop does not walk self.constraints alone and in order'
            ok, why, _, _ = aligned_parameter_vec(ctx, body, loops, P) if P is not None else (False, 'vector not traceable', None, None)
            return (True, 'indexed with the constraint position in the index-aligned parameter vector') if ok else (False, 'indexed parameter vector is not index-aligned with self.constraints: ' + why)
    return False, 'parameter comes from _%d, which is neither built in this iteration nor the item of a lock-step loop' % r


def loop_counter_in(body, L, s):
    """does slice `s` contain a value that changes with every iteration of L?  (idioms, one per entry)"""
    # 1. `.enumerate()` on the loop's iterator and the slice reaches the loop item
    if 'enumerate' in L.crossed and L.item in s.locals: return 'enumerate index'
    # 2. `vec.len()` of a vector pushed once per iteration
    for c in s.call_objs:
        if c.item == 'len' and c.args:
            v = recv_root(body, c)
            if v is not None and any(p.bb in L.blocks for p in pushes_into(body, v)): return 'len of the vector being filled'
    # 3. a counter: integer local initialised outside the loop and updated from itself inside it
    for l in s.locals:
        if not re.fullmatch(r'[iu](8|16|32|64|128|size)', body.locals[l]): continue
        ds = _whole_defs(body, l)
        inside = [d for d in ds if d[1] in L.blocks]; outside = [d for d in ds if d[1] not in L.blocks]
        if inside and outside and any(d[0] == 'stmt' and l in _reads(body, d[2]) for d in inside): return 'counter'
    return None


def _reads(body, st, depth=4):
    """locals read (transitively through temporaries, a few steps) by a statement"""
    out = set(); work = []
    def ops_of(rv):
        r = []
        for o in rv.get('ops', []):
            if o['k'] in ('copy', 'move'): r.append(o['pl']['l'])
        if 'pl' in rv: r.append(rv['pl']['l'])
        return r
    work = [(x, depth) for x in ops_of(st['rv'])]
    while work:
        l, d = work.pop()
        if l in out: continue
        out.add(l)
        if d == 0: continue
        for k, bi, x in _whole_defs(body, l):
            if k == 'stmt': work += [(y, d - 1) for y in ops_of(x['rv'])]
    return out


# ---------------------------------------------------------------------------------------------------
# the result value, field by field.  The struct that is returned may be written as a literal, with update syntax
# (`S { a, ..base }`), or as a base value (`S::from(self)`, `S::default()`) whose fields are then assigned,
# taken (`mem::take(&mut s.f)`), or changed in place (`s.f.push(..)`).  `final_field_slice` is the backward slice
# of *the value field f holds at the Ok-exit* in all of these.
from ..dataflow import Slice


# calls whose result / effect is a number about a collection, not its elements: no element of the collection flows on
SCALAR_SUMMARY = re.compile(r'::(len|capacity|is_empty)$|Iterator>::count(::<.*>)?$|::with_capacity$|::reserve(_exact)?$')


def fs_backslice(ctx, body, starts, cut=()):
    """dataflow.Slicer.backslice, with two refinements:
       * a field node (l, f) whose struct l is the result of a crate function ending in a struct literal continues
         in that literal's operand for f only (the stock summary merges all fields of the callee);
       * element flow only: the arguments of `len` / `capacity` / `is_empty` / `count` / `with_capacity` / `reserve`
         are not followed (`Vec::with_capacity(self.items.len())` does not carry the items);
       * `cut`: field nodes (l, f) whose whole-struct definition must not be followed (it is overwritten on every
         path before the value is used, see final_field_slice)."""
    S = ctx.S; g = S.graph(body); E = g.edges; FN = g.field_nodes
    s = Slice(); seen = set(); work = []
    ctx.counters['slices'] += 1
    def push(n):
        if n not in seen: seen.add(n); work.append(n)
    for n in starts: push(n)
    oldrefs = old_value_refs(body)
    def node_local(n_):
        if isinstance(n_, tuple): return n_[1] if n_[0] in ('w', 'o', 'k', 'W') else n_[0]
        return n_
    while work:
        n = work.pop()
        fld = None; cur = n
        if isinstance(n, tuple) and n[0] == 'w':
            l, fld, nocut = n[1], n[2], n[3]
            if not nocut and (l, fld) in cut: continue
            n = l
        elif isinstance(n, tuple) and n[0] == 'o':
            # the field as seen by `mem::take(&mut x.f)` / `mem::replace`: the value it held *before* being overwritten
            l = n[1]; n = (n[1], n[2])
            push(('w', l, n[1], True))
        elif isinstance(n, tuple) and n[0] == 'k':
            # the field as read *after* it was overwritten on every path: what was written since, not what the struct came with
            l = n[1]; n = (n[1], n[2])
        elif isinstance(n, tuple) and n[0] == 'W':
            l = n[1]; n = l; fld = False                  # the whole-value edges of a struct whose fields were pushed one by one
        elif isinstance(n, tuple):
            l = n[0]
            push(('w', l, n[1], False))
        else:
            l = n
            for fn_ in FN.get(l, ()): push(fn_)
            fld = False                                   # whole value: stock behaviour
        if 1 <= l <= body.argc: s.params.add(l)
        for e in E.get(n, ()):
            k = e[0]
            if k == 'L':
                if isinstance(e[3], str) and e[3].startswith(('call:', 'callarg:')) and SCALAR_SUMMARY.search(T.strip_generics_tail(e[3].split(':', 1)[1])): continue
                src = e[1]; sl = src[0] if isinstance(src, tuple) else src
                # (a read of `x.f` after x.f was emptied / overwritten on every path is not a read of what x.f came with;
                #  the read through the `&mut` of the take / drain itself is)
                if e[3] == 'ref' and cur in clear_refs(body): continue          # `x.f.clear()`: the receiver borrow reads no element
                is_old = e[3] == 'ref' and cur in oldrefs
                stale = False
                if isinstance(src, tuple) and len(src) == 2 and isinstance(src[0], int) and not is_old:
                    stale = killed_at(body, src[0], src[1], read_blocks(body, node_local(cur), src[0], src[1]))
                from_input = stale and 1 <= (root_of(body, {'k': 'copy', 'pl': {'l': src[0], 'p': []}})[0] or 0) <= body.argc
                if not from_input:
                    # (only for the input struct is "field read" a statement about the input; elsewhere it just names the field)
                    for af in e[2]: s.fields.add(af)
                    if 1 <= sl <= body.argc:
                        for af in e[2][:1]: s.root_fields.add((sl, af[0], af[1]))
                if stale: push(('k', src[0], src[1])); continue
                if isinstance(src, int) and FN.get(src) and any(strong_field_defs(body, src, fn_[1]) for fn_ in FN[src]):
                    # the struct read as a whole: each field as of this read
                    for fn_ in FN[src]:
                        push(('k',) + fn_ if killed_at(body, src, fn_[1], read_blocks(body, node_local(cur), src, fn_[1])) else fn_)
                    push(('W', src)); continue
                if e[3] == 'ref' and isinstance(src, tuple) and cur in oldrefs: push(('o', src[0], src[1]))
                elif e[3] == 'mutref-back' and src in oldrefs:
                    # what `mem::take` / `mem::replace` wrote through the reference: Default / its second argument
                    for a in (oldrefs[src].args[1:] if 'mem::replace' in oldrefs[src].name else []):
                        if a['k'] in ('copy', 'move'):
                            from ..dataflow import node_of
                            push(node_of(a['pl']))
                        elif a['k'] == 'const': s.consts.add(a['v'])
                    s.calls.add(oldrefs[src].name); s.call_objs.append(oldrefs[src])
                else: push(src)
            elif k == 'C':
                s.consts.add(e[1])
                mm = re.search(r'::promoted\[(\d+)\]$', e[1])
                if mm:
                    pn = e[1] if e[1] in S.F.bodies else '%s::promoted[%s]' % (body.name.split('#')[0], mm.group(1))
                    s.merge_summary(S.whole_body(pn, S.depth - 1))
                if e[2]:
                    s.fnconsts.add(e[2]); S._merge_callee(s, e[2], S.depth)
            elif k == 'F':
                s.calls.add(e[1])
                c = e[2]
                if c is None: continue
                s.call_objs.append(c)
                if fld and e[3] is None and c.dst['l'] == l and not c.dst['p']:
                    cb = crate_callee(body, c); sr = struct_ret_field(cb, fld) if cb is not None else None
                    if sr is not None:
                        s.merge_summary(S.slice_operand(sr[0], sr[1]) if sr[1] is not None else Slice()); continue
                S._merge_callee(s, c.path, S.depth, c.name)
            elif k == 'K':
                s.closures.add(e[1]); s.merge_summary(S.whole_body(e[1], S.depth - 1))
    s.locals = {node_local(n) for n in seen}
    s.nodes = seen
    # a literal hoisted into a named constant (`const KEY: &str = ".."`) is that literal
    for c_ in list(s.consts):
        k_ = c_[6:] if c_.startswith('const ') else c_
        if k_ in S.F.consts: s.consts.add(S.F.consts[k_][1])
    uniq = {}
    for c in s.call_objs: uniq[id(c)] = c
    s.call_objs = list(uniq.values())
    return s


def clear_refs(body):
    """reference locals that only feed `v.clear()`"""
    r = getattr(body, '_c09_clearrefs', None)
    if r is None:
        r = set()
        for c in body.calls:
            if c.item != 'clear' or not INHERENT_SEQ_OWNER.search(c.name) or not c.args or c.args[0]['k'] not in ('copy', 'move'): continue
            l = c.args[0]['pl']['l']
            for _ in range(6):
                r.add(l)
                d = _whole_defs(body, l)
                if len(d) == 1 and d[0][0] == 'stmt' and d[0][2]['rv']['k'] == 'ref' and not fields_of_place(d[0][2]['rv']['pl']): l = d[0][2]['rv']['pl']['l']
                elif len(d) == 1 and d[0][0] == 'stmt' and d[0][2]['rv']['k'] == 'use' and d[0][2]['rv']['ops'][0]['k'] in ('copy', 'move') and not d[0][2]['rv']['ops'][0]['pl']['p']: l = d[0][2]['rv']['ops'][0]['pl']['l']
                else: break
        body._c09_clearrefs = r
    return r


def old_value_refs(body):
    """reference locals (-> the call) that only feed `mem::take` / `mem::replace`: what is read through them is the value the
    place held before the call overwrote it"""
    r = getattr(body, '_c09_oldrefs', None)
    if r is None:
        r = {}
        for c in body.calls:
            if not takes_all(body, c) or not c.args or c.args[0]['k'] not in ('copy', 'move'): continue
            l = c.args[0]['pl']['l']
            for _ in range(6):
                r[l] = c
                d = _whole_defs(body, l)
                if len(d) == 1 and d[0][0] == 'stmt' and d[0][2]['rv']['k'] == 'ref' and not fields_of_place(d[0][2]['rv']['pl']): l = d[0][2]['rv']['pl']['l']
                elif len(d) == 1 and d[0][0] == 'stmt' and d[0][2]['rv']['k'] == 'use' and d[0][2]['rv']['ops'][0]['k'] in ('copy', 'move') and not d[0][2]['rv']['ops'][0]['pl']['p']: l = d[0][2]['rv']['ops'][0]['pl']['l']
                else: break
        body._c09_oldrefs = r
    return r


def strong_field_defs(body, X, f):
    """blocks in which field f of struct local X is given a new value regardless of the old one:
         `x.f = v`;  `mem::take(&mut x.f)` (-> Default);  `mem::replace(&mut x.f, v)`;  `x.f.drain(..)`;  `x.f.clear()`"""
    out = set()
    Xc = root_of(body, {'k': 'copy', 'pl': {'l': X, 'p': []}})[0]        # `let mut this = self;`: the same struct
    for bi, st in body.stmts():
        d = st['dst']
        dp = [q for q in d['p'] if q != '*']
        if d['l'] == X and len(dp) == 1 and isinstance(dp[0], dict) and dp[0].get('f') == f: out.add(bi)
    for c in body.calls:
        if (takes_all(body, c) or (c.item == 'clear' and INHERENT_SEQ_OWNER.search(c.name))) and c.args and vec_of(body, c.args[0]) in ((X, f), (Xc, f)):
            out.add(c.bb)
    return out


def reads_struct(pl, X, f, refs_too=True, is_ref=False):
    """does a place read struct local X as a whole, or its field f?"""
    if pl['l'] != X: return False
    fs = [q for q in pl['p'] if isinstance(q, dict) and 'f' in q]
    if not fs: return True
    return fs[0]['f'] == f and (refs_too or not is_ref)


def read_blocks(body, reader, X, f):
    """blocks of the definitions of local `reader` that read X (whole) or X.f; reader None: every read of X as a whole"""
    out = set()
    for bi in body.live:
        blk = body.blocks[bi]
        for st in blk['st']:
            if 'rv' not in st: continue
            if reader is not None and st['dst']['l'] != reader: continue
            rv = st['rv']
            if reader is None:
                if any(o['k'] in ('copy', 'move') and o['pl']['l'] == X and not [q for q in o['pl']['p'] if q != '*'] for o in rv.get('ops', [])): out.add(bi)
                continue
            if any(o['k'] in ('copy', 'move') and reads_struct(o['pl'], X, f) for o in rv.get('ops', [])) or ('pl' in rv and reads_struct(rv['pl'], X, f)): out.add(bi)
        t = blk['term']
        if t['k'] == 'call':
            if reader is None:
                if any(a_['k'] in ('copy', 'move') and a_['pl']['l'] == X and not [q for q in a_['pl']['p'] if q != '*'] for a_ in t['args']): out.add(bi)
            elif t['dst']['l'] == reader and any(a_['k'] in ('copy', 'move') and reads_struct(a_['pl'], X, f) for a_ in t['args']): out.add(bi)
    return out


def killed_at(body, X, f, bbs):
    """at every read in blocks `bbs`: has the value field f got with the definition of the whole struct X (for a parameter:
    at the entry) been overwritten (strong_field_defs) on every path leading there?"""
    strong = strong_field_defs(body, X, f)
    if not strong or not bbs: return False
    starts = [0] if 1 <= X <= body.argc else []
    for k, bi, d in _whole_defs(body, X):
        if k != 'call' and bi in strong: continue
        starts.append(d['t'] if k == 'call' else bi)
    if not starts: return False
    for bb in bbs:
        if bb in strong:
            # same block: a strong *statement* precedes the block's later reads (the literal / the return move at its end);
            # a strong terminator (take / drain call) comes after every statement of its block
            if body.blocks[bb]['term']['k'] == 'call' and any(c.bb == bb and (takes_all(body, c) or c.item == 'clear') for c in body.calls): return False
            continue
        for st0 in starts:
            if st0 is None or st0 < 0 or not T.must_pass(body, st0, {bb}, strong): return False
    return True


def final_field_slice(ctx, body, X, f):
    """slice of the value `X.f` holds when X is read as a whole (returned, moved on)"""
    stale = killed_at(body, X, f, read_blocks(body, None, X, f))
    return fs_backslice(ctx, body, [('k', X, f) if stale else (X, f)])


WHOLE_TRANSPARENT = re.compile(r'::(clone|to_vec|to_owned|into|from|into_boxed_slice|into_vec|as_ref|deref|borrow)(::<.*>)?$')


def carried_whole(ctx, body, loops, X, f):
    """field f of the result struct X is `self.f` as a whole — every element, none added: moved / cloned / converted, or
    rebuilt by pushing each item of a loop over self.f on every path (a `filter`, a conditional push, a `take(n)` is not).
    returns (ok, why)"""
    def whole(bdy, op, depth=3):
        r, fs, _ = root_of(bdy, op, WHOLE_TRANSPARENT)
        if r is not None and 1 <= r <= bdy.argc and [x for a_, x in fs] == [f]: return True, r
        # a value chosen on different paths (`if .. { A } else { self.f }`, also out of an inlined helper): every definition
        # must be self.f — a branch that substitutes a constant or anything else is not "carried over"
        ds = _whole_defs(bdy, r) if r is not None and not (1 <= r <= bdy.argc) and not fs else []
        if depth and len(ds) >= 2 and all(d_[0] == 'stmt' and d_[2]['rv']['k'] == 'use' and d_[2]['rv']['ops'][0]['k'] in ('copy', 'move') for d_ in ds):
            rs = [whole(bdy, d_[2]['rv']['ops'][0], depth - 1) for d_ in ds]
            if all(x[0] for x in rs) and len({x[1] for x in rs}) == 1: return True, rs[0][1]
        return False, r
    sv = Construction(ctx, body, X, None, None)
    d = _whole_defs(body, X)
    asg = sv.assignments(f)
    op = None; where = body
    if len(asg) == 1 and asg[0][1]['rv']['k'] == 'use': op = asg[0][1]['rv']['ops'][0]
    elif asg: return False, 'field `%s` is assigned more than once' % f
    elif len(d) == 1 and d[0][0] == 'stmt' and d[0][2]['rv']['k'] == 'agg': op = agg_field_operand(d[0][2], f)
    elif len(d) == 1 and d[0][0] == 'call':
        c = _callmap(body)[d[0][1]]; cb = crate_callee(body, c); sr = struct_ret_field(cb, f) if cb is not None else None
        if sr is None or strong_field_defs(body, X, f): return False, 'field `%s` of the value returned by `%s` cannot be traced' % (f, c.item)
        ok, p_ = whole(sr[0], sr[1])
        if not ok: return False, '`%s` does not hand on its argument\'s `%s` as a whole' % (c.item, f)
        a_ = c.args[p_ - 1] if p_ - 1 < len(c.args) else None
        ra = root_of(body, a_, WHOLE_TRANSPARENT)[0] if a_ is not None else None
        return (ra == 1, 'argument of `%s` is not self' % c.item)
    if op is None: return False, 'field `%s` has no traceable initialiser' % f
    if whole(body, op)[0]: return True, ''
    v = vec_of(body, op)
    if isinstance(v, int) and created_empty(body, v):
        sites = pushes_into(body, v)
        Ls = {id(innermost(loops, c.bb)): innermost(loops, c.bb) for c in sites}
        if sites and len(Ls) == 1 and None not in Ls.values():
            L = list(Ls.values())[0]
            if not (len(L.leaves) == 1 and L.leaves[0][0] == 'field' and L.leaves[0][1][0] == 1 and [x for a_, x in L.leaves[0][1][1]] == [f]):
                return False, 'rebuilt in a loop that does not walk self.%s alone' % f
            okp, why = once_per_iteration(body, L, [c.bb for c in sites])
            if not okp: return False, 'rebuilt element by element, but %s (elements are dropped or repeated)' % why
            if not all(root_of(body, c.args[1], WHOLE_TRANSPARENT)[0] == L.item for c in sites): return False, 'rebuilt from something else than the items of self.%s' % f
            return True, ''
    return False, 'not self.%s moved / cloned as a whole, nor rebuilt from each of its items' % f


class Construction:
    """a struct value of some type being built in local X: a literal `T { .. }` (also `T { a, ..base }`), or a base value
    (`T::default()`, a constructor call) completed by field assignments / setters.  Field-wise access for the rules:
    `operand(f)` = the operand that initialises / is assigned to field f when there is exactly one, `slice(f)` = the
    backward slice of the value f finally holds (final_field_slice: strong updates kill the base value)."""
    def __init__(self, ctx, body, X, bb, lit):
        self.ctx = ctx; self.body = body; self.X = X; self.bb = bb; self.lit = lit

    def assignments(self, f):
        return [(bi, st) for bi, st in self.body.stmts() if st['dst']['l'] == self.X and len(st['dst']['p']) == 1
                and isinstance(st['dst']['p'][0], dict) and st['dst']['p'][0].get('f') == f]

    def operand(self, f):
        asg = self.assignments(f)
        if len(asg) == 1 and asg[0][1]['rv']['k'] == 'use': return asg[0][1]['rv']['ops'][0]
        if asg: return None
        return agg_field_operand(self.lit, f) if self.lit is not None else None

    def slice(self, f):
        return final_field_slice(self.ctx, self.body, self.X, f)

    def site(self): return self.body.site(self.bb)


def construction_of(ctx, body, l, adt_suffix):
    if l is None or 1 <= l <= body.argc: return None
    ty = body.locals[l]
    if not (ty == adt_suffix or ty.endswith('::' + adt_suffix)): return None
    d = _whole_defs(body, l)
    if len(d) != 1: return None
    k, bi, x = d[0]
    if k == 'stmt':
        rv = x['rv']
        if rv['k'] == 'agg' and (rv['adt'] == adt_suffix or rv['adt'].endswith('::' + adt_suffix)): return Construction(ctx, body, l, bi, x)
        return None
    # a base value: only if it is completed afterwards (a `..Default::default()` base is just read)
    touched = any(st['dst']['l'] == l and st['dst']['p'] for b2, st in body.stmts()) or \
        any(st['rv']['k'] == 'ref' and st['rv'].get('mut') and st['rv']['pl']['l'] == l for b2, st in body.stmts())
    return Construction(ctx, body, l, bi, None) if touched else None


def constructions(ctx, body, adt_suffix):
    out = [construction_of(ctx, body, l, adt_suffix) for l in range(len(body.locals))]
    return [c for c in out if c is not None and c.bb in body.live]


def construction_carry(ctx, rule, sv, f, need_fields=(), need_calls=(), need_consts=(), not_fields=(), need_params=()):
    sl = sv.slice(f)
    return carry_slice(ctx, rule, sv.body, sl, 'field `%s`' % f, need_fields, need_calls, need_consts, not_fields, sv.site(), need_params)


def result_structs(body, adt_suffix):
    """[(exit block, struct local)] for every Ok-exit: the local holding the struct that is returned"""
    out = []
    for e, k, st in body.ret_assignments():
        if k != 'ok' or 'rv' not in st or not st['rv'].get('ops'): continue
        X = root_of(body, st['rv']['ops'][0])[0]
        if X is not None and not (1 <= X <= body.argc) and body.locals[X].endswith(adt_suffix): out.append((e, X))
    return out


def field_vec(body, X, f):
    """the vector variable behind field f of the result struct X: the local moved into a literal, else the field itself"""
    d = _whole_defs(body, X)
    if len(d) == 1 and d[0][0] == 'stmt' and d[0][2]['rv']['k'] == 'agg' and f in d[0][2]['rv'].get('fields', []) and not strong_field_defs(body, X, f):
        return vec_of(body, agg_field_operand(d[0][2], f))
    return (X, f)


# the largest defined id, one idiom per entry (all on an ordered set / map of the ids, or an explicit maximum)
MAX_IDIOMS = [
    r'BTreeSet::<u64>::(last|pop_last)$',                                                  # ids.last()
    r'BTreeMap::<u64, .*>::(last_key_value|pop_last|last_entry)$',                         # map.last_key_value()
    r'btree_set::(Iter|IntoIter)<.*> as std::iter::DoubleEndedIterator>::next_back$',      # ids.iter().next_back() / into_iter().next_back()
    r'btree_set::(Iter|IntoIter)<.*> as std::iter::Iterator>::(last|max)$',                # ids.iter().last() (ascending order) / .max()
    r'Rev<std::collections::btree_set::(Iter|IntoIter)<.*>> as std::iter::Iterator>::next$',  # ids.iter().rev().next()
    r'Iterator>::(max|max_by_key)(::<.*>)?$',                                              # any_iter_of_ids.max()
    r'Ord>::max$',                                                                         # fold / loop with a.max(b)
]


def fresh_id(ctx, rule, body, op, what, site, fn=None, s=None):
    """new ids derive from the largest defined decision-variable id plus one"""
    if s is None: s = slice_op(ctx, body, op)
    probs = []
    if not s.has_field('v1::DecisionVariable', 'id'): probs.append('does not depend on the defined decision-variable ids')
    if not any(s.has_call(r) for r in MAX_IDIOMS): probs.append('does not take the maximum of the defined ids')
    if not s.has_const(r'^1_u64$'): probs.append('no `+ 1`')
    ctx.check(not probs, rule, 'T-CARRY', fn or body.name, '%s: %s' % (what, '; '.join(probs)), site)
    return s


# ---------------------------------------------------------------------------------------------------
# normal-form extension (see notes): a lazily mapped iterator handed to something that drains it completely
#   * a crate function whose body walks that parameter in a `for` loop left only when the iterator is exhausted
#   * `sum` / `product` of a non-primitive type (the normal form only rewrites sums of numbers)
# is the same as collecting first and handing over the Vec: `g(it.map(K))` -> `for x in it { v.push(K(x)) }; g(v)`
STD_DRAINING = ('sum', 'product')


def drains_param(ctx, cb, p):
    """callee body `cb` walks parameter p in a `for` loop that is only left when the iterator is exhausted"""
    for lo in T.for_loops(cb):
        nextc, header, some_bb, none_bb, blocks = lo
        leaves = seq_sources(cb, nextc.args[0])
        if leaves != [('other', 'parameter _%d' % p, True)]: continue
        early = False
        for b in blocks:
            for s in cb.succ(b):
                if s in blocks or cb.blocks[s]['cleanup'] or s == none_bb: continue
                if cb.is_panic_block(s): continue
                early = True
        if not early: return True
    return False


def eagerise(ctx, body):
    """returns `body`, or a private copy `<fn>#eager` in which every such call is an explicit push loop + the call"""
    from .. import normalize as NZ
    from ..facts import Body
    N = NZ.Normalizer(ctx.F, None, True)
    rw = NZ.Rewriter(body.d); rw.promoted_of = N._promoted_of
    done_any = False
    for bi in range(len(rw.blocks)):
        b = rw.blocks[bi]; t = b['term']
        if b['cleanup'] or t['k'] != 'call' or t.get('synthetic') or t['t'] < 0: continue
        ri = t.get('ri') or {}
        std = (ri.get('trait') or '') == 'std::iter::Iterator' and ri.get('item') in STD_DRAINING
        cb = None if std else ctx.F.bodies.get(t.get('rp') or t.get('fp') or '')
        if not std and (cb is None or cb.kind != 'fn'): continue
        for ai, a in enumerate(t['args'][:1] if std else t['args']):
            if a['k'] not in ('move', 'copy') or a['pl']['p']: continue
            try:
                base, chain = N._walk_chain(rw, a['pl']['l'])
            except Exception:
                continue
            if not chain or not (std or drains_param(ctx, cb, ai + 1)): continue
            span = t.get('span'); line = (span or {}).get('lo', 0)
            orig = dict(t)
            N._strip_adaptors(rw, chain)
            it = rw.new_local('?iter'); coll = rw.new_local('std::vec::Vec<?>')
            b['st'].append(NZ._use(it, a, line))
            head = rw.new_block(); done = rw.new_block()
            o, some = N._emit_next(rw, head, it, span, done)
            entry, last, item_op, cont = N._emit_adaptors(rw, chain, NZ._mv(o, NZ.SOME0), span, head, done)
            rw.goto(some, entry)
            b['term'] = NZ.mk_call('std::vec::Vec::<T>::new', 'std::vec::Vec::<T>::new', None, 'std::vec::Vec::<T>', 'new', [], coll, head, span)
            N._emit_push(rw, last, coll, 'Vec', item_op, span, cont)
            t2 = dict(orig); t2['args'] = [(NZ._mv(coll) if k == ai else x) for k, x in enumerate(orig['args'])]
            rw.blocks[done]['term'] = t2
            done_any = True
            break
    if not done_any: return body
    d = dict(rw.d); d['fn'] = body.name + '#eager'; d['parent'] = body.parent
    nb = Body(d); nb.facts = ctx.F
    return nb


def inline_closure_calls(ctx, body):
    """a local closure called directly (`let mut step = |i, c| {..}; step(a, b);`, any number of times) is replaced by its
    body at each call, captured variables substituted (the normal form only opens closures handed to iterator adaptors).
    Loop bodies moved into a local closure, peeled iterations calling it once more, .. then look like straight code."""
    from .. import normalize as NZ
    from ..facts import Body
    N = NZ.Normalizer(ctx.F, None, True)
    rw = NZ.Rewriter(body.d); rw.promoted_of = N._promoted_of
    done_any = False
    for bi in range(len(rw.blocks)):
        b = rw.blocks[bi]; t = b['term']
        if b['cleanup'] or t['k'] != 'call' or t.get('synthetic') or t['t'] < 0 or len(t['args']) != 2: continue
        cb = ctx.F.bodies.get(t.get('rp') or t.get('fp') or '')
        if cb is None or cb.kind != 'closure': continue
        # the closure value behind the environment argument
        a0 = t['args'][0]
        if a0['k'] not in ('copy', 'move'): continue
        l = a0['pl']['l']; caps = None
        for _ in range(8):
            d = rw.single_def(l)
            if d is None or d[0] != 'stmt': break
            rv = d[2]['rv']
            if rv['k'] == 'ref' and rv['pl']['p'] in ([], ['*']): l = rv['pl']['l']; continue
            if rv['k'] == 'use' and rv['ops'][0]['k'] in ('copy', 'move') and not rv['ops'][0]['pl']['p']: l = rv['ops'][0]['pl']['l']; continue
            if rv['k'] == 'agg' and rv['adt'] == 'closure:' + cb.name: caps = rv['ops']
            break
        if caps is None: continue
        cd = N.body(cb.name)
        # the argument tuple, spread over the closure's parameters
        a1 = t['args'][1]; n = cd['argc'] - 1
        d1 = rw.single_def(a1['pl']['l']) if a1['k'] in ('copy', 'move') and not a1['pl']['p'] else None
        if d1 is not None and d1[0] == 'stmt' and d1[2]['rv']['k'] == 'agg' and d1[2]['rv']['adt'] == 'tuple' and len(d1[2]['rv']['ops']) == n:
            ops = list(d1[2]['rv']['ops'])
        elif a1['k'] in ('copy', 'move'):
            ops = [{'k': 'copy', 'pl': {'l': a1['pl']['l'], 'p': list(a1['pl']['p']) + [{'f': str(k), 'of': 'tuple'}]}} for k in range(n)]
        else: continue
        entry = rw.splice(cd, [NZ._const('()', 'env')] + ops, t['dst'], t['t'], t.get('span'), captures=caps)
        rw.goto(bi, entry)
        done_any = True
    if not done_any: return body
    d = dict(rw.d); d['fn'] = body.name + '#eager'; d['parent'] = body.parent
    nb = Body(d); nb.facts = ctx.F
    return nb


def open_maps_below_enumerate(ctx, body):
    """`for (i, y) in it.map(K).enumerate()`  ->  `for (i, x) in it.enumerate() { let y = K(x); .. }`
    (`map` / `inspect` do not change positions, so they commute with `enumerate`; the normal form only opens the closure
    adaptors directly below the consumer.  Typical source: a helper returning `impl Iterator` that the caller enumerates.)"""
    from .. import normalize as NZ
    from ..facts import Body
    N = NZ.Normalizer(ctx.F, None, True)
    rw = NZ.Rewriter(body.d); rw.promoted_of = N._promoted_of
    done_any = False
    for bi in range(len(rw.blocks)):
        b = rw.blocks[bi]; t = b['term']
        ri = t.get('ri') or {} if t['k'] == 'call' else {}
        if b['cleanup'] or t['k'] != 'call' or (ri.get('trait') or '') != 'std::iter::Iterator' or ri.get('item') != 'next' or t['t'] < 0: continue
        a = t['args'][0]
        if a['k'] not in ('move', 'copy'): continue
        cur = a['pl']['l']; en = None
        for _ in range(10):
            d = rw.single_def(cur)
            if d is None: break
            if d[0] == 'stmt':
                rv = d[2]['rv']
                if rv['k'] == 'ref' and rv['pl']['p'] in ([], ['*']): cur = rv['pl']['l']; continue
                if rv['k'] == 'use' and rv['ops'][0]['k'] in ('move', 'copy') and not rv['ops'][0]['pl']['p']: cur = rv['ops'][0]['pl']['l']; continue
                break
            r2 = d[2].get('ri') or {}
            if (r2.get('trait') or '') == 'std::iter::IntoIterator' and r2.get('item') == 'into_iter' and d[2]['args'] and d[2]['args'][0]['k'] in ('move', 'copy') and not d[2]['args'][0]['pl']['p']:
                cur = d[2]['args'][0]['pl']['l']; continue
            if (r2.get('trait') or '') == 'std::iter::Iterator' and r2.get('item') == 'enumerate': en = d[2]
            break
        if en is None or en['args'][0]['k'] not in ('move', 'copy') or en['args'][0]['pl']['p']: continue
        try:
            base, chain = N._walk_chain(rw, en['args'][0]['pl']['l'])
        except Exception:
            continue
        if not chain or any(k not in ('map', 'inspect') for k, ci, cb_ in chain): continue
        o = t['dst']['l']; sw = t['t']; swt = rw.blocks[sw]['term']
        if swt['k'] != 'switch': continue
        m = dict((v, tb) for v, tb in swt['ts'])
        if 1 not in m or 0 not in m: continue
        some_bb, none_bb = m[1], m[0]
        elem = NZ.SOME0 + [{'f': '1', 'of': 'tuple'}]
        N._strip_adaptors(rw, chain)
        entry, last, item_op, cont = N._emit_adaptors(rw, chain, NZ._mv(o, elem), t.get('span'), bi, none_bb)
        il = rw.new_local('?')
        rw.blocks[last]['st'].append(NZ._use(il, item_op, (t.get('span') or {}).get('lo', 0)))
        rw.goto(last, some_bb)
        swt['ts'] = [[v, (entry if v == 1 else tb)] for v, tb in swt['ts']]
        NZ._subst_prefix(rw, o, elem, il, skip_blocks=set(range(entry, len(rw.blocks))))
        done_any = True
    if not done_any: return body
    d = dict(rw.d); d['fn'] = body.name + '#eager'; d['parent'] = body.parent
    nb = Body(d); nb.facts = ctx.F
    return nb


def open_result_combinators(ctx, body):
    """`r.and_then(K)` / `r.map(K)` on an Option / Result with a closure: replaced by the `match` they stand for, K's body
    in the Some / Ok arm (guards written as one combinator chain `a.with_context(..).and_then(|v| ..).and_then(|b| ..)?`
    are then ordinary tests on ordinary paths)."""
    from .. import normalize as NZ
    from ..facts import Body
    N = NZ.Normalizer(ctx.F, None, True)
    rw = NZ.Rewriter(body.d); rw.promoted_of = N._promoted_of
    done_any = False
    OK0 = [{'dc': 'Ok'}, {'f': '0', 'of': 'std::result::Result::Ok'}]; ERR0 = [{'dc': 'Err'}, {'f': '0', 'of': 'std::result::Result::Err'}]
    for bi in range(len(rw.blocks)):
        b = rw.blocks[bi]; t = b['term']
        if b['cleanup'] or t['k'] != 'call' or t.get('synthetic') or t['t'] < 0 or len(t['args']) != 2: continue
        m = re.search(r'^std::(result::Result|option::Option)::<.*>::(and_then|map)::<', t['r'] or t['f'] or '')
        if not m: continue
        a0 = t['args'][0]
        if a0['k'] not in ('copy', 'move') or a0['pl']['p']: continue
        try:
            ci = N._closure_of(rw, t['args'][1])
        except Exception:
            ci = None
        if ci is None: continue
        cd, caps = ci
        is_res = m.group(1).startswith('result'); item = m.group(2)
        r = a0['pl']['l']; span = t.get('span'); line = (span or {}).get('lo', 0); after = t['t']; dst = t['dst']
        pos = OK0 if is_res else NZ.SOME0
        pos_d, neg_d = (0, 1) if is_res else (1, 0)
        dl = rw.new_local('isize'); okb = rw.new_block(); errb = rw.new_block(); un = rw.new_block()
        b['st'].append(NZ._discr(dl, NZ._pl(r), line))
        b['term'] = {'k': 'switch', 'd': NZ._mv(dl), 'ts': [[pos_d, okb], [neg_d, errb]], 'else': un}
        if item == 'and_then':
            e = rw.splice(cd, [NZ._const('()', 'env'), NZ._mv(r, pos)], dst, after, span, captures=caps)
            rw.goto(okb, e)
        else:
            tmp = rw.new_local(cd['locals'][0]); wrap = rw.new_block()
            e = rw.splice(cd, [NZ._const('()', 'env'), NZ._mv(r, pos)], NZ._pl(tmp), wrap, span, captures=caps)
            rw.goto(okb, e)
            rw.blocks[wrap]['st'].append(NZ._agg(dst, 'std::result::Result::Ok' if is_res else 'std::option::Option::Some', [NZ._mv(tmp)], line=line))
            rw.goto(wrap, after)
        if is_res: rw.blocks[errb]['st'].append(NZ._agg(dst, 'std::result::Result::Err', [NZ._mv(r, ERR0)], line=line))
        else: rw.blocks[errb]['st'].append(NZ._agg(dst, 'std::option::Option::None', [], line=line))
        rw.goto(errb, after)
        done_any = True
    if not done_any: return body
    d = dict(rw.d); d['fn'] = body.name + '#eager'; d['parent'] = body.parent
    nb = Body(d); nb.facts = ctx.F
    return nb


def open_counter_loops(ctx, body):
    """`let mut i = a; while i < n { ..; i += 1; }`  ->  the body is entered through `next()` of the range `a..n` and reads the
    item instead of the counter (the counter and its test stay behind as dead code).  Conditions: i has exactly the initial
    definition outside and `i = i + 1` inside the loop, the increment is passed on every way round and nothing reads i after
    it in the same round, n is not changed inside the loop, the header leaves the loop exactly when `i < n` is false."""
    from .. import normalize as NZ
    from ..facts import Body
    rw = None; done_any = False
    loops = body.loops()
    for h, blocks in sorted(loops.items()):
        t = body.blocks[h]['term']
        if t['k'] != 'switch' or t['d']['k'] not in ('copy', 'move') or t['d']['pl']['p']: continue
        cdefs = [d for d in _whole_defs(body, t['d']['pl']['l'])]
        if len(cdefs) != 1 or cdefs[0][0] != 'stmt' or cdefs[0][1] != h: continue
        rv = cdefs[0][2]['rv']
        if rv['k'] != 'bin' or rv['op'] not in ('Lt', 'Gt', 'Ne'): continue
        a_, b_ = rv['ops']
        if rv['op'] == 'Gt': a_, b_ = b_, a_
        def src(o):
            if o['k'] not in ('copy', 'move') or o['pl']['p']: return None
            l = o['pl']['l']
            for _ in range(4):
                d = _whole_defs(body, l)
                if len(d) == 1 and d[0][0] == 'stmt' and d[0][2]['rv']['k'] == 'use' and d[0][2]['rv']['ops'][0]['k'] in ('copy', 'move') and not d[0][2]['rv']['ops'][0]['pl']['p']:
                    l = d[0][2]['rv']['ops'][0]['pl']['l']
                else: break
            return l
        i = src(a_); n = src(b_)
        if i is None or n is None or not re.fullmatch(r'[iu](8|16|32|64|size)', body.locals[i]): continue
        idefs = _whole_defs(body, i)
        inside = [d for d in idefs if d[1] in blocks]; outside = [d for d in idefs if d[1] not in blocks]
        if len(inside) != 1 or len(outside) != 1 or inside[0][0] != 'stmt' or any(d[1] in blocks for d in _whole_defs(body, n)): continue
        # the increment: `i = i + 1` (plain or overflow-checked)
        irv = inside[0][2]['rv']; inc_stmts = [inside[0][2]]
        def plus_one_of_i(rv_):
            return rv_['k'] == 'bin' and rv_['op'] in ('Add', 'AddWithOverflow') and src(rv_['ops'][0]) == i and rv_['ops'][1]['k'] == 'const' and re.match(r'^1_', rv_['ops'][1]['v'])
        if plus_one_of_i(irv): pass
        elif irv['k'] == 'use' and irv['ops'][0]['k'] in ('copy', 'move') and [q.get('f') for q in irv['ops'][0]['pl']['p'] if isinstance(q, dict)] == ['0']:
            td = _whole_defs(body, irv['ops'][0]['pl']['l'])
            if len(td) != 1 or td[0][0] != 'stmt' or td[0][1] not in blocks or not plus_one_of_i(td[0][2]['rv']): continue
            inc_stmts.append(td[0][2])
        else: continue
        inc_bb = inside[0][1]
        tt, ft = T.switch_sides(body, h, False)
        if rv['op'] in ('Lt', 'Gt', 'Ne') and (tt not in blocks or ft in blocks): continue
        if not T.must_pass(body, tt, {h}, {inc_bb}): continue
        copies = {l for l in range(len(body.locals)) if l != i and src({'k': 'copy', 'pl': {'l': l, 'p': []}}) == i}
        def reads_i(bi_):
            blk = body.blocks[bi_]
            for st in blk['st']:
                if 'rv' not in st or any(st is x for x in inc_stmts) or st is cdefs[0][2]: continue
                ops_ = list(st['rv'].get('ops', [])) + ([{'k': 'copy', 'pl': st['rv']['pl']}] if 'pl' in st['rv'] else [])
                if any(o['k'] in ('copy', 'move') and o['pl']['l'] == i for o in ops_): return True
            tm = blk['term']
            return tm['k'] == 'call' and any(o['k'] in ('copy', 'move') and o['pl']['l'] == i for o in tm['args'])
        after_inc = body.reach([x for x in body.succ(inc_bb)], stop={h})
        if any(reads_i(b2) for b2 in after_inc if b2 in blocks and b2 != h): continue
        # ---- rewrite
        if rw is None: rw = NZ.Rewriter(body.d)
        B = rw.blocks; line = body.blocks[h]['term'].get('span', {}).get('lo', 0) if isinstance(body.blocks[h]['term'].get('span'), dict) else 0
        span = next((B[b2]['term'].get('span') for b2 in sorted(blocks) if B[b2]['term'].get('span')), None)
        R = rw.new_local('std::ops::Range<%s>' % body.locals[i]); i2 = rw.new_local(body.locals[i])
        # preheader: the range `i..n` as of loop entry
        init = outside[0][2]['rv']['ops'][0] if outside[0][0] == 'stmt' and outside[0][2]['rv']['k'] == 'use' and outside[0][2]['rv']['ops'][0]['k'] == 'const' else NZ._cp(i)
        ph = rw.new_block([NZ._agg(R, 'std::ops::Range', [dict(init), NZ._cp(n)], ['start', 'end'], line)], {'k': 'goto', 't': h})
        def retarget(tm, old, new_):
            if tm['k'] in ('goto', 'drop', 'assert') and tm['t'] == old: tm['t'] = new_
            elif tm['k'] == 'call' and tm['t'] == old: tm['t'] = new_
            elif tm['k'] == 'switch':
                tm['ts'] = [[v, (new_ if tb == old else tb)] for v, tb in tm['ts']]
                if tm['else'] == old: tm['else'] = new_
        for b2 in range(len(B)):
            if b2 not in blocks and b2 != ph and not B[b2]['cleanup']: retarget(B[b2]['term'], h, ph)
        # header: item = next(&mut range)
        h2 = rw.new_block(); some = rw.new_block([NZ._use(i2, NZ._cp(0), line)], {'k': 'goto', 't': tt})
        o, some_entry = NZ.Normalizer(ctx.F, None, True)._emit_next(rw, h2, R, span, ft)
        B[some]['st'] = [NZ._use(i2, NZ._cp(o, NZ.SOME0), line)]
        rw.goto(some_entry, some)
        B[h]['term'] = {'k': 'goto', 't': h2}
        # the body reads the item
        def sub(o_):
            if o_['k'] in ('copy', 'move') and o_['pl']['l'] in ({i} | copies) and not any(isinstance(q, dict) and 'ix' in q for q in o_['pl']['p']):
                return {'k': o_['k'], 'pl': {'l': i2, 'p': list(o_['pl']['p'])}}
            return o_
        for b2 in blocks:
            if b2 == h: continue
            for st in B[b2]['st']:
                if 'rv' not in st or any(st.get('line') == x.get('line') and st['rv'] == x['rv'] and st['dst'] == x['dst'] for x in inc_stmts): continue
                if 'ops' in st['rv']: st['rv']['ops'] = [sub(o_) for o_ in st['rv']['ops']]
                if 'pl' in st['rv'] and st['rv']['pl']['l'] in ({i} | copies): st['rv']['pl'] = {'l': i2, 'p': list(st['rv']['pl']['p'])}
            tm = B[b2]['term']
            if tm['k'] == 'call': tm['args'] = [sub(o_) for o_ in tm['args']]
            elif tm['k'] == 'switch': tm['d'] = sub(tm['d'])
        done_any = True
    if not done_any: return body
    d = dict(rw.d); d['fn'] = body.name + '#eager'; d['parent'] = body.parent
    nb = Body(d); nb.facts = ctx.F
    return nb


def _tuple_elems(ty):
    ty = ty.strip()
    if not (ty.startswith('(') and ty.endswith(')')): return None
    out = []; depth = 0; cur = ''
    inner = ty[1:-1]
    for i, ch in enumerate(inner):
        if ch in '(<[': depth += 1
        elif ch in ')]' or (ch == '>' and (i == 0 or inner[i - 1] != '-')): depth -= 1
        if ch == ',' and depth == 0: out.append(cur.strip()); cur = ''
        else: cur += ch
    if cur.strip(): out.append(cur.strip())
    return out


def _vec_tuple_shape(ty):
    """'((Vec<A>, Vec<B>), Vec<C>)' -> [[A', B'], C'] (the Vec type strings); None for anything else"""
    el = _tuple_elems(ty)
    if not el or len(el) < 2: return None
    out = []
    for e in el:
        if e.startswith('std::vec::Vec<'): out.append(e)
        else:
            sub = _vec_tuple_shape(e)
            if sub is None: return None
            out.append(sub)
    return out


def open_unzip(ctx, body):
    """`it.unzip()` / `it.multiunzip()` / `it.collect::<(Vec<_>, Vec<_>, ..)>()`  ->  one Vec per tuple position and the loop
    `for t in it { v0.push(t.0); v1.push(t.1); .. }` (closure adaptors below it opened as usual).  After the rewrite of the
    same consumer in C19.local_form."""
    from .. import normalize as NZ
    from ..facts import Body
    N = NZ.Normalizer(ctx.F, None, True)
    rw = NZ.Rewriter(body.d); rw.promoted_of = N._promoted_of
    done_any = False
    for bi in range(len(rw.blocks)):
        blk = rw.blocks[bi]; t = blk['term']
        if blk['cleanup'] or t['k'] != 'call' or t.get('synthetic') or t['t'] < 0: continue
        ri = t.get('ri') or {}; item = ri.get('item') or ''
        dst = t['dst']
        shape = _vec_tuple_shape(rw.locals[dst['l']]) if not dst['p'] else None
        if item not in ('unzip', 'multiunzip', 'collect') or not re.search(r'iter::Iterator$|Itertools$', ri.get('trait') or '') or shape is None: continue
        if not t['args'] or t['args'][0]['k'] not in ('copy', 'move') or t['args'][0]['pl']['p']: continue
        span = t.get('span'); line = (span or {}).get('lo', 0); after = t['t']
        a = t['args'][0]
        try:
            base, chain = N._walk_chain(rw, a['pl']['l'])
        except Exception:
            continue
        N._strip_adaptors(rw, chain)
        it = rw.new_local('?iter')
        blk['st'].append(NZ._use(it, a, line))
        head = rw.new_block(); done = rw.new_block()
        leaves = []
        def mk(sh, path):
            if isinstance(sh, str):
                cl_ = rw.new_local(sh); leaves.append((path, cl_)); return cl_
            subs = [mk(x, path + [k]) for k, x in enumerate(sh)]
            tl_ = rw.new_local('(?)')
            rw.blocks[done]['st'].append(NZ._agg(tl_, 'tuple', [NZ._mv(x) for x in subs], line=line))
            return tl_
        top = [mk(x, [k]) for k, x in enumerate(shape)]
        cur = bi
        for path, cl_ in leaves:
            nb = rw.new_block()
            rw.blocks[cur]['term'] = NZ.mk_call('std::vec::Vec::<T>::new', 'std::vec::Vec::<T>::new', None, 'std::vec::Vec::<T>', 'new', [], cl_, nb, span)
            cur = nb
        rw.goto(cur, head)
        o, some = N._emit_next(rw, head, it, span, done)
        entry, last, item_op, cont = N._emit_adaptors(rw, chain, NZ._mv(o, NZ.SOME0), span, head, done)
        rw.goto(some, entry)
        il = rw.new_local('(?)')
        rw.blocks[last]['st'].append(NZ._use(il, item_op, line))
        cur = last
        for n_, (path, cl_) in enumerate(leaves):
            nxt = cont if n_ == len(leaves) - 1 else rw.new_block()
            N._emit_push(rw, cur, cl_, 'Vec', NZ._mv(il, [{'f': str(k), 'of': 'tuple'} for k in path]), span, nxt)
            cur = nxt
        rw.blocks[done]['st'].append(NZ._agg(dst, 'tuple', [NZ._mv(c_) for c_ in top], line=line))
        rw.goto(done, after)
        done_any = True
    if not done_any: return body
    d = dict(rw.d); d['fn'] = body.name + '#eager'; d['parent'] = body.parent
    nb = Body(d); nb.facts = ctx.F
    return nb


def open_for_over_bound_iterators(ctx, body):
    """`let it = base.map(K); for x in it { .. }`: the normal form opens `for x in base.map(K)` but not the same pipeline bound
    to a local first (the `into_iter` then receives a copy of the adaptor's result).  The copy is looked through and the
    normal form's own `for` rewrite applied."""
    from .. import normalize as NZ
    from ..facts import Body
    N = NZ.Normalizer(ctx.F, None, True)
    rw = NZ.Rewriter(body.d); rw.promoted_of = N._promoted_of
    patched = False
    for bi in range(len(rw.blocks)):
        t = rw.blocks[bi]['term']
        ri = t.get('ri') or {} if t['k'] == 'call' else {}
        if t['k'] != 'call' or (ri.get('trait') or '') != 'std::iter::IntoIterator' or ri.get('item') != 'into_iter' or not t['args']: continue
        a = t['args'][0]
        if a['k'] not in ('copy', 'move') or a['pl']['p']: continue
        l = a['pl']['l']; hops = 0
        for _ in range(4):
            d = rw.single_def(l)
            if d is not None and d[0] == 'stmt' and d[2]['rv']['k'] == 'use' and d[2]['rv']['ops'][0]['k'] in ('copy', 'move') and not d[2]['rv']['ops'][0]['pl']['p']:
                l = d[2]['rv']['ops'][0]['pl']['l']; hops += 1
            else: break
        d = rw.single_def(l)
        if hops and d is not None and d[0] == 'call' and ((d[2].get('ri') or {}).get('trait') or '') == 'std::iter::Iterator' and (d[2].get('ri') or {}).get('item') in NZ.CLOSURE_ADAPTORS:
            t['args'] = [NZ._mv(l)] + list(t['args'][1:]); patched = True
    if not patched: return body
    changed = False
    for bi in range(len(rw.blocks)):
        t = rw.blocks[bi]['term']
        ri = t.get('ri') or {} if t['k'] == 'call' else {}
        if t['k'] == 'call' and not t.get('synthetic') and (ri.get('trait') or '') == 'std::iter::Iterator' and ri.get('item') == 'next' and t.get('desugared') is True:
            t.pop('desugared', None)
            try:
                if N._desugar_for(rw, bi, t): changed = True
            except Exception:
                pass
    if not changed: return body
    d = dict(rw.d); d['fn'] = body.name + '#eager'; d['parent'] = body.parent
    nb = Body(d); nb.facts = ctx.F
    return nb


RELAX_FN = re.compile(r'impl v1::Instance>::relax_constraint$')


def open_relax_loops(ctx, body):
    """`while let Some(c) = self.constraints.first() { .. self.relax_constraint(c.id, reason, params)?; }` (also `last()`,
    `loop { let Some(c) = .. else { break }; .. }`)  ->  `for c in self.constraints.drain(..) { ..
    self.removed_constraints.push(RemovedConstraint { constraint: Some(c), removed_reason: reason, removed_reason_parameters: params }) }`.
    Uses the summary of relax_constraint that C14 decides on the same tree (RELIES_ON C14.relax_constraint): on success exactly
    the first element with the given id moves from constraints to removed_constraints, wrapped with the given reason and
    parameters, nothing else is written; the only Err is "id not in the list".  Hence, when the id is read from the element just
    obtained from self.constraints and nothing else writes to `self` in the round, the call cannot fail (its `?` is dead) and
    every round moves one element until the list is empty: a walk over all active constraints.
    Conditions checked here: the loop header obtains `first()` / `last()` of self.constraints and leaves the loop on None;
    exactly one relax_constraint call in the loop, on every way round, on `self`, with the id of that element; the call's
    result is consumed by `?` (or the Err side cannot come back into the loop); no other `&mut` borrow of `self` or of
    `self.constraints` inside the loop."""
    from .. import normalize as NZ
    from ..facts import Body
    cm = _callmap(body)
    rw = None
    for h, blocks in sorted(body.loops().items()):
        # the `first()` / `last()` at the top of the round: only borrows / derefs of the list before it
        cands = [c for c in body.calls if c.bb in blocks and c.item in ('first', 'last') and INHERENT_SEQ_OWNER.search(c.name) and c.args and not c.dst['p']
                 and vec_of(body, c.args[0]) == (1, 'constraints')]
        if len(cands) != 1: continue
        hc = cands[0]
        before = [b2 for b2 in blocks if b2 != hc.bb and not body.dominates(hc.bb, b2)]
        if any(b2 in cm and not REF_TRANSPARENT.search(T.strip_generics_tail(cm[b2].name)) for b2 in before) or not body.dominates(h, hc.bb): continue
        o = hc.dst['l']
        arms = T.option_arms(body, o)
        if len(arms) != 1: continue
        sb, m, els = arms[0]
        some_bb = m.get(1, els); none_bb = m.get(0, els)
        if some_bb not in blocks or none_bb in blocks: continue
        rel = [c for c in body.calls if c.bb in blocks and RELAX_FN.search(c.name)]
        if len(rel) != 1: continue
        rc = rel[0]
        if len(rc.args) != 4 or root_of(body, rc.args[0], REF_TRANSPARENT)[0] != 1: continue
        r_, fs_, _c = root_of(body, rc.args[1])
        if r_ != o or [f for a_, f in fs_][-1:] != ['id'] or not any(a_.endswith('Option::Some') for a_, f in fs_): continue
        if not T.must_pass(body, some_bb, {h}, {rc.bb}): continue
        ta = T.try_arms(body, rc.dst['l'])
        if ta is None: continue
        cont_bb, brk_bb, br = ta
        if h in body.reach([brk_bb]): continue
        self_ref = rc.args[0]['pl']['l'] if rc.args[0]['k'] in ('copy', 'move') else None
        other_mut = False; pl_c = None
        for b2 in blocks:
            for st in body.blocks[b2]['st']:
                if 'rv' not in st: continue
                rv = st['rv']
                if rv['k'] in ('ref', 'rawptr') and rv['pl']['l'] == 1:
                    fs2 = [q for q in rv['pl']['p'] if isinstance(q, dict) and 'f' in q]
                    if fs2 and fs2[0]['f'] == 'constraints' and pl_c is None: pl_c = rv['pl']
                    if (rv.get('mut') or rv['k'] == 'rawptr') and (not fs2 or fs2[0]['f'] == 'constraints') and st['dst']['l'] != self_ref: other_mut = True
                if st['dst']['l'] == 1 and st['dst']['p']: other_mut = True
        if other_mut or pl_c is None: continue
        # ---- rewrite
        if rw is None: rw = NZ.Rewriter(body.d)
        B = rw.blocks; span = hc.span; line = (span or {}).get('lo', 0)
        import copy as _copy
        place_c = _copy.deepcopy(pl_c)
        place_r = _copy.deepcopy(pl_c)
        for q in place_r['p']:
            if isinstance(q, dict) and q.get('f') == 'constraints': q['f'] = 'removed_constraints'
        rr = rw.new_local('&mut std::vec::Vec<v1::Constraint>'); rf = rw.new_local('std::ops::RangeFull'); IT = rw.new_local('std::vec::Drain<v1::Constraint>')
        itm = rw.new_local('v1::Constraint'); er = rw.new_local('&v1::Constraint')
        h2 = rw.new_block()
        ph = rw.new_block([NZ._ref(rr, place_c, True, line), NZ._agg(rf, 'std::ops::RangeFull', [], line=line)],
                          NZ.mk_call('std::vec::Vec::<v1::Constraint>::drain::<std::ops::RangeFull>', 'std::vec::Vec::<T>::drain', None, 'std::vec::Vec::<T>', 'drain',
                                     [NZ._mv(rr), NZ._mv(rf)], IT, h, span))
        def retarget(tm, old, new_):
            if tm['k'] in ('goto', 'drop', 'assert') and tm['t'] == old: tm['t'] = new_
            elif tm['k'] == 'call' and tm['t'] == old: tm['t'] = new_
            elif tm['k'] == 'switch':
                tm['ts'] = [[v, (new_ if tb == old else tb)] for v, tb in tm['ts']]
                if tm['else'] == old: tm['else'] = new_
        for b2 in range(len(B)):
            if b2 not in blocks and b2 not in (ph, h2) and not B[b2]['cleanup']: retarget(B[b2]['term'], h, ph)
        o2, some2 = NZ.Normalizer(ctx.F, None, True)._emit_next(rw, h2, IT, span, none_bb)
        B[some2]['st'] = [NZ._use(itm, NZ._mv(o2, NZ.SOME0), line), NZ._ref(er, NZ._pl(itm), False, line)]
        rw.goto(some2, some_bb)
        B[h]['term'] = {'k': 'goto', 't': h2}
        NZ._subst_prefix(rw, o, NZ.SOME0, er, skip_blocks={some2})
        # the call: the element goes to removed_constraints with the given reason and parameters; it cannot fail
        sm = rw.new_local('std::option::Option<v1::Constraint>'); rcl = rw.new_local('v1::RemovedConstraint')
        r2 = rw.new_local('&mut std::vec::Vec<v1::RemovedConstraint>'); out = rw.new_local('()')
        blk = B[rc.bb]; t = blk['term']
        blk['st'] += [NZ._agg(sm, 'std::option::Option::Some', [NZ._mv(itm)], line=line),
                      NZ._agg(rcl, 'v1::RemovedConstraint', [NZ._mv(sm), t['args'][2], t['args'][3]], ['constraint', 'removed_reason', 'removed_reason_parameters'], line),
                      NZ._ref(r2, place_r, True, line)]
        blk['term'] = NZ.mk_call('std::vec::Vec::<v1::RemovedConstraint>::push', 'std::vec::Vec::<T>::push', None, 'std::vec::Vec::<T>', 'push', [NZ._mv(r2), NZ._mv(rcl)], out, cont_bb, t.get('span'))
    if rw is None: return body
    d = dict(rw.d); d['fn'] = body.name + '#eager'; d['parent'] = body.parent
    nb = Body(d); nb.facts = ctx.F
    return nb


def open_up(ctx, body):
    """the body with directly called local closures inlined, `map` below `enumerate` opened, and lazily mapped iterators
    handed to draining consumers made explicit"""
    return eagerise(ctx, open_unzip(ctx, open_maps_below_enumerate(ctx, open_result_combinators(ctx, open_counter_loops(ctx, open_for_over_bound_iterators(ctx, inline_closure_calls(ctx, open_relax_loops(ctx, body))))))))


# `&p * g` is `Linear::from(&p) * g` (parameter.rs): the weight may enter a product as the Parameter itself or converted
WEIGHT_CONV = re.compile(r'From<&?v1::Parameter> for v1::(Linear|Quadratic|Polynomial|Function)>::from$|^<&?v1::Parameter as std::convert::Into<v1::(Linear|Quadratic|Polynomial|Function)>>::into$'
                         r'|From<v1::(Linear|Quadratic|Polynomial)> for v1::(Quadratic|Polynomial|Function)>::from$|^<v1::(Linear|Quadratic|Polynomial) as std::convert::Into<v1::(Quadratic|Polynomial|Function)>>::into$')


def weight_operand(body, a, depth=4):
    """the Parameter behind a factor: the operand itself if it is a (&)Parameter, or the argument of the conversion(s)
    `Linear::from(&p)` / `(&p).into()` / `Function::from(Linear::from(&p))` that made it; None for anything else"""
    for _ in range(depth):
        if a['k'] not in ('copy', 'move'): return None
        if not a['pl']['p'] and PARAM_TY.match(body.locals[a['pl']['l']]): return a
        r = root_of(body, a)[0]
        d = _whole_defs(body, r) if r is not None else []
        if r is not None and PARAM_TY.match(body.locals[r]): return {'k': 'copy', 'pl': {'l': r, 'p': []}}
        if len(d) == 1 and d[0][0] == 'call' and WEIGHT_CONV.search(d[0][2]['r'] or d[0][2]['f']) and d[0][2]['args']:
            a = d[0][2]['args'][0]; continue
        return None
    return None


def is_mul(c):
    return (c.trait or '').endswith('ops::Mul') and c.item == 'mul' and len(c.args) == 2


def from_constraint_function(s):
    return s.has_field('v1::Constraint', 'function') or s.has_call(r'impl v1::Constraint>::function')


def square_sites(ctx, body, so):
    """products whose two operands both derive from a constraint's function, in the objective's slice:
    in this body, or in a closure the slice goes through (a pipeline the normal form leaves alone,
    e.g. `.map(|c| g*g).sum::<Function>()`)"""
    out = []
    for c in so.call_objs:
        if is_mul(c) and all(from_constraint_function(ctx.S.slice_operand(body, a)) for a in c.args):
            out.append(body.site(c.bb))
    for cn in sorted(so.closures):
        cb = ctx.F.bodies.get(cn)
        if cb is None: continue
        for c in cb.calls:
            if is_mul(c) and all(from_constraint_function(ctx.S.slice_operand(cb, a)) for a in c.args):
                out.append(cb.site(c.bb))
    return out


def check_method(ctx, name, uniform):
    body0 = ctx.method('C09.anchor/' + name, INST, name)
    if body0 is None: return
    fn = body0.name
    # ---- coverage of the input message
    cover(ctx, 'C09.cover/' + name, body0, INST, exempt=('parameters',))
    body = open_up(ctx, body0)
    # the property holds for all valid instances: the penalty methods refuse nothing.  On the pinned tree they have no Err-exit
    # at all (the only way out besides Ok is the overflow panic of the id allocation); any Err-exit is a new refusal
    errs = sorted(body.err_exits())
    ctx.check(not errs, 'C09.refusals/%s' % name, 'T-ERRFLOW', fn, 'an Err-exit is reachable (%s): the penalty method refuses some instances' % ', '.join(body.site(b_) for b_ in errs[:3]), body.site())
    results = result_structs(body, 'v1::ParametricInstance')
    if not results:
        ctx.bad('C09.carry/%s/aggregate' % name, 'ANCHOR', fn, 'no Ok-exit returns a v1::ParametricInstance value that can be traced'); return
    loops = [Loop(body, lo) for lo in T.for_loops(body)]
    cloops = [L for L in loops if L.over_constraints]
    ctx.check(bool(cloops), 'C09.loop/%s' % name, 'T-LOOPMUST', fn, 'no loop walks self.constraints itself (found %d loops)' % len(loops), body.site(),
              loops=[L.site(body) for L in cloops])
    paggs = constructions(ctx, body, 'v1::Parameter')
    ctx.check(bool(paggs), 'C09.parameters/%s/constructed' % name, 'T-CARRY', fn, 'no weight parameter (v1::Parameter value) is built', body.site())

    def carry(rule, X, f, **kw):
        sl = final_field_slice(ctx, body, X, f)
        return carry_slice(ctx, rule, body, sl, 'field `%s`' % f, kw.get('need_fields', ()), kw.get('need_calls', ()), (), kw.get('not_fields', ()))

    # results returned only when `self.constraints.is_empty()` (a shortcut for "nothing to relax"): every per-constraint
    # obligation is vacuous there, the rest of the input must still be carried over and the objective kept
    empty_X = set()
    for c in body.calls:
        if c.item == 'is_empty' and c.args and INHERENT_SEQ_OWNER.search(c.name) and vec_of(body, c.args[0]) == (1, 'constraints'):
            for sb, neg in T.bool_flow(body, c.dst['l']):
                tt, ft = T.switch_sides(body, sb, neg)
                if tt is None or ft is None: continue
                rt = body.reach([tt]); rf = body.reach([ft])
                for e, X in results:
                    if e in rt and e not in rf and body.dominates(sb, e): empty_X.add(X)
    if len(empty_X) == len({X for e, X in results}): empty_X = set()          # some result must be the general case
    for X in sorted(empty_X):
        for f in CARRIED + ['removed_constraints']:
            if f != 'removed_constraints': carry('C09.carry/%s/%s' % (name, f), X, f, need_fields=[(INST, f)])
            okw, why = carried_whole(ctx, body, loops, X, f)
            ctx.check(okw, 'C09.carry/%s/%s/all' % (name, f), 'T-LOOPMUST', fn, 'without constraints: %s is not carried over as a whole: %s' % (f, why), body.site())
        carry('C09.carry/%s/objective' % name, X, 'objective', need_fields=[(INST, 'objective')])
        xc = construction_of(ctx, body, X, 'v1::ParametricInstance')
        oop = xc.operand('objective') if xc is not None else None
        orr = root_of(body, oop)[0] if oop is not None else None
        odefs = _whole_defs(body, orr) if orr is not None and not (1 <= orr <= body.argc) else []
        ctx.check(bool(odefs) and all(d_[0] == 'stmt' and d_[2]['rv']['k'] == 'agg' and d_[2]['rv']['adt'].endswith('Option::Some') for d_ in odefs),
                  'C09.objective/%s/always-some' % name, 'T-CARRY', fn, 'without constraints: the objective of the result is not `Some(..)`', body.site())
        pv = field_vec(body, X, 'parameters')
        exits_X = [e for e, X2 in results if X2 == X]
        reaching = [c_ for c_ in (pushes_into(body, pv) if pv is not None else []) if any(e in body.reach([c_.target]) for e in exits_X)]
        ctx.check(pv is not None and created_empty(body, pv) and not reaching, 'C09.parameters/%s/none-without-constraints' % name, 'T-CARRY', fn,
                  'without constraints the result should have no weight parameter', body.site())
    for X in sorted({X for e, X in results} - empty_X):
        for f in CARRIED:
            carry('C09.carry/%s/%s' % (name, f), X, f, need_fields=[(INST, f)])
        # .. and the list of variables is carried over *completely* (not only those that are still used somewhere)
        # (the same for the scalar and message fields: the output field is the input field itself on every path)
        for f in CARRIED:
            okw, why = carried_whole(ctx, body, loops, X, f)
            ctx.check(okw, 'C09.carry/%s/%s/all' % (name, f), 'T-LOOPMUST', fn, '%s is not carried over as a whole: %s' % (f, why), body.site())
        # no active constraints in the result
        carry('C09.carry/%s/constraints' % name, X, 'constraints', not_fields=[(INST, 'constraints'), (INST, 'removed_constraints')])
        # every constraint of the input — already removed ones included — is kept as removed
        carry('C09.carry/%s/removed_constraints' % name, X, 'removed_constraints', need_fields=[(INST, 'constraints'), (INST, 'removed_constraints')])
        # objective = old objective + parameter * g*g
        so = carry('C09.carry/%s/objective' % name, X, 'objective', need_fields=[(INST, 'objective'), (INST, 'constraints')],
                   need_calls=[r'ops::Add.* for v1::Function>::add|Function as std::ops::Add', r'ops::Mul'])
        # an absent objective counts as zero and still gets the penalty: the result's objective is `Some(..)` on every path
        # (`self.objective.map(|f| f + penalty)` leaves None in place and loses the penalty)
        xc = construction_of(ctx, body, X, 'v1::ParametricInstance')
        oop = xc.operand('objective') if xc is not None else None
        orr = root_of(body, oop)[0] if oop is not None else None
        odefs = _whole_defs(body, orr) if orr is not None and not (1 <= orr <= body.argc) else []
        ctx.check(bool(odefs) and all(d_[0] == 'stmt' and d_[2]['rv']['k'] == 'agg' and d_[2]['rv']['adt'].endswith('Option::Some') for d_ in odefs),
                  'C09.objective/%s/always-some' % name, 'T-CARRY', fn, 'the objective of the result is not `Some(..)` on every path (an absent objective must become the penalty alone)', body.site())
        if so is not None:
            # weighted products: a multiplication one operand of which is a Parameter
            wsites = [(c, a, weight_operand(body, a)) for c in so.call_objs if is_mul(c) for a in c.args if weight_operand(body, a) is not None]
            ctx.check(bool(wsites), 'C09.objective/%s/parameter' % name, 'T-CARRY', fn, 'objective does not depend on a product with a weight parameter', body.site())
            sq = square_sites(ctx, body, so)
            ctx.check(bool(sq), 'C09.objective/%s/square' % name, 'T-CARRY', fn,
                      'objective contains no product g*g of a constraint function with itself', body.site(), square_sites=sq)
            # the squares that are summed are those of the constraints that are ACTIVE in the input, each of them, computed by
            # the crate's own `Function * Function`: every product g*g sits in a loop that walks self.constraints itself
            # (not e.g. a filter over the removed list), multiplies the function of that loop's current item, and is
            # passed on every path through the iteration (no filter, no second hand-written way to square next to it)
            msites = [c for c in so.call_objs if is_mul(c) and all(from_constraint_function(ctx.S.slice_operand(body, a)) for a in c.args)]
            probs = []
            if not msites: probs.append('the products g*g are not in this function body (a pipeline the normal form does not open)')
            by_loop = {}
            for c in msites:
                L = innermost(loops, c.bb)
                if L is None or not L.over_constraints or not all(is_constraints_leaf(x) or x[0] == 'vec' for x in L.leaves):
                    probs.append('g*g at %s is not computed in a loop over self.constraints itself' % body.site(c.bb)); continue
                if not all(L.item in ctx.S.slice_operand(body, a).locals for a in c.args):
                    probs.append('g*g at %s does not square the function of the loop\'s current constraint' % body.site(c.bb)); continue
                # .. the constraint's *own* function value: reached from the item through the accessor / field, clones and
                # `None => zero` defaults only — nothing that rewrites it (substitute, partial_evaluate, a scaling) in between.
                # One factor may already carry the weight: `(&p * g) * g`.
                def own_function(a_, depth_=2):
                    r_, fs_, crossed_ = root_of(body, a_, OWN_FUNCTION_T)
                    if r_ == L.item and (any(re.search(r'impl v1::Constraint>::function$', x_) for x_ in crossed_) or ('v1::Constraint', 'function') in fs_ or any(f_ == 'function' for a2_, f_ in fs_)): return True
                    d_ = _whole_defs(body, r_) if r_ is not None else []
                    if depth_ and len(d_) == 1 and d_[0][0] == 'call':
                        m_ = _callmap(body)[d_[0][1]]
                        if is_mul(m_):
                            ws_ = [x_ for x_ in m_.args if weight_operand(body, x_) is not None]
                            rest_ = [x_ for x_ in m_.args if weight_operand(body, x_) is None]
                            return len(ws_) == 1 and len(rest_) == 1 and own_function(rest_[0], depth_ - 1)
                    return False
                if not all(own_function(a) for a in c.args):
                    probs.append('g*g at %s squares something computed from the constraint\'s function (rewritten on the way), not the function itself' % body.site(c.bb)); continue
                by_loop.setdefault(id(L), (L, []))[1].append(c.bb)
            if msites and not probs and not any(T.must_pass(body, L.some_bb, {L.header}, set(bbs)) for L, bbs in by_loop.values()):
                probs.append('a path through the loop over self.constraints does not pass the product g*g (filtered, or squared in another way)')
            ctx.check(not probs, 'C09.objective/%s/square-of-each-active' % name, 'T-LOOPMUST', fn, '; '.join(probs), body.site())
            if not uniform:
                # weight_c multiplies g_c: the parameter and the function belong to the same constraint
                for c, a, pop in wsites:
                    L = innermost(loops, c.bb)
                    ok, how = parameter_origin(ctx, body, loops, L, pop, None)
                    if ok:
                        others = [x for x in c.args if x is not a]
                        so2 = ctx.S.slice_operand(body, others[0]) if others else None
                        if so2 is None or not (L.item in so2.locals and from_constraint_function(so2)):
                            ok, how = False, 'the weight does not multiply the function of the loop\'s current constraint'
                    ctx.check(ok, 'C09.pair/%s/objective' % name, 'T-CARRY', fn, 'weight and squared function of different constraints: ' + how, body.site(c.bb), how=how)
        # parameters of the result
        sp = carry('C09.carry/%s/parameters' % name, X, 'parameters')
        if sp is not None and paggs:
            ctx.check(any(sv.X in sp.locals for sv in paggs), 'C09.parameters/%s/returned' % name, 'T-CARRY', fn,
                      'the weight parameter built here does not reach the result\'s `parameters`', body.site())
        if not uniform:
            # one weight per constraint: `parameters` is a vector filled once per iteration of a constraint loop
            P = field_vec(body, X, 'parameters')
            ok, why, PL, pushed = aligned_parameter_vec(ctx, body, loops, P, need_order=False) if P is not None else (False, 'not traceable', None, [])
            ctx.check(ok, 'C09.parameters/%s/per-constraint' % name, 'T-LOOPMUST', fn, '`parameters` does not hold exactly one weight per constraint: ' + why,
                      PL.site(body) if PL else body.site())

    for sv in paggs:
        bi = sv.bb
        sid = sv.slice('id')
        fresh_id(ctx, 'C09.fresh/%s' % name, body, None, 'weight parameter id', body.site(), fn, s=sid)
        L = innermost(loops, bi)
        if not uniform:
            ctx.check(L is not None and L.over_constraints, 'C09.parameters/%s/in-loop' % name, 'T-LOOPMUST', fn, 'parameter is not created inside a loop over self.constraints', body.site(bi))
            if L is None: continue
            # tagged with that constraint's ID: from `item.id`, and from no other field of the constraint (its own subscripts, name, ..)
            other = [('v1::Constraint', f_) for f_ in (ctx.F.adt_fields('v1::Constraint') or []) if f_ != 'id']
            ss = construction_carry(ctx, 'C09.tags/%s/subscripts' % name, sv, 'subscripts', need_fields=[('v1::Constraint', 'id')], not_fields=other)
            if ss is not None:
                ctx.check(L.item in ss.locals, 'C09.tags/%s/subscripts-of-item' % name, 'T-CARRY', fn, 'subscripts do not derive from the loop\'s current constraint', body.site(bi))
            # id differs per constraint: depends on a value that changes with every iteration
            how = loop_counter_in(body, L, sid)
            ctx.check(how is not None, 'C09.fresh/%s/per-constraint-offset' % name, 'T-CARRY', fn, 'parameter id does not depend on the constraint index', body.site(bi), index=how)
        else:
            ctx.check(L is None, 'C09.parameters/%s/outside-loop' % name, 'T-LOOPMUST', fn, 'uniform parameter is created inside a loop', body.site(bi))

    # ---- each constraint wrapped unchanged and moved to `removed_constraints`, on every path through a constraint loop
    rpush = pushes_into(body, elem_ty='v1::RemovedConstraint')
    moving = [L for L in cloops if any(c.bb in L.blocks and innermost(loops, c.bb) is L for c in rpush)]
    ctx.check(bool(moving), 'C09.loop/%s/moves-constraints' % name, 'T-LOOPMUST', fn, 'no loop over self.constraints pushes onto a Vec<RemovedConstraint>', body.site())
    for L in moving:
        mine = [c for c in rpush if c.bb in L.blocks]
        loop_must(ctx, 'C09.loop/%s/push-removed' % name, body, L.lo, lambda c: c in mine, 'removed_constraints.push')
        for c in mine:
            a = construction_of(ctx, body, root_of(body, c.args[1])[0], 'v1::RemovedConstraint')
            ctx.check(a is not None and a.bb in L.blocks, 'C09.wrap/%s/built' % name, 'T-CARRY', fn, 'the value pushed is not a RemovedConstraint built in this iteration', body.site(c.bb))
            if a is None: continue
            bi = a.bb
            # constraint: Some(item) — the item itself, moved, through no call
            op = a.operand('constraint')
            some = agg_def(body, root_of(body, op)[0], 'Option::Some') if op is not None else None
            inner = some[1]['rv']['ops'][0] if some else None
            r, fs, calls = root_of(body, inner) if inner is not None else (None, [], [])
            ctx.check(r == L.item and not calls, 'C09.wrap/%s/unchanged' % name, 'T-CARRY', fn,
                      'RemovedConstraint.constraint is not the loop item itself', body.site(bi))
            # nothing writes into the loop item before it is wrapped
            writes = []
            for b2, st2 in body.stmts():
                if b2 in L.blocks and st2['dst']['p'] and any(a2.endswith('v1::Constraint') for a2, f in fields_of_place(st2['dst'])):
                    writes.append(body.site(b2))
            ctx.check(not writes, 'C09.wrap/%s/no-write' % name, 'T-CARRY', fn, 'the constraint is modified inside the loop at %s' % writes, body.site(bi))
            if not uniform:
                # the value recorded under "parameter_id" is the id of a weight: read from `parameter.id`, or *the same value* the
                # Parameter built in this iteration got as its id (computed once into a local and used for both)
                st_ = a.slice('removed_reason_parameters')
                shared = []
                for sv_ in paggs:
                    io_ = sv_.operand('id')
                    ir_ = root_of(body, io_)[0] if io_ is not None else None
                    if ir_ is None or sv_.bb not in L.blocks or (1 <= ir_ <= body.argc): continue
                    for c_ in st_.call_objs:
                        if c_.item == 'to_string' and c_.bb in L.blocks and c_.args and root_of(body, c_.args[0], REF_TRANSPARENT)[0] == ir_: shared.append(sv_.X)
                st_ = carry_slice(ctx, 'C09.tags/%s/parameter_id' % name, body, st_, 'field `removed_reason_parameters`',
                                  [] if shared else [('v1::Parameter', 'id')], (), [r'"parameter_id"'], (), a.site(), ())
                # the recorded id is the id of this constraint's weight
                if st_ is not None:
                    # the Parameter values whose `.id` is read for the tag (not every Parameter-typed local of the slice: with
                    # `id: base + parameters.len()` the slice runs through the whole vector and the `..Default::default()` base)
                    idn = [(n[0], n[1]) for n in st_.nodes if isinstance(n, tuple) and len(n) == 2 and isinstance(n[0], int)] + \
                          [(n[1], n[2]) for n in st_.nodes if isinstance(n, tuple) and len(n) == 3 and n[0] == 'k']
                    cands = sorted({l_ for l_, f_ in idn if f_ == 'id' and PARAM_TY.match(body.locals[l_]) and any(b2 in L.blocks for _, b2, _ in body.defs_of(l_))} | set(shared))
                    verdicts = [parameter_origin(ctx, body, loops, L, {'k': 'copy', 'pl': {'l': l, 'p': []}}, None) for l in cands]
                    ok = bool(verdicts) and all(v[0] for v in verdicts)
                    ctx.check(ok, 'C09.pair/%s/tag' % name, 'T-CARRY', fn, '"parameter_id" does not name the weight of this constraint: %s' %
                              ('; '.join(v[1] for v in verdicts if not v[0]) or 'no parameter value found'), body.site(bi), how=[v[1] for v in verdicts])


def check(ctx):
    check_method(ctx, 'penalty_method', False)
    check_method(ctx, 'uniform_penalty_method', True)
    ctx.floor('C09.cover', 16)
    ctx.floor('C09.carry', 28)
    ctx.floor('C09.fresh', 3)
    ctx.floor('C09.wrap', 6)
    ctx.floor('C09.loop', 8)
    ctx.floor('C09.pair', 2)
    ctx.floor('C09.refusals', 2)
    ctx.floor('C09.parameters', 7)
    ctx.floor('C09.objective', 8)
    ctx.floor('C09.tags', 3)
