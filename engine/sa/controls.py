"""Positive controls (E4): every template is run on the fixture crate on every check; the seeded
bad twin must be reported and the good twin must pass.  A silent control is a checker failure."""
import re
from . import templates as T
from .dataflow import Slicer
from .core import Ctx


class _C(Ctx):
    """throw-away context: collects verdicts without touching evidence"""
    def __init__(self, F):
        super().__init__('control', 'quick', F, Slicer(F, depth=4))


def _fn(F, name):
    for n, b in F.bodies.items():
        if b.kind == 'fn' and (n == name or n.endswith('::' + name)): return b
    return None


def _verdict(ctx):
    return bool(ctx.violations)


def run(F, prop, Fnorm=None):
    from .rules import common as K
    from .rules import feas
    results = []          # (name, bad_fired, good_silent)

    def twin(name, fn):
        out = []
        for kind in ('bad', 'good'):
            b = _fn(F, '%s_%s' % (name, kind))
            if b is None:
                out.append(None); continue
            ctx = _C(F)
            try:
                fn(ctx, b)
            except Exception as e:          # a crashing template is a silent control
                out.append(None); continue
            out.append(_verdict(ctx))
        results.append((name, out[0] is True, out[1] is False))

    twin('cover', lambda c, b: K.cover(c, 'ctl/cover', b, 'Msg'))
    def carry(c, b):
        agg = K.find_aggregates(b, 'Out')[0][1]
        K.carry_field(c, 'ctl/carry', b, agg, 'b', need_fields=[('Msg', 'b')])
    twin('carry', carry)
    twin('guard', lambda c, b: K.guard(c, 'ctl/guard', b, lambda x: x.item == 'is_empty', True, 'a.is_empty()'))
    def guard_and(c, b):
        for fld in ('a', 'b'):
            K.guard(c, 'ctl/guard-and/' + fld, b, lambda x, fld=fld: x.item == 'is_empty' and ('Msg', fld) in T.access_path(b, x.args[0])[0], True, fld + '.is_empty()')
    twin('guard_and', guard_and)
    twin('mustcall', lambda c, b: K.mustcall(c, 'ctl/mustcall', b, lambda x: x.item == 'validate', 'validate(m)?'))
    twin('errflow', lambda c, b: K.errflow_calls(c, 'ctl/errflow', b, [x for x in b.calls if x.item == 'get'], 'lookup'))
    twin('errflow_match', lambda c, b: K.errflow_calls(c, 'ctl/errflow-match', b, [x for x in b.calls if x.item == 'get'], 'lookup'))
    def loopmust(c, b):
        for lo in T.for_loops(b): K.loop_must(c, 'ctl/loopmust', b, lo, lambda x: x.item == 'push', 'push')
    twin('loopmust', loopmust)
    # restricted iterator: only a bad twin (good twin = loopmust_good)
    b = _fn(F, 'loopmust_restricted_bad'); ctx = _C(F)
    if b is not None:
        loopmust(ctx, b)
    results.append(('loopmust_restricted', _verdict(ctx), True))
    def atomic(c, b):
        for what, bi, bad in T.check_atomic(b, c.S, c.F):
            c.check(not bad, 'ctl/atomic', 'T-ATOMIC', b.name, 'err after mutation')
    twin('atomic', atomic)
    twin('only', lambda c, b: K.writes_only(c, 'ctl/only', b, {'items'}))
    def table(c, b):
        from .rules.C17 import literal_table
        tab = literal_table(b)
        c.check({'LO', 'UP', 'FX'} <= set(tab), 'ctl/table/keywords', 'T-TABLE', b.name, 'missing keyword')
        rest = b.reach([0], stop={t for t, f, x in tab.values()})
        c.check(not (rest & b.strict_ok_exits()), 'ctl/table/fallthrough', 'T-TABLE', b.name, 'unknown keyword accepted')
    twin('table', table)
    def feas_(c, b):
        cm = []
        for bi, st in b.stmts():
            if st['rv']['k'] == 'bin' and st['rv']['op'] in ('Lt', 'Le', 'Gt', 'Ge') and st['rv'].get('ty') == 'f64':
                cm.append((st['rv']['op'], [T.f64_const(o['v']) for o in st['rv']['ops'] if o['k'] == 'const']))
        c.check(sorted(cm) == [('Lt', [1e-6]), ('Lt', [1e-6])], 'ctl/const', 'T-CONST', b.name, 'comparison shape / tolerance %s' % cm)
    twin('feas', feas_)
    def acc(c, b):
        accs = [l for l, ty in enumerate(b.locals) if ty == 'f64' and len(b.defs_of(l)) >= 2]
        ok = False
        for l in accs:
            init, ups = T.accumulator(b, l)
            if ups: ok = all(op == 'Add' for op, s, x, bi in ups)
        c.check(ok, 'ctl/accumulator', 'T-BRANCHFX', b.name, 'accumulator not updated by +=')
    twin('acc', acc)
    # T-DELEG
    for kind, nm in (('bad', 'SubBad'), ('good', 'SubGood')):
        pass
    def deleg(body):
        calls = [x for x in body.calls if re.search(r'ops::(Add|Neg)$', x.trait or '')]
        kinds = sorted(re.search(r'ops::(\w+)$', x.trait).group(1) for x in calls)
        return kinds == ['Add', 'Neg']
    sb = [b for b in F.bodies.values() if b.kind == 'fn' and b.hdr.get('item') == 'sub' and 'SubBad' in (b.hdr.get('self') or '')]
    sg = [b for b in F.bodies.values() if b.kind == 'fn' and b.hdr.get('item') == 'sub' and 'SubGood' in (b.hdr.get('self') or '')]
    results.append(('deleg', bool(sb) and not deleg(sb[0]), bool(sg) and deleg(sg[0])))
    # T-SCHEMA: in-memory control (no fixture needed)
    from .schema import protoparse as PP
    import tempfile, os
    d = tempfile.mkdtemp()
    try:
        os.makedirs(os.path.join(d, 'x'))
        open(os.path.join(d, 'x', 'm.proto'), 'w').write('syntax = "proto3";\npackage t.v1;\nmessage M { uint64 id = 1; repeated int64 s = 8; oneof o { double c = 2; } }\n')
        msgs, enums, files = PP.load(d)
        m = msgs['t.v1.M']
        exp = {f['name']: (f['number'], PP.wire_of(msgs, enums, 't.v1.M', f)) for f in m['fields']}
        good = exp == {'id': (1, (0, False)), 's': (8, (2, True)), 'c': (2, (1, False))}
        bad_table = {'id': (1, (0, False)), 's': (9, (2, True)), 'c': (2, (1, False))}
        results.append(('schema', exp != bad_table, good))
    finally:
        import shutil; shutil.rmtree(d, ignore_errors=True)
    # ---- the normal form itself (sa.normalize): loops written as iterator chains / code moved into a
    # helper the rules do not know must get the same verdicts from the same templates
    if Fnorm is not None:
        def twin_n(name, fn):
            out = []
            for kind in ('bad', 'good'):
                b = _fn(Fnorm, '%s_%s' % (name, kind))
                if b is None:
                    out.append(None); continue
                ctx = _C(Fnorm)
                try:
                    fn(ctx, b)
                except Exception:
                    out.append(None); continue
                out.append(_verdict(ctx))
            results.append((name, out[0] is True, out[1] is False))

        def n_loop(c, b):
            los = T.for_loops(b)
            c.check(bool(los), 'ctl/norm/loop-found', 'T-LOOPMUST', b.name, 'no loop')
            for lo in los: K.loop_must(c, 'ctl/norm/loopmust', b, lo, lambda x: x.item == 'push', 'push')

        def n_err(c, b):
            calls = [x for x in b.calls if x.item == 'get']
            c.check(bool(calls), 'ctl/norm/get-found', 'T-ERRFLOW', b.name, 'no lookup visible in the function')
            K.errflow_calls(c, 'ctl/norm/errflow', b, calls, 'lookup')
        twin_n('norm_loop', n_loop)
        twin_n('norm_acc', acc)
        twin_n('norm_tryfold', n_err)
        twin_n('norm_helper', n_err)
        twin_n('norm_collect', n_err)
    silent = [n for n, bad_fired, good_ok in results if not (bad_fired and good_ok)]
    return dict(fired=sum(1 for n, b_, g in results if b_), expected=len(results), good_silent=sum(1 for n, b_, g in results if g), silent=silent,
                controls=[n for n, b_, g in results])
