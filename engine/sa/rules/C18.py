"""C18 — MPS round trip (DESIGN §5 C18): the writer emits only what the reader accepts and loses nothing."""
from .common import *
from .C17 import _FACTS, literal_table, keyword_literals, strip_generic_args, Sx, SxLimit, SxOracle, sx_paths, sx_loop_paths, sx_calls, sx_walk, sx_strip, sx_str, failure_is_error, FailCase

VIEW = 'norm'

WRITER_FNS = ('write_mps', 'write_beginning', 'write_rows', 'write_columns', 'write_col_entry', 'write_rhs', 'write_bounds', 'constr_name', 'dvar_name')
LABELS = {'RHS1', 'BND1', 'MARK', 'OBJ'}       # free-form names, not keywords


def writer_bodies(ctx):
    out = {}
    for b in ctx.F.bodies.values():
        if b.kind in ('fn', 'closure') and re.match(r'^mps::to_mps::', b.parent if b.kind == 'closure' else b.name):
            out[b.name] = b
    return out


def templates_of(b):
    """literal pieces of every format template used in body b (and plain byte-string literals written directly)"""
    pieces = []; fmt_consts = set()
    for c in b.calls:
        if 'fmt::Arguments' in c.name and c.item in ('new', 'from_str', 'new_const', 'new_v1'):
            for a in c.args[:1]:
                ex = T.strip_wrappers(T.expr(b, a, depth=6))
                if ex[0] == 'const':
                    fmt_consts.add(ex[1]); pieces += T.decode_fmt_pieces(ex[1])
    for bi, st in b.stmts():
        for o in st['rv'].get('ops', []):
            if o['k'] == 'const' and o['v'].startswith('b"') and o['v'] not in fmt_consts:
                pieces.append(bytes(T._unescape_bytes(o['v'][2:-1])).decode('utf-8', 'replace'))
    for c in b.calls:
        for a in c.args:
            if a['k'] == 'const' and a['v'].startswith('b"') and a['v'] not in fmt_consts:
                pieces.append(bytes(T._unescape_bytes(a['v'][2:-1])).decode('utf-8', 'replace'))
    return pieces


def str_consts_of(b):
    out = []
    for bi, st in b.stmts():
        for o in st['rv'].get('ops', []):
            if o['k'] == 'const' and re.fullmatch(r'"[A-Z\']{1,10}"', o['v']): out.append(o['v'].strip('"'))
    return out


def result_errflow(b, local):
    """T.errflow with the Err/None side chosen by the type of the local: variant 1 of a Result, variant 0 of an Option
    (`r.map_err(f)?`  ≡  `match r { Ok(v) => v, Err(e) => return Err(f(e)) }`)"""
    return T.errflow(b, local, none_variant=1 if b.locals[local].lstrip().startswith('std::result::Result') else 0)


def template_parts(text):
    """literal pieces and placeholders (None), in order, of a `format_args!` template constant as exported by the driver
    (`b"\\x05NAME \\xc0\\x01\\n\\x00"`: length-prefixed pieces, bytes >= 0x80 are placeholders; `"text"`: one piece)"""
    v = text.strip()
    if v.startswith('const '): v = v[6:]
    if v.startswith('b"') and v.endswith('"'):
        raw = T._unescape_bytes(v[2:-1]); parts = []; i = 0
        while i < len(raw):
            n = raw[i]
            if n >= 0x80: parts.append(None); i += 1
            elif n == 0: i += 1
            else: parts.append(bytes(raw[i + 1:i + 1 + n]).decode('utf-8', 'replace')); i += 1 + n
        return parts
    if v.startswith('"') and v.endswith('"'): return [bytes(T._unescape_bytes(v[1:-1])).decode('utf-8', 'replace')]
    return []


def fmt_records(p):
    """what a symbolic path writes: (template constants, displayed values in argument order, block) per write_fmt"""
    out = []
    for e in p.events:
        if e[0] == 'call' and e[1] in ('write_fmt', 'write_all', 'write_str') and len(e[3]) >= 2:
            a = sx_strip(e[3][1]); vals = None
            if a[0] == 'call' and 'fmt::Arguments' in a[2] and a[3]:
                lits = [x[1] for x in sx_walk(a[3][0]) if x[0] == 'const' and (x[1].startswith('b"') or x[1].startswith('"'))]
                arr = sx_strip(a[3][1]) if len(a[3]) > 1 else None
                if arr is not None and arr[0] == 'agg':
                    vals = [sx_strip(c[3][0]) if c[0] == 'call' and c[1].startswith('new_') and c[3] else c for c in (sx_strip(x) for x in arr[3])]
                elif arr is None: vals = []
            else:
                # raw bytes (`out.write_all(b"ROWS..")`): one literal piece
                lits = [x[1][1:] if x[1].startswith('b"') else x[1] for x in sx_walk(a) if x[0] == 'const' and (x[1].startswith('b"') or x[1].startswith('"'))]
                if e[1] != 'write_fmt': vals = []
            if vals is None:
                vals = [sx_strip(c[3][0]) for c in sx_calls(a) if c[1] in ('new_display', 'new_debug', 'new_lower_exp', 'new_upper_exp') and c[3]]
            out.append((lits, vals, e[4]))
    return out


UNKNOWN = '\x00'      # stands for a displayed value that is not a string constant


def record_text(lits, vals):
    """the text of one record: the template with the displayed string constants filled in, UNKNOWN for every other value.  A keyword
    reads the same whether it is part of the template or passed as an argument"""
    parts = template_parts(lits[0]) if lits else []
    def shown(v):
        v = sx_strip(v)
        return v[1][1:-1] if v[0] == 'const' and re.fullmatch(r'"[^"\\\\]*"', v[1]) else UNKNOWN
    holes = sum(1 for x in parts if x is None)
    fill = [shown(v) for v in vals] if holes == len(vals) else [UNKNOWN] * holes
    return ''.join(fill.pop(0) if x is None else x for x in parts)


def displayed_consts(vals):
    return {sx_strip(v)[1].strip('"') for v in vals if sx_strip(v)[0] == 'const' and sx_strip(v)[1].startswith('"')}


def in_writer(cb):
    return cb.kind == 'fn' and cb.name.startswith('mps::to_mps::')


class WritesSucceed(SxOracle):
    def variant(self, sx, v, st):
        return 'Ok' if v[0] == 'call' and v[1] in ('write_fmt', 'write_all', 'write_str') else None


def written_texts(ctx, b):
    """(texts, string constants that were displayed) over the symbolic paths of writer function `b`, its writer helpers looked
    through; None when the function has too many paths"""
    for enter in (in_writer, None):
        try:
            ps = Sx(ctx, b, WritesSucceed(), enter=enter, max_paths=600).run()
        except (SxLimit, RecursionError):
            continue
        texts = set(); shown = set()
        for p in ps:
            for lits, vals, bi in fmt_records(p):
                texts.add(record_text(lits, vals))
                if lits and sum(1 for x in template_parts(lits[0]) if x is None) == len(vals): shown |= displayed_consts(vals)      # (filled in above)
        return texts, shown
    return None


HEADERS = ['NAME', 'OBJSENSE', 'ROWS', 'COLUMNS', 'RHS', 'RANGES', 'BOUNDS', 'ENDATA']      # order of the format


def headers_in(text):
    return [k for k in re.findall(r'^([A-Z]+)\b', text, re.M) if k in HEADERS]


def section_writer(W, header):
    """the writer function whose own templates write the section header `header`: the section's function, or its caller when the
    function has been inlined there (a helper of its own that only writes the header line counts as well)"""
    hits = [b for n, b in sorted(W.items()) if b.kind == 'fn' and any(header in headers_in(p) for p in templates_of(b))]
    # (an extracted helper is part of its caller in the normal form: the caller is the larger one)
    return max(hits, key=lambda b: len(b.blocks)) if hits else None


def reader_tables(ctx):
    tabs = {}
    for key, (ty, fn, trait) in {'sense': ('mps::parser::ObjSense', 'from_str', 'FromStr'), 'sections': ('mps::parser::Cursor', 'from_str', 'FromStr'), 'rows': ('mps::parser::State', 'read_row_field', None),
                                 'bounds': ('mps::parser::State', 'read_bound_field', None), 'markers': ('mps::parser::State', 'read_column_field', None)}.items():
        b = ctx.F.one(ty, fn, trait=trait)
        if b is None:
            ctx.lost('C18.keywords/reader-table', '%s::%s' % (ty, fn)); tabs[key] = set(); continue
        ctx.fn(b); tabs[key] = keyword_literals(ctx, b)          # (in the reader or in the FromStr impl it parses the keyword with)
    hb = ctx.F.one('mps::parser::State', 'read_header')
    tabs['header'] = {c.args[1]['v'].strip('"') for c in hb.calls if c.item == 'strip_prefix' and len(c.args) > 1 and c.args[1]['k'] == 'const'} if hb else set()
    return tabs


class WriterCase(SxOracle):
    """the object being written has the given integer-coded fields {(type suffix, field): number} and bound
    (None: not fixed, 'unset': no bound, (lower, upper)); writes and lookups succeed"""
    def __init__(self, nums=None, bound=None): self.nums = nums or {}; self.bound = bound

    def variant(self, sx, v, st):
        if v[0] == 'call' and v[1] in ('write_fmt', 'write_all', 'intorg', 'intend', 'write_col_entry'): return 'Ok'
        if v[0] == 'call' and v[1] in ('get', 'get_key_value') and 'HashMap::<' in v[2]: return 'Some'
        if self.bound is not None and v[0] == 'field' and v[2] == 'bound' and v[3].endswith('DecisionVariable'): return 'None' if self.bound == 'unset' else 'Some'
        return None

    def num(self, sx, v, st):
        if v[0] == 'field':
            for (adt, f), x in self.nums.items():
                if v[2] == f and v[3].endswith(adt): return x
            if self.bound not in (None, 'unset') and v[3].endswith('v1::Bound') and v[2] in ('lower', 'upper'): return self.bound[0 if v[2] == 'lower' else 1]
        return None


def schema_no(ctx, enum, variant):
    a = ctx.F.adt(enum)
    return {v['name']: v['discr'] for v in a['variants']}.get(variant) if a else None


def shown_keywords(recs, pattern):
    """keywords (group 1 of `pattern`) in the text of the records"""
    return sorted({m.group(1) for lits, vals, bi in recs for m in re.finditer(pattern, record_text(lits, vals), re.M)})


def magic_rules(ctx, W):
    """the integer literals the writer compares sense / equality / kind with are the schema numbers: decided on what is written for
    each value of the field (`match x { 2 => .. }` ≡ `if x == 2` ≡ `matches!(x, 2)`)"""
    R = 'C18.magic'
    # sense: Maximize => MAX, everything else MIN
    b = section_writer(W, 'OBJSENSE')
    if b is None: ctx.lost(R + '/sense', 'write_beginning')
    else:
        ctx.fn(b); maxno = schema_no(ctx, 'v1::instance::Sense', 'Maximize'); got = {}
        for k in range(0, 4):
            ps = sx_paths(ctx, R + '/sense', 'T-CONST', b, WriterCase({('v1::Instance', 'sense'): k}))
            if ps is None: return
            shown = set()
            for p in ps:
                if p.end != 'return': continue
                for lits, vals, bi in fmt_records(p):
                    shown |= {sx_strip(v)[1].split('::')[-1] for v in vals if sx_strip(v)[0] == 'agg' and 'ObjSense::' in sx_strip(v)[1]}
            got[k] = sorted(shown)
        ok = maxno is not None and all(got[k] == (['Max'] if k == maxno else ['Min']) for k in got)
        ctx.check(ok, R + '/sense', 'T-CONST', b.name, 'OBJSENSE written per value of instance.sense is %s; the schema number of SENSE_MAXIMIZE is %s' % (got, maxno), b.site())
    # equality: LessThanOrEqualToZero => "L" else "E"
    b = section_writer(W, 'ROWS')
    if b is None: ctx.lost(R + '/equality', 'write_rows')
    else:
        ctx.fn(b); leno = schema_no(ctx, 'v1::Equality', 'LessThanOrEqualToZero'); got = {}
        loops = sorted([lo for lo in loops_over(ctx, b, 'v1::Instance', 'constraints') if any(c.bb in lo[4] and c.item in ('write_fmt', 'write_all') for c in b.calls)], key=lambda lo: -len(lo[4]))
        for k in range(0, 4) if loops else ():
            ps = sx_loop_paths(ctx, R + '/equality', 'T-CONST', b, WriterCase({('v1::Constraint', 'equality'): k}), loops[0])
            if ps is None: return
            got[k] = sorted({x for p in ps if p.end == 'stop' for x in shown_keywords(fmt_records(p), r'^[ \t]+([A-Z])[ \t]')})
        ok = bool(got) and leno is not None and all(got[k] == (['L'] if k == leno else ['E']) for k in got)
        ctx.check(ok, R + '/equality', 'T-CONST', b.name, 'row kind written per value of constraint.equality is %s; the schema number of LESS_THAN_OR_EQUAL_TO_ZERO is %s' % (got, leno), b.site())
    # kind: {BINARY, INTEGER} => integer markers  (LI / UI: see bounds_rules)
    want = {schema_no(ctx, 'v1::decision_variable::Kind', 'Binary'), schema_no(ctx, 'v1::decision_variable::Kind', 'Integer')}
    b = section_writer(W, 'COLUMNS')
    if b is None: ctx.lost(R + '/kind/write_columns', 'write_columns')
    else:
        ctx.fn(b); got = {}
        # the marker lines written while one variable is processed, whatever state the block tracker is in: 'INTORG' may only be
        # written for an integer / binary variable, 'INTEND' only for another one (the tracker's helpers are looked through, so
        # `intorg()` / `intend()`, one `set_integer(bool)`, or the test written out in the loop are the same)
        def not_entry(cb): return in_writer(cb) and cb.hdr.get('item') != 'write_col_entry'
        loops = sorted(loops_over(ctx, b, 'v1::Instance', 'decision_variables'), key=lambda lo: -len(lo[4]))
        for k in range(0, 5) if loops else ():
            ps = sx_loop_paths(ctx, R + '/kind/write_columns', 'T-CONST', b, WriterCase({('v1::DecisionVariable', 'kind'): k}), loops[0], enter=not_entry)
            if ps is None: return
            got[k] = sorted({m for p in ps if p.end == 'stop' for m in shown_keywords(fmt_records(p), r"'(INT[A-Z]+)'")})
        ok = bool(got) and None not in want and all(got[k] == (['INTORG'] if k in want else ['INTEND']) for k in got)
        ctx.check(ok, R + '/kind/write_columns', 'T-CONST', b.name, 'integer markers written per value of kind are %s; the schema numbers of BINARY/INTEGER are %s' % (got, sorted(x for x in want if x is not None)), b.site())


def keyword_rules(ctx, W):
    R = 'C18.keywords'
    tabs = reader_tables(ctx)
    accepted = set().union(*tabs.values())
    emitted = {}; texts = {}
    for name, b in W.items():
        # every literal piece of a template is written as it stands; a string constant counts where it is displayed (in the text of
        # the record it is part of, helpers looked through) -- one that is never seen displayed counts as a keyword of its own
        toks = []
        for p in templates_of(b):
            toks += re.findall(r"'?[A-Z][A-Z0-9]*'?", p)
        wt = written_texts(ctx, b) if b.kind == 'fn' else None
        texts[name] = wt[0] if wt else None
        for t in (wt[0] if wt else ()):
            toks += re.findall(r"'?[A-Z][A-Z0-9]*'?", t)
        toks += [c for c in str_consts_of(b) if not (wt and c in wt[1])]
        for t in toks:
            emitted.setdefault(t, set()).add(name.split('::')[-1])
    disp = ctx.F.one('mps::parser::ObjSense', 'fmt', trait='Display')
    if disp is not None:
        ctx.fn(disp)
        for t in str_consts_of(disp): emitted.setdefault(t, set()).add('Display for ObjSense')
    ctx.check(len(emitted) >= 12, R + '/tokens-found', 'T-TABLE', 'mps::to_mps', 'only %d keyword-shaped tokens found in the writer templates' % len(emitted))
    for tok, where in sorted(emitted.items()):
        base = re.sub(r'\d+$', '', tok)
        if base in LABELS or tok in LABELS:
            ctx.ok(R + '/label/' + tok, 'T-TABLE', 'mps::to_mps'); continue
        ctx.check(tok in accepted, R + '/accepted/' + tok, 'T-TABLE', 'mps::to_mps::' + sorted(where)[0], 'the writer emits keyword `%s` (in %s) which the reader does not accept' % (tok, sorted(where)), 'rust/ommx/src/mps/to_mps.rs')
    # per class: what is written in a given position is in the reader's table for that position
    # (read off the text of the records: a kind written as part of the template or passed as an argument is the same)
    def kinds_written(b, pattern):
        tx = texts.get(b.name)
        if tx is None: return set(str_consts_of(b)) | {t for p in templates_of(b) for t in re.findall(pattern, p, re.M)}
        return {t for x in tx for t in re.findall(pattern, x, re.M)}
    b = section_writer(W, 'BOUNDS')
    if b is not None:
        bt = kinds_written(b, r'^[ \t]+([A-Z]{2})[ \t]')
        ctx.check(bt <= tabs['bounds'] and bool(bt), R + '/bound-kinds', 'T-TABLE', b.name, 'bound kinds written %s, reader accepts %s' % (sorted(bt), sorted(tabs['bounds'])), b.site())
    b = section_writer(W, 'ROWS')
    if b is not None:
        rk = kinds_written(b, r'^[ \t]+([A-Z])[ \t]')
        ctx.check(rk <= tabs['rows'] and {'L', 'E'} <= rk, R + '/row-kinds', 'T-TABLE', b.name, 'row kinds written %s, reader accepts %s' % (sorted(rk), sorted(tabs['rows'])), b.site())
        # the objective row is written under the shared OBJ_NAME
        objn = ctx.F.consts.get('mps::to_mps::OBJ_NAME', (None, ''))[1].strip('"')
        nrows = [t for p in templates_of(b) for t in re.findall(r' N (\w+)', p)]
        ctx.check(nrows == [objn] and bool(objn), 'C18.ids/objective-row-name', 'T-CONST', b.name, 'the N row is written as %s but the shared objective name is %r' % (nrows, objn), b.site())
    for fn, h in (('write_columns', 'COLUMNS'), ('write_rhs', 'RHS')):
        b = section_writer(W, h)
        if b is None: continue
        wb = ctx.S.whole_body(b.name, 3)
        proms = [ctx.S.whole_body(n, 2) for n in ctx.F.bodies if n.startswith(b.name + '::promoted[')]
        uses = [x for x in wb.consts if 'OBJ_NAME' in x] + [x for p_ in proms for x in p_.consts if 'OBJ_NAME' in x]
        refs = []
        ctx.check(bool(uses or refs), 'C18.ids/objective-name-shared/' + fn, 'T-CONST', b.name, 'objective entries are not written under OBJ_NAME', b.site())


def linear_rules(ctx, W):
    R = 'C18.linear'
    # a function that is not linear (as_linear gives None) makes every path through that call return a typed error -- decided on
    # paths, so `if let .. else`, `let .. else`, `match`, `ok_or_else(..)?` are the same.  (write_rhs may pass over a non-linear
    # OBJECTIVE: it only adds the objective's constant; write_columns refuses it, checked below.)
    n = 0
    for name, b in sorted(W.items()):
        if b.kind != 'fn': continue
        k = sum(1 for bd in [b] + list(ctx.F.closures_of(b)) for c in bd.calls if c.item == 'as_linear' and c.path.endswith('Function>::as_linear'))
        if not k: continue
        n += k
        exempt_objective = b.name.endswith('write_rhs')
        def site(v): return v[1] == 'as_linear' and not (exempt_objective and any(c is not v for c in sx_calls(v, 'objective')))
        res = failure_is_error(ctx, R + '/none-is-error/%s' % b.name.split('::')[-1], 'T-ERRFLOW', b, site, 'None', ('MpsWriteError::InvalidConstraintType', 'MpsWriteError::InvalidObjectiveType'))
        if res is None: continue
        seen, probs = res
        ctx.check(seen >= 1 and not probs, R + '/none-is-error/%s' % b.name.split('::')[-1], 'T-ERRFLOW', b.name, 'a non-linear function is skipped instead of being refused with an error (%s)' % '; '.join(probs[:2]), b.site())
    ctx.check(n >= 3, R + '/sites', 'T-ERRFLOW', 'mps::to_mps', 'expected >= 3 uses of Function::as_linear in the writer, found %d' % n)
    # the error names the offender: InvalidConstraintType{name: row name, degree: func.degree()} -- read off the value returned
    # when as_linear gives None, wherever the aggregate is built (else branch, let-else, closure of ok_or_else)
    b = W.get('mps::to_mps::write_col_entry')
    if b is not None:
        orc = FailCase(lambda v: v[1] == 'as_linear', 'None')
        ps = sx_paths(ctx, R + '/error-names-offender', 'T-CARRY', b, orc)
        if ps is not None:
            errs = [x for p in ps if p.end == 'return' and p.value is not None for x in sx_walk(p.value) if x[0] == 'agg' and x[1].endswith('MpsWriteError::InvalidConstraintType')]
            def ok(x):
                d = dict(zip(x[2], x[3]))
                return 'name' in d and 'degree' in d and any(y == ('param', 3) for y in sx_walk(d['name'])) and any(c[1] == 'degree' and any(y == ('param', 4) for y in sx_walk(c)) for c in sx_calls(d['degree']))
            ctx.check(bool(errs) and all(ok(x) for x in errs), R + '/error-names-offender', 'T-CARRY', b.name, 'InvalidConstraintType does not carry the row name and the degree', b.site())
    b = section_writer(W, 'COLUMNS')
    if b is not None:
        # objective entry goes through write_col_entry with OBJ_NAME and its error is re-labelled as InvalidObjectiveType
        wc = [c for c in b.calls if c.item == 'write_col_entry']
        obj = [c for c in wc if any(x.item == 'objective' for x in ctx.S.slice_operand(b, c.args[3]).call_objs)]
        ctx.check(len(obj) >= 1, R + '/objective-checked', 'T-MUSTCALL', b.name, 'the objective is not written (and checked for linearity) per column', b.site())
        # when writing an entry fails, every path through that call returns Err (`?`, map_err + `?`, an explicit match: the same)
        def is_obj(v): return any(c[1] == 'objective' for c in sx_calls(v))
        for what, pred in (('objective', lambda v: v[1] == 'write_col_entry' and is_obj(v)), ('constraint', lambda v: v[1] == 'write_col_entry' and not is_obj(v))):
            res = failure_is_error(ctx, R + '/column-entry-error/%s' % what, 'T-ERRFLOW', b, pred, 'Err')
            if res is not None:
                ctx.check(res[0] >= 1 and not res[1], R + '/column-entry-error/%s' % what, 'T-ERRFLOW', b.name, 'write_col_entry error is dropped (%s)' % ('; '.join(res[1][:2]) or 'no such call'), b.site())
        # a non-linear objective (write_col_entry reports InvalidConstraintType for the row it was given) is re-labelled
        class ObjNonLinear(FailCase):
            def call(self, sx, node, st):
                if node[1] == 'write_col_entry' and is_obj(node):
                    return ('agg', 'std::result::Result::Err', ('0',), (('agg', 'mps::MpsWriteError::InvalidConstraintType', ('name', 'degree'), (('const', '"OBJ"'), ('const', '2_u32'))),))
                return None
        ps = sx_paths(ctx, R + '/objective-error-type', 'T-ERRFLOW', b, ObjNonLinear(lambda v: False))
        if ps is not None:
            rets = [p for p in ps if p.end == 'return' and p.value is not None and any(e[0] == 'call' and e[1] == 'write_col_entry' and is_obj(('call', e[1], e[2], e[3], e[4], 0)) for e in p.events)]
            ok = bool(rets) and all(any(x[0] == 'agg' and x[1].endswith('MpsWriteError::InvalidObjectiveType') for x in sx_walk(p.value)) for p in rets)
            ctx.check(ok, R + '/objective-error-type', 'T-ERRFLOW', b.name, 'a non-linear objective is not reported as InvalidObjectiveType', b.site())
        # every column x every constraint
        loops = T.for_loops(b)
        con = [c for c in wc if c not in obj]
        # the loop over the columns that writes the objective entry, and inside it the loop over the rows that writes the constraint entries
        outer = [l for l in loops if ctx.S.slice_operand(b, l[0].args[0]).has_field('v1::Instance', 'decision_variables') and any(c.bb in l[4] for c in obj)]
        inner = [l for l in loops if ctx.S.slice_operand(b, l[0].args[0]).has_field('v1::Instance', 'constraints') and any(c.bb in l[4] for c in con) and any(set(l[4]) < set(o[4]) for o in outer)]
        outer = sorted(outer, key=lambda l: -len(l[4]))[:1]; inner = sorted(inner, key=lambda l: len(l[4]))[:1]
        ctx.check(len(outer) == 1 and len(inner) == 1, 'C18.columns/loops', 'T-LOOPMUST', b.name, 'expected a loop over decision_variables containing a loop over constraints', b.site())
        if len(outer) == 1 and len(inner) == 1:
            loop_must(ctx, 'C18.columns/every-constraint', b, inner[0], lambda c: c in con, 'write_col_entry(constraint)')
            loop_must(ctx, 'C18.columns/every-variable', b, outer[0], lambda c: c in obj, 'write_col_entry(objective)')
    b = W.get('mps::to_mps::write_col_entry')
    if b is not None:
        # entry is written iff term.id == var_id and coefficient != 0; all matching terms
        col_entry_rules(ctx, b)


class ColEntryCase(SxOracle):
    """write_col_entry on a linear function: one term whose id is (not) the column's id, with the given coefficient"""
    VAR = 7.0

    def __init__(self, same, coeff): self.same = same; self.coeff = coeff

    def variant(self, sx, v, st):
        if v[0] == 'call' and v[1] == 'as_linear': return 'Some'
        if v[0] == 'call' and v[1] in ('write_fmt', 'write_all'): return 'Ok'
        return None

    def num(self, sx, v, st):
        if v == ('param', 1): return self.VAR
        if v[0] == 'field' and v[3].endswith('linear::Term'):
            if v[2] == 'id': return self.VAR if self.same else self.VAR + 2
            if v[2] == 'coefficient': return self.coeff
        return None


def col_entry_rules(ctx, b):
    """an entry `column row coefficient` is written for exactly the terms with term.id == var_id and coefficient != 0 (all of them)"""
    def writes(c): return c.item in ('write_fmt', 'write_all')
    loops = sorted([lo for lo in T.for_loops(b) if any(c.bb in lo[4] and writes(c) for c in b.calls)], key=lambda lo: -len(lo[4]))
    ok = bool(loops) and any(x.item == 'as_linear' for x in ctx.S.slice_operand(b, loops[0][0].args[0]).call_objs)
    restr = sorted({x.item for x in ctx.S.slice_operand(b, loops[0][0].args[0]).call_objs if x.item in RESTRICTING and 'Iterator' in (x.trait or '')}) if loops else []
    ctx.check(ok and not restr, 'C18.columns/entry/loop', 'T-LOOPMUST', b.name, 'no loop over all the terms of the linear function writes the entries (restricted by %s)' % restr, b.site())
    if not loops: return
    probs = []; n = 0
    for same in (True, False):
        for coeff in (2.5, -1e-9, 1e-300, 0.0):
            orc = ColEntryCase(same, coeff)
            ps = sx_loop_paths(ctx, 'C18.columns/entry/condition', 'T-BRANCHFX', b, orc, loops[0])
            if ps is None: return
            sx = Sx(ctx, b, orc)
            case = 'term.id %s var_id, coefficient %s' % ('==' if same else '!=', coeff)
            done = [p for p in ps if p.end == 'stop']
            if not done: probs.append('%s: the term is not processed' % case)
            for p in done:
                n += 1
                recs = [r for r in fmt_records(p) if r[1]]
                want = same and coeff != 0.0
                if bool(recs) != want: probs.append('%s: entry %s' % (case, 'written' if recs else 'not written'))
                for lits, vals, bi in recs:
                    if want and not (any(sx.conc(v, p) == coeff for v in vals) and all(any(('param', k) in set(sx_walk(v)) for v in vals) for k in (2, 3))):
                        probs.append('%s: the entry is not (column name, row name, coefficient): %s' % (case, [sx_str(v, 3) for v in vals]))
    ctx.check(n > 0 and not probs, 'C18.columns/entry/condition', 'T-BRANCHFX', b.name, 'an entry must be written iff `term.id == var_id && coefficient != 0`: %s' % '; '.join(sorted(set(probs))[:3]), b.site(loops[0][0].bb))


class RhsCase(SxOracle):
    """write_rhs: the objective / the constraint at hand is linear with the given constant (None: not linear)"""
    def __init__(self, obj, con): self.obj = obj; self.con = con

    def _which(self, v):
        if v[0] == 'call' and v[1] == 'as_linear':
            if any(c is not v for c in sx_calls(v, 'objective')): return 'obj'
            if any(c is not v for c in sx_calls(v, 'function')): return 'con'
        return None

    def variant(self, sx, v, st):
        w = self._which(v)
        if w: return 'Some' if getattr(self, w) is not None else 'None'
        if v[0] == 'call' and v[1] in ('write_fmt', 'write_all'): return 'Ok'
        return None

    def num(self, sx, v, st):
        if v[0] == 'field' and v[2] == 'constant' and v[1][0] == 'field' and v[1][3] == 'payload':
            w = self._which(v[1][1])
            if w: return getattr(self, w)
        return None


def rhs_rules(ctx, W):
    """the RHS section carries minus the constant of the objective (under the objective row) and of every constraint; only an
    exact zero may be left out"""
    b = section_writer(W, 'RHS')
    if b is None: return
    R = 'C18.rhs'
    loops = [lo for lo in loops_over(ctx, b, 'v1::Instance', 'constraints') if any(c.bb in lo[4] and c.item == 'as_linear' for c in b.calls)]
    loops = sorted(loops, key=lambda lo: -len(lo[4]))
    restr = sorted({x.item for x in ctx.S.slice_operand(b, loops[0][0].args[0]).call_objs if x.item in RESTRICTING and 'Iterator' in (x.trait or '')}) if loops else []
    ctx.check(len(loops) >= 1 and not restr, R + '/loop', 'T-LOOPMUST', b.name, 'no loop over all constraints (restricted by %s)' % restr, b.site())
    header = loops[0][1] if loops else None
    res = {}
    for what, cs in (('negated', (3.5, -2.0)), ('only-zero-omitted', (1e-9, 1e-300, -3e-17))):          # only an EXACT zero may be left out: numbers below any epsilon are sampled too (seed C18-19)
        probs = []; n = 0
        for c in cs:
            # objective
            orc = RhsCase(c, None)
            ps = sx_paths(ctx, R + '/' + what, 'T-BRANCHFX', b, orc, 0, {header} if header is not None else ())
            if ps is None: return
            sx = Sx(ctx, b, orc)
            done = [p for p in ps if p.end == 'stop' or (p.end == 'return' and header is None)]
            if not done: probs.append('objective constant %s: the section is not written' % c)
            for p in done:
                n += 1
                if not any(sx.conc(v, p) == -c for lits, vals, bi in fmt_records(p) for v in vals):
                    probs.append('objective constant %s: no record with %s (%s)' % (c, -c, [[sx_str(v, 3) for v in vals] for lits, vals, bi in fmt_records(p) if vals]))
            # constraints
            if loops:
                orc = RhsCase(0.0, c)
                ps = sx_loop_paths(ctx, R + '/' + what, 'T-BRANCHFX', b, orc, loops[0])
                if ps is None: return
                sx = Sx(ctx, b, orc)
                done = [p for p in ps if p.end == 'stop']
                if not done: probs.append('constraint constant %s: the constraint is not processed' % c)
                for p in done:
                    n += 1
                    recs = [(lits, vals) for lits, vals, bi in fmt_records(p) if any(sx.conc(v, p) == -c for v in vals)]
                    if not recs: probs.append('constraint constant %s: no record with %s' % (c, -c))
                    elif not any(is_name_value(v, 'constr_name', 'CONSTR_PREFIX') for lits, vals in recs for v in vals): probs.append('constraint constant %s: the record is not under the row name of the constraint' % c)
        ctx.check(n > 0 and not probs, R + '/' + what, 'T-BRANCHFX', b.name,
                  ('RHS entries are not the negated constants: %s' if what == 'negated' else 'a non-zero constant is left out of the RHS section: %s') % '; '.join(sorted(set(probs))[:3]), b.site())


def bounds_rules(ctx, W):
    """every used variable gets an upper and a lower bound record with the keyword of its end and kind; an unset bound is written
    with its documented meaning ((-inf, inf), [0, 1] for binaries), never left to the MPS default; decided on the records written
    for each combination of kind and bound"""
    R = 'C18.bounds'
    b = section_writer(W, 'BOUNDS')
    if b is None:
        ctx.lost(R, 'write_bounds'); return
    ctx.fn(b)
    loops = [lo for lo in T.for_loops(b) if ctx.S.slice_operand(b, lo[0].args[0]).has_call(r'impl v1::Instance>::used_decision_variable_ids')]
    loops = sorted(loops, key=lambda lo: -len(lo[4]))[:1]
    ctx.check(len(loops) == 1, R + '/loop', 'T-LOOPMUST', b.name, 'no loop over the used variable ids', b.site())
    binno = schema_no(ctx, 'v1::decision_variable::Kind', 'Binary'); intno = schema_no(ctx, 'v1::decision_variable::Kind', 'Integer')
    inf = float('inf')
    for lo in loops:
        nextc, header, some_bb, none_bb, blocks = lo
        miss = {'upper': [], 'lower': []}; count = []; ends = []; unset = []; kinds = {}; n = 0
        for k in range(0, 5):
            for bound in ((0.0, 5.0), (-2.5, inf), 'unset'):
                orc = WriterCase({('v1::DecisionVariable', 'kind'): k}, bound)
                ps = sx_loop_paths(ctx, R + '/two-records', 'T-LOOPMUST', b, orc, lo)
                if ps is None: return
                sx = Sx(ctx, b, orc)
                done = [p for p in ps if p.end == 'stop']
                lo_, up_ = bound if bound != 'unset' else ((0.0, 1.0) if k == binno else (-inf, inf))
                case = 'kind=%s bound=%s' % (k, bound)
                if not done: count.append('%s: the variable is not processed' % case)
                for p in done:
                    n += 1
                    recs = []
                    for lits, vals, bi in fmt_records(p):
                        kws = shown_keywords([(lits, vals, bi)], r'^[ \t]+([A-Z]{2})[ \t]'); nums = [x for x in (sx.conc(v, p) for v in vals) if isinstance(x, float)]
                        if kws or nums: recs.append((kws[0] if kws else None, nums[0] if nums else None, any(is_name_value(v, 'dvar_name', 'VAR_PREFIX') for v in vals)))
                    if len(recs) != 2 or not all(nm for kw, x, nm in recs): count.append('%s: records %s' % (case, recs))
                    for what, val in (('upper', up_), ('lower', lo_)):
                        hit = [kw for kw, x, nm in recs if x == val]
                        if not hit:
                            (unset if bound == 'unset' else miss[what]).append('%s: no record for the %s bound %s (records %s)' % (case, what, val, recs))
                        elif not all(kw and kw[0] == ('U' if what == 'upper' else 'L') for kw in hit): ends.append('%s: %s bound written as %s' % (case, what, hit))
                    kinds.setdefault(k, set()).update(kw for kw, x, nm in recs if kw)
        for what in ('upper', 'lower'):
            ctx.check(n > 0 and not miss[what], R + '/every-variable/' + what, 'T-LOOPMUST', b.name,
                      'a used variable can pass through the loop without its %s bound being written (the MPS default [0,+inf) would apply on reading): %s' % (what, '; '.join(miss[what][:2])), b.site(nextc.bb))
        ctx.check(n > 0 and not count, R + '/two-records', 'T-LOOPMUST', b.name, 'expected one upper and one lower bound record per variable, under its generated name: %s' % '; '.join(count[:2]), b.site(nextc.bb))
        ctx.check(n > 0 and not ends, R + '/keyword-matches-end', 'T-CARRY', b.name, 'bound keywords are not paired (lower: LI/LO, upper: UI/UP) with the bound they describe: %s' % '; '.join(ends[:2]), b.site(nextc.bb))
        ctx.check(n > 0 and not unset, R + '/unset-bound-domain', 'T-SIBLING', b.name, 'an unset bound is not written as (-inf, +inf) / [0, 1] for binaries: %s' % '; '.join(unset[:2]), b.site(nextc.bb))
        got = {k: sorted(v) for k, v in kinds.items()}
        ok = bool(got) and all(got[k] == (['LI', 'UI'] if k in (binno, intno) else ['LO', 'UP']) for k in got)
        ctx.check(ok, 'C18.magic/kind/write_bounds', 'T-CONST', b.name, 'bound keywords per value of kind are %s; the schema numbers of BINARY/INTEGER are %s' % (got, sorted(x for x in (binno, intno) if x is not None)), b.site(nextc.bb))
        # unknown id => InvalidVariableId
        res = failure_is_error(ctx, R + '/unknown-id-is-error', 'T-ERRFLOW', b, lambda v: v[1] in ('get', 'get_key_value') and 'HashMap::<' in v[2], 'None', 'MpsWriteError::InvalidVariableId')
        if res is not None:
            goes_on = [x for x in res[1] if x.startswith('the function goes on')]
            ctx.check(res[0] >= 1 and not goes_on, R + '/unknown-id-is-error', 'T-ERRFLOW', b.name, 'unknown variable id: %s' % ('; '.join(goes_on[:2]) or 'no lookup by id'), b.site(nextc.bb))
            ctx.check(res[0] >= 1 and not res[1], R + '/unknown-id-typed', 'T-ERRFLOW', b.name, 'unknown id is not reported as InvalidVariableId', b.site())


def slice_consts(ctx, b, si):
    """constants of a slice, those of the promoted constants it refers to included (`{VAR_PREFIX}` in a format string is one)"""
    cs = set(si.consts)
    for x in list(cs):
        m = re.search(r'promoted\[(\d+)\]', x)
        if m:
            for nm in ('%s::promoted[%s]' % (b.name, m.group(1)), '%s::promoted[%s]' % (getattr(b, 'parent', None) or b.name, m.group(1))):
                if nm in ctx.F.bodies: cs |= set(ctx.S.whole_body(nm, 2).consts)
    return cs


def generated_name(ctx, b, operand, fn, const, field):
    """the operand is a name generated from the id: it comes from `fn(..)` or from a format of the shared prefix `const`, and no field
    of the object other than its id flows into it"""
    si = ctx.S.slice_operand(b, operand)
    made = any(x.item == fn for x in si.call_objs) or (any(x.item == 'format' for x in si.call_objs) and any(const in x for x in slice_consts(ctx, b, si)))
    others = sorted({f for a, f in si.fields if a.endswith(field[0]) and f != field[1]})
    return made and not others


def is_name_value(v, fn, const):
    """a displayed value is a generated name: `fn(x)` or format!("{PREFIX}{id}") written out where it is used"""
    if sx_calls(v, fn): return True
    return bool(sx_calls(v, 'format')) and any(x[0] == 'const' and const in x[1] for x in sx_walk(v))


def ids_rules(ctx, W):
    R = 'C18.ids'
    vp = ctx.F.consts.get('mps::to_mps::VAR_PREFIX'); cp = ctx.F.consts.get('mps::to_mps::CONSTR_PREFIX')
    ctx.check(bool(vp) and bool(cp) and vp[1] != cp[1], R + '/prefix-constants', 'T-CONST', 'mps::to_mps', 'shared prefixes: %s %s' % (vp, cp))
    for fn, const, field in (('dvar_name', 'VAR_PREFIX', ('v1::DecisionVariable', 'id')), ('constr_name', 'CONSTR_PREFIX', ('v1::Constraint', 'id'))):
        # the places where a name is made: format!("{PREFIX}{id}") in the naming function or, when that helper has been inlined, where
        # the name is used.  Each is the shared prefix + the id and nothing else (no literal piece, no other field of the object)
        sites = []
        for n, wb in sorted(W.items()):
            for c in wb.calls:
                if c.item == 'format' and c.args:
                    si = ctx.S.slice_operand(wb, c.args[0]); cs = slice_consts(ctx, wb, si)
                    if any(const in x for x in cs): sites.append((wb, c, si, cs))
        bad = []
        for wb, c, si, cs in sites:
            ctx.fn(wb)
            lits = [p_ for x in cs if x.startswith('b"') or x.startswith('"') for p_ in T.decode_fmt_pieces(x) if p_.strip()]
            others = sorted({f for a, f in si.fields if a.endswith(field[0]) and f != field[1]})
            if not si.has_field(*field) or lits or others: bad.append('%s (line %s): literal pieces %s, other fields %s' % (wb.name.split('::')[-1], wb.site(c.bb).split(':')[-1], lits, others))
        b = W.get('mps::to_mps::' + fn)
        if b is not None:
            # the naming function as a whole: a function of the id only (its other arms included)
            ctx.fn(b)
            s = ctx.S.backslice(b, [0])
            others = sorted({f for a, f in s.fields if a.endswith(field[0]) and f != field[1]})
            lits = [p for p in templates_of(b) if p.strip()]
            if not s.has_field(*field) or lits or others: bad.append('%s: literal pieces %s, other fields %s' % (fn, lits, others))
        ctx.check((bool(sites) or b is not None) and not bad, R + '/%s/prefix-plus-id' % fn, 'T-CARRY', 'mps::to_mps', 'a generated name is not exactly <%s><id>: %s' % (const, '; '.join(bad[:3]) or 'no place found where the name is made'), sites[0][0].site(sites[0][1].bb) if sites else '')
    # the reader's recovery uses the same constants
    for fn, const in (('convert_dvars', 'VAR_PREFIX'), ('convert_constraints', 'CONSTR_PREFIX')):
        b = ctx.free_fn(R + '/reader/%s/anchor' % fn, 'mps::convert::' + fn)
        if b is None: continue
        used = set()
        for cb in [b] + ctx.F.closures_of(b):
            for c in cb.calls:
                if c.item == 'parse_id_tag':
                    ex = T.strip_wrappers(T.expr(cb, c.args[0]))
                    used.add(ex[1] if ex[0] == 'const' else T.expr_str(ex, 3))
            for bi, st in cb.stmts():
                for o in st['rv'].get('ops', []):
                    if o['k'] == 'const' and 'to_mps::' in o['v']: used.add(o['v'])
        ctx.check(any(const in x for x in used) and not any(('VAR_PREFIX' in x or 'CONSTR_PREFIX' in x) and const not in x for x in used), R + '/reader/%s/same-prefix' % fn, 'T-CONST', b.name,
                  'id recovery does not use the writer\'s %s (uses %s)' % (const, sorted(used)), b.site())
    pb = ctx.free_fn(R + '/parse_id_tag/anchor', 'mps::convert::parse_id_tag')
    if pb is not None:
        # decided on the returned value: with the prefix present the id is parse(<name after strip_prefix(prefix)>), without it None
        # (`?`, and_then / map with a closure, match, if-let alike)
        def strips(x): return x[0] == 'call' and x[1] == 'strip_prefix' and len(x[3]) == 2 and ('param', 2) in set(sx_walk(x[3][0])) and ('param', 1) in set(sx_walk(x[3][1]))
        class Prefix(SxOracle):
            def __init__(self, there): self.there = there
            def variant(self, sx, v, st):
                if v[0] == 'call' and v[1] == 'strip_prefix': return 'Some' if self.there else 'None'
                if v[0] == 'call' and v[1] == 'parse': return 'Ok'
                return None
        ok = True; n = 0
        for there in (True, False):
            ps = sx_paths(ctx, R + '/parse_id_tag/strips-then-parses', 'T-CARRY', pb, Prefix(there))
            if ps is None: ok = False; break
            sx = Sx(ctx, pb, Prefix(there))
            for p in ps:
                if p.end != 'return' or p.value is None: continue
                n += 1
                if there:
                    pcs = [c for c in sx_calls(p.value, 'parse') if 'u64' in c[2]]
                    ok = ok and sx.variant(p.value, p) == 'Some' and bool(pcs) and all(c[3] and sx_strip(c[3][0])[0] == 'field' and sx_strip(c[3][0])[3] == 'payload' and strips(sx_strip(c[3][0])[1]) for c in pcs)
                else:
                    ok = ok and sx.variant(p.value, p) == 'None' and not p.calls('parse')
        ctx.check(ok and n >= 2, R + '/parse_id_tag/strips-then-parses', 'T-CARRY', pb.name, 'id is not parsed from the name after the prefix (and only when the prefix is there)', pb.site())


class SectionsWritten(SxOracle):
    """the writes and the writer functions selected by `ok` succeed"""
    def __init__(self, ok): self.ok = ok

    def variant(self, sx, v, st):
        return 'Ok' if v[0] == 'call' and self.ok(v) else None


def section_rules(ctx, W, wm):
    """on every successful path of write_mps the sections NAME, OBJSENSE, ROWS, COLUMNS, RHS, BOUNDS, ENDATA are written in the order
    of the format, and a failure while writing one of them is the function's failure.  Decided on the header lines that reach the
    output along the paths: a section written by its own function (whose header lines are read off that function), by a function
    with another name, or in place in write_mps is the same; so are `?`, `and_then` chains and a tail expression returning the
    last Result."""
    R = 'C18.sections'
    names = {strip_generic_args(n).split('::')[-1]: b for n, b in W.items() if b.kind == 'fn' and b is not wm}
    def is_writer_call(v): return v[1] in names and 'mps::to_mps::' in v[2]
    def is_write(v): return v[1] in ('write_fmt', 'write_all', 'write_str')
    # header lines of each writer function called from write_mps (loops entered at most once: headers are not written in loops)
    heads = {}
    def heads_of(fn):
        if fn not in heads:
            heads[fn] = None
            try:
                ps = Sx(ctx, names[fn], SectionsWritten(lambda v: is_write(v) or is_writer_call(v)), max_visits=1, max_paths=400).run()
                sx = Sx(ctx, names[fn]); seqs = set()
                for p in ps:
                    if p.end == 'return' and p.value is not None and sx.variant(p.value, p) != 'Err':
                        seqs.add(tuple(h for e in p.events for h in event_heads(e)))
                if len(seqs) == 1: heads[fn] = list(seqs.pop())
            except (SxLimit, RecursionError):
                pass
        return heads[fn]
    def event_heads(e):
        if e[0] != 'call': return []
        if is_write(e) and len(e[3]) >= 2:
            class P: events = [e]
            return [h for lits, vals, bi in fmt_records(P) for h in headers_in(record_text(lits, vals))]
        if is_writer_call(e):
            hs = heads_of(e[1])
            return hs if hs is not None else ['?' + e[1]]
        return []
    ps = sx_paths(ctx, R + '/order', 'T-BRANCHFX', wm, SectionsWritten(lambda v: False))
    if ps is None: return
    sx = Sx(ctx, wm, SxOracle())
    oks = [[h for e in p.events for h in event_heads(e)] for p in ps if p.end == 'return' and p.value is not None and sx.variant(p.value, p) != 'Err']       # Ok, or the Result of the last write returned as it is
    want = [h for h in HEADERS if h != 'RANGES']
    for h in want:
        # what writes the header: a call of a writer function, or a write in write_mps itself
        def site(v, h=h): return v[0] == 'call' and h in event_heads(('call', v[1], v[2], v[3], v[4], None))
        res = failure_is_error(ctx, R + '/' + h, 'T-MUSTCALL', wm, site, 'Err')
        if res is None: continue
        ctx.check(bool(oks) and all(h in o for o in oks) and res[0] >= 1 and not res[1], R + '/' + h, 'T-MUSTCALL', wm.name,
                  'section %s is not written on every successful path with the error of writing it propagated (%s)' % (h, '; '.join(res[1][:2]) or 'sections written: %s' % (oks[:1] or 'none')), wm.site())
    ctx.check(bool(oks) and all([h for h in o if h != 'RANGES'] == want for o in oks), R + '/order', 'T-BRANCHFX', wm.name, 'sections are written in the order %s, the format has %s' % (oks[:1] or 'none', want), wm.site())


def output_rules(ctx, W):
    """the written file is the whole text: the entry point write_file hands the instance to write_mps on every successful path (its
    failure is the function's failure), and no byte sink in the writer may take only part of what it is given -- `io::Write::write`
    (and write_vectored) return how much they accepted; they are allowed only inside a loop that goes on with the rest
    (write_all / write! / writeln! do that themselves)"""
    R = 'C18.output'
    bodies = dict(W)
    for n, b in ctx.F.bodies.items():
        if b.kind in ('fn', 'closure') and re.match(r'^mps::write_file\b', b.parent if b.kind == 'closure' else n): bodies[n] = b
    partial = []
    for n, b in sorted(bodies.items()):
        for c in b.calls:
            if c.item in ('write', 'write_vectored') and ('io::Write' in (c.trait or '') or re.search(r' as std::io::Write>::write(_vectored)?$', c.name)):
                nxt = [x for x in b.succ(c.bb) if not b.blocks[x]['cleanup']]
                if c.bb not in b.reach(nxt): partial.append('%s (line %s)' % (n.split('::')[-1], b.site(c.bb).split(':')[-1]))
    ctx.check(not partial, R + '/no-partial-write', 'T-MUSTCALL', 'mps', 'io::Write::write may accept only part of the buffer and is not repeated for the rest: %s' % ', '.join(partial[:3]), '')
    wf = ctx.F.free_fn('mps::write_file')
    if wf is None: ctx.lost(R + '/entry', 'mps::write_file'); return
    ctx.fn(wf)
    res = failure_is_error(ctx, R + '/entry', 'T-MUSTCALL', wf, lambda v: v[1] == 'write_mps', 'Err')
    ps = sx_paths(ctx, R + '/entry', 'T-MUSTCALL', wf, SxOracle())
    if res is None or ps is None: return
    sx = Sx(ctx, wf, SxOracle())
    oks = [p for p in ps if p.end == 'return' and p.value is not None and sx.variant(p.value, p) != 'Err']
    ctx.check(bool(oks) and all(p.calls('write_mps') for p in oks) and res[0] >= 1 and not res[1], R + '/entry', 'T-MUSTCALL', wf.name, 'write_file does not write the instance with write_mps on every successful path, its error propagated (%s)' % ('; '.join(res[1][:2]) or 'a successful path without write_mps'), wf.site())


# the round trip reads the written text back through the MPS reader and converter
RELIES_ON = {'C17': ['C17']}


def check(ctx):
    _FACTS[0] = ctx.F
    W = writer_bodies(ctx)
    if len(W) < 8:
        ctx.lost('C18.writer', 'functions of mps::to_mps (found %d)' % len(W)); return
    for b in W.values(): ctx.fn(b)
    magic_rules(ctx, W); keyword_rules(ctx, W); linear_rules(ctx, W); rhs_rules(ctx, W); bounds_rules(ctx, W); ids_rules(ctx, W); output_rules(ctx, W)
    wm = W.get('mps::to_mps::write_mps')
    if wm is not None: section_rules(ctx, W, wm)
    # decided instances per family on the unchanged tree
    for fam, n in {'C18.magic': 4, 'C18.keywords': 26, 'C18.linear': 8, 'C18.bounds': 8, 'C18.ids': 9, 'C18.sections': 8, 'C18.output': 2, 'C18.rhs': 3, 'C18.columns': 7}.items():
        ctx.floor(fam, n)
