"""C08 — validation and the typed view (DESIGN §5 C08).

Written against the normal form (VIEW = 'norm'): an adaptor chain with closures and the `for` loop it
stands for look the same here.  The rules are formulated on dataflow (which field a key / receiver /
operand derives from, which call's result guards which exit) and on tables of equivalent idioms
(one comment per entry); they do not count syntactic items.
"""
from .common import *

VIEW = 'norm'

INST = 'v1::Instance'; PI = 'v1::ParametricInstance'; DV = 'v1::DecisionVariable'; CON = 'v1::Constraint'; RC = 'v1::RemovedConstraint'


def short(ty):
    return ty.split('::')[-1]


# =============================================================================================
# module-local normal form: Option / Result combinators with a closure (or fn item) are written out as the match they
# stand for, the closure body spliced in.   x.and_then(|v| f(v))  ==  match x { Ok(v) => f(v), Err(e) => Err(e) }
# So `a()?; b()?; Ok(())`, `a().and_then(|()| b())` and `check(..).map(|()| Self {..})` have the same shape for every rule.
# =============================================================================================
from .. import normalize as NZ
from ..facts import Facts as _Facts
from ..dataflow import Slicer as _Slicer

COMBINATOR = re.compile(r'^(?:std|core)::(option::Option|result::Result)::<.*>::(map|and_then|and|map_or|map_or_else|unwrap_or_else|or_else|ok_or|ok_or_else|map_err)$')
# crate helpers whose contract is decided at the call site (membership test of an id, Err when undefined): written out at every call,
# so that the helper call and its body pasted in place look the same ("existing helper inlined / reused")
INLINED_HELPERS = ('instance::as_variable_id', 'instance::as_constraint_id')
_OK0 = [{'dc': 'Ok'}, {'f': '0', 'of': 'std::result::Result::Ok'}]
_ERR0 = [{'dc': 'Err'}, {'f': '0', 'of': 'std::result::Result::Err'}]


class CombinatorOpener:
    def __init__(self, F):
        self.F = F; self.memo = {}; self.stack = []; self.opened_closures = set()

    def body(self, name):
        if name in self.memo: return self.memo[name]
        b = self.F.bodies.get(name)
        if b is None: return None
        if name in self.stack or len(self.stack) > 6: return b.d
        self.stack.append(name)
        try: d = self.open(b.d)
        except Exception: d = b.d                    # left as it is: the rules see the call and fail closed
        finally: self.stack.pop()
        self.memo[name] = d
        return d

    def open(self, d):
        if d.get('kind') == 'promoted': return d
        if not any(b['term']['k'] == 'call' and (COMBINATOR.match(T.strip_generics_tail(b['term'].get('r') or b['term'].get('f') or '')) or self._helper(b['term']) or self._conversion(b['term']) or re.search(r'bool>?::(then_some|then)$', T.strip_generics_tail(b['term'].get('r') or b['term'].get('f') or '')) or self._is_closure_call(b['term'])) for b in d['blocks']): return d
        rw = NZ.Rewriter(d)
        rw.promoted_of = lambda v, callee: v if v in self.F.bodies else (('%s::promoted[%s]' % (callee, re.search(r'::promoted\[(\d+)\]$', v).group(1))) if re.search(r'::promoted\[(\d+)\]$', v) else v)
        for _ in range(60):
            if not self._one(rw): break
        return rw.d if rw.changed else d

    def _helper(self, t):
        for key in ('rp', 'fp', 'r', 'f'):
            nm = t.get(key)
            if nm and any(nm == h or nm.endswith('::' + h) for h in INLINED_HELPERS) and nm in self.F.bodies and self.F.bodies[nm].kind == 'fn': return nm
        return None

    def _conversion(self, t):
        """`x.into()` / `T::from(x)` where the crate's `impl From<X> for T` only wraps its argument in one variant of the enum T
        (derive_more::From, hand-written one-liners): the impl's body, to be written out at the call ("constructor via From")"""
        nm = t.get('r') or t.get('f') or ''
        m = re.match(r'^<(.+) as std::convert::Into<(.+)>>::into$', nm)
        cand = ['<%s as std::convert::From<%s>>::from' % (m.group(2), m.group(1))] if m else []
        if re.search(r'std::convert::From<.+>>::from$', nm) or re.search(r'impl std::convert::From<.+> for .+>::from$', nm): cand.append(nm)
        cand += [x for x in (t.get('rp'), t.get('fp')) if x and x.endswith('::from')]
        for c in cand:
            b = self.F.bodies.get(c)
            if b is None or b.kind != 'fn' or len(t['args']) != 1 or b.argc != 1: continue
            aggs = [st for bi, st in b.stmts() if st['rv']['k'] == 'agg']
            if len(aggs) != 1 or b.calls or any(st['rv']['k'] not in ('agg', 'use') for bi, st in b.stmts()): continue
            parent = aggs[0]['rv']['adt'].rsplit('::', 1)[0]
            if (self.F.adts.get(parent) or {}).get('is_enum'): return c
        return None

    def _callable(self, rw, op):
        """('closure', body dict, captures, name) | ('fn', const operand) | None"""
        for _ in range(8):
            if op['k'] == 'const': return ('fn', op) if (op.get('fnp') or op.get('fn')) else None
            if op['k'] not in ('copy', 'move') or [x for x in op['pl']['p'] if x != '*']: return None
            d = rw.single_def(op['pl']['l'])
            if d is None or d[0] != 'stmt': return None
            rv = d[2]['rv']
            if rv['k'] == 'use': op = rv['ops'][0]; continue
            if rv['k'] == 'ref' and not [x for x in rv['pl']['p'] if x != '*']: op = {'k': 'copy', 'pl': rv['pl']}; continue
            if rv['k'] == 'agg' and rv['adt'].startswith('closure:'):
                cd = self.body(rv['adt'][8:])
                return ('closure', cd, rv['ops'], rv['adt'][8:]) if cd is not None else None
            return None
        return None

    def _invoke(self, rw, blk, fn, args, dst, cont, span):
        """block `blk` runs fn(args) with its result in place dst and continues at cont"""
        if fn[0] == 'closure':
            cd, caps, name = fn[1], fn[2], fn[3]
            if cd['argc'] != 1 + len(args): raise NZ._GiveUp()
            self.opened_closures.add(name)
            rw.goto(blk, rw.splice(cd, [NZ._const('()', 'env')] + args, dst, cont, span, captures=caps))
        else:
            o = fn[1]; path = o.get('fnp') or o.get('fn') or o['v']; cb = self.F.bodies.get(path)
            hdr = (cb.hdr if cb is not None else {}) or {}
            rw.blocks[blk]['term'] = NZ.mk_call(o['v'], path, hdr.get('trait'), hdr.get('self'), hdr.get('item') or path.split('::')[-1], args, dst, cont, span)

    def _bool_then(self, rw, bi, t):
        """`c.then_some(v)` / `c.then(|| v)`  ==  if c { Some(v) } else { None }"""
        nm = T.strip_generics_tail(t.get('r') or t.get('f') or '')
        m = re.search(r'(?:^|::)bool>?::(then_some|then)$', nm) or re.search(r'<impl bool>::(then_some|then)$', nm)
        if not m or len(t['args']) != 2: return False
        t['c08_opened'] = True
        B = rw.blocks; span = t.get('span'); line = (span or {}).get('lo', 0); dst = t['dst']; after = t['t']
        fn = None
        if m.group(1) == 'then':
            fn = self._callable(rw, t['args'][1])
            if fn is None: return False
        yes = rw.new_block(); no = rw.new_block()
        B[bi]['term'] = {'k': 'switch', 'd': t['args'][0], 'ts': [[0, no]], 'else': yes}
        if fn is None:
            B[yes]['st'].append(NZ._agg(dst, 'std::option::Option::Some', [t['args'][1]], line=line)); rw.goto(yes, after)
        else:
            r = rw.new_local('?'); nxt = rw.new_block()
            self._invoke(rw, yes, fn, [], NZ._pl(r), nxt, span)
            B[nxt]['st'].append(NZ._agg(dst, 'std::option::Option::Some', [NZ._mv(r)], line=line)); rw.goto(nxt, after)
        B[no]['st'].append(NZ._agg(dst, 'std::option::Option::None', [], line=line)); rw.goto(no, after)
        rw.changed = True
        return True

    def _is_closure_call(self, t):
        cb = self.F.bodies.get(t.get('r') or '') or self.F.bodies.get(t.get('rp') or t.get('fp') or '')
        return (cb is not None and cb.kind == 'closure') or bool(re.search(r' as std::ops::(Fn|FnMut|FnOnce)<.*>>::(call|call_mut|call_once)$', T.strip_generics_tail(t.get('r') or t.get('f') or '')))

    def _closure_call(self, rw, bi, t):
        """a local closure called directly (`let at = |f| ..; at("x")`): its body at the place of the call, so that what it returns
        -- possibly another closure (closure factory), then consumed by map_err / map -- is visible to the steps below"""
        nm = t.get('rp') or t.get('fp') or t.get('r') or t.get('f') or ''
        cb = self.F.bodies.get(t.get('r') or '') or self.F.bodies.get(nm)
        fnlike = re.search(r' as std::ops::(Fn|FnMut|FnOnce)<.*>>::(call|call_mut|call_once)$', T.strip_generics_tail(t.get('r') or t.get('f') or ''))
        if not ((cb is not None and cb.kind == 'closure') or fnlike) or len(t['args']) != 2: return False
        fn = self._callable(rw, t['args'][0])
        if fn is None or fn[0] != 'closure': return False
        tup = t['args'][1]; n = fn[1]['argc'] - 1
        if tup['k'] not in ('copy', 'move'): return False
        d = rw.single_def(tup['pl']['l']) if not tup['pl']['p'] else None
        if d is not None and d[0] == 'stmt' and d[2]['rv']['k'] == 'agg' and d[2]['rv']['adt'] == 'tuple' and len(d[2]['rv']['ops']) == n:
            args = list(d[2]['rv']['ops'])
        else:
            args = [NZ._mv(tup['pl']['l'], list(tup['pl']['p']) + [{'f': str(i), 'of': 'tuple'}]) for i in range(n)]
        t['c08_opened'] = True
        self._invoke(rw, bi, fn, args, t['dst'], t['t'], t.get('span'))
        rw.changed = True
        return True

    def _one(self, rw):
        for bi, b in enumerate(rw.blocks):          # calls of local closures first: what they return may be a function argument below
            t = b['term']
            if b['cleanup'] or t['k'] != 'call' or t.get('c08_opened') or t['t'] < 0: continue
            try:
                if self._closure_call(rw, bi, t): return True
            except (NZ._GiveUp, KeyError, IndexError, ValueError):
                t['c08_opened'] = True
        for bi, b in enumerate(rw.blocks):
            t = b['term']
            if b['cleanup'] or t['k'] != 'call' or t.get('c08_opened') or t['t'] < 0: continue
            try:
                if self._bool_then(rw, bi, t): return True
            except (NZ._GiveUp, KeyError, IndexError, ValueError):
                pass
            m = COMBINATOR.match(T.strip_generics_tail(t.get('r') or t.get('f') or ''))
            if not m:
                hn = self._helper(t) or self._conversion(t)
                if hn is not None and not t.get('synthetic'):
                    t['c08_opened'] = True
                    cd = self.body(hn)
                    if cd is not None and cd['argc'] == len(t['args']) and len(cd['blocks']) <= 400:
                        rw.goto(bi, rw.splice(cd, t['args'], t['dst'], t['t'], t.get('span')))
                        return True
                continue
            t['c08_opened'] = True
            try:
                if self._combinator(rw, bi, t, 'Option' if 'option' in m.group(1) else 'Result', m.group(2)): return True
            except (NZ._GiveUp, KeyError, IndexError, ValueError):
                pass
        return False

    def _combinator(self, rw, bi, t, kind, item):
        B = rw.blocks; span = t.get('span'); line = (span or {}).get('lo', 0)
        dst = t['dst']; after = t['t']; args = list(t['args'])
        o = args[0]
        if o['k'] not in ('copy', 'move'): return False
        fpos = {'map': [1], 'and_then': [1], 'and': [], 'map_or': [2], 'map_or_else': [1, 2], 'unwrap_or_else': [1], 'or_else': [1], 'ok_or': [], 'ok_or_else': [1], 'map_err': [1]}[item]
        if item == 'map_err' and kind != 'Result': return False
        if item in ('and', 'ok_or') and len(args) != 2: return False
        if item in ('ok_or', 'ok_or_else') and kind != 'Option': return False
        fns = {}
        for i in fpos:
            if i >= len(args): return False
            fns[i] = self._callable(rw, args[i])
            if fns[i] is None: return False
        # everything resolved: rewrite
        ol = rw.new_local(rw.locals[o['pl']['l']] if not o['pl']['p'] else '?')
        B[bi]['st'].append(NZ._use(ol, o, line))
        dl = rw.new_local('isize'); un = rw.new_block(); yes = rw.new_block(); no = rw.new_block()
        B[bi]['st'].append(NZ._discr(dl, NZ._pl(ol), line))
        B[bi]['term'] = {'k': 'switch', 'd': NZ._mv(dl), 'ts': ([[0, no], [1, yes]] if kind == 'Option' else [[0, yes], [1, no]]), 'else': un}
        okp = NZ._mv(ol, NZ.SOME0 if kind == 'Option' else _OK0)
        errargs = [] if kind == 'Option' else [NZ._mv(ol, _ERR0)]
        ok_adt = 'std::option::Option::Some' if kind == 'Option' else 'std::result::Result::Ok'
        def fail_through(blk):          # None stays None, Err(e) stays Err(e)
            if kind == 'Option': B[blk]['st'].append(NZ._agg(dst, 'std::option::Option::None', [], line=line))
            else: B[blk]['st'].append(NZ._agg(dst, 'std::result::Result::Err', [NZ._mv(ol, _ERR0)], line=line))
            rw.goto(blk, after)
        if item == 'map':
            r = rw.new_local('?'); nxt = rw.new_block()
            self._invoke(rw, yes, fns[1], [okp], NZ._pl(r), nxt, span)
            B[nxt]['st'].append(NZ._agg(dst, ok_adt, [NZ._mv(r)], line=line)); rw.goto(nxt, after)
            fail_through(no)
        elif item == 'and_then':
            self._invoke(rw, yes, fns[1], [okp], dst, after, span); fail_through(no)
        elif item == 'map_err':         # Ok(v) => Ok(v), Err(e) => Err(f(e))
            B[yes]['st'].append(NZ._agg(dst, ok_adt, [okp], line=line)); rw.goto(yes, after)
            r = rw.new_local('?'); nxt = rw.new_block()
            self._invoke(rw, no, fns[1], errargs, NZ._pl(r), nxt, span)
            B[nxt]['st'].append(NZ._agg(dst, 'std::result::Result::Err', [NZ._mv(r)], line=line)); rw.goto(nxt, after)
        elif item in ('ok_or', 'ok_or_else'):   # Some(v) => Ok(v), None => Err(e) / Err(f())
            B[yes]['st'].append(NZ._agg(dst, 'std::result::Result::Ok', [okp], line=line)); rw.goto(yes, after)
            if item == 'ok_or':
                B[no]['st'].append(NZ._agg(dst, 'std::result::Result::Err', [args[1]], line=line)); rw.goto(no, after)
            else:
                r = rw.new_local('?'); nxt = rw.new_block()
                self._invoke(rw, no, fns[1], [], NZ._pl(r), nxt, span)
                B[nxt]['st'].append(NZ._agg(dst, 'std::result::Result::Err', [NZ._mv(r)], line=line)); rw.goto(nxt, after)
        elif item == 'and':             # x.and(y): y (already evaluated) when x is Some / Ok
            B[yes]['st'].append(NZ._use(dst, args[1], line)); rw.goto(yes, after); fail_through(no)
        elif item == 'map_or':
            self._invoke(rw, yes, fns[2], [okp], dst, after, span)
            B[no]['st'].append(NZ._use(dst, args[1], line)); rw.goto(no, after)
        elif item == 'map_or_else':
            self._invoke(rw, yes, fns[2], [okp], dst, after, span)
            self._invoke(rw, no, fns[1], errargs, dst, after, span)
        elif item == 'unwrap_or_else':
            B[yes]['st'].append(NZ._use(dst, okp, line)); rw.goto(yes, after)
            self._invoke(rw, no, fns[1], errargs, dst, after, span)
        elif item == 'or_else':
            B[yes]['st'].append(NZ._agg(dst, ok_adt, [okp], line=line)); rw.goto(yes, after)
            self._invoke(rw, no, fns[1], errargs, dst, after, span)
        rw.changed = True
        return True


def open_combinators(ctx):
    """replace ctx.F / ctx.S by the facts with the combinators written out (identity when there is nothing to open)"""
    F = ctx.F
    if getattr(F, 'c08_opened', False): return
    try:
        op = CombinatorOpener(F)
        dicts = [op.body(n) for n in F.bodies]
        if all(d is F.bodies[n].d for d, n in zip(dicts, F.bodies)): return
        F2 = _Facts(F.path, parts=(F.header, dicts, F.adts, F.impls, F.consts))
        F2.raw = getattr(F, 'raw', F); F2.norm_stats = F.norm_stats
        F2.inlined_closures = set(getattr(F, 'inlined_closures', ())) | op.opened_closures
        for k in list(F2._closures): F2._closures[k] = [b for b in F2._closures[k] if b.name not in F2.inlined_closures]
        F2.c08_opened = True
        ctx.F = F2; ctx.S = _Slicer(F2, depth=ctx.S.depth)
    except Exception:
        return                                           # the rules run on the unopened form and fail closed


# =============================================================================================
# path-sensitive reachability: short-circuit bools (as templates.reach_cp) + the variant of
# Option / Result / ControlFlow locals built on the path (`Some(x)`, `Err(e)`, `from_residual`, `?`)
# =============================================================================================
_ENUM_VARIANT = (('Option::None', 'Option', 0), ('Option::Some', 'Option', 1), ('Result::Ok', 'Result', 0), ('Result::Err', 'Result', 1),
                 ('ControlFlow::Continue', 'ControlFlow', 0), ('ControlFlow::Break', 'ControlFlow', 1))


def _agg_variant(adt):
    for suf, fam, idx in _ENUM_VARIANT:
        if adt.endswith(suf): return ('E', fam, idx)
    return None


def _family_of_name(nm):
    if nm.startswith('<std::result::Result') or nm.startswith('<core::result::Result'): return 'Result'
    if nm.startswith('<std::option::Option') or nm.startswith('<core::option::Option'): return 'Option'
    return None


def _term_item(t):
    return (t.get('ri') or {}).get('item')


def _residual_variant(t):
    """value of `dst = FromResidual::from_residual(r)`: always the failure variant of the family"""
    if _term_item(t) != 'from_residual': return None
    fam = _family_of_name(t['r'] or t['f'])
    if fam == 'Result': return ('E', 'Result', 1)
    if fam == 'Option': return ('E', 'Option', 0)
    return None


def _branch_of(t, v):
    """value of `dst = Try::branch(x)` when x holds variant v"""
    if not T.TRY_BRANCH.search(t['r'] or t['f']) or v is None or v[0] != 'E': return None
    if v[1] == 'Result': return ('E', 'ControlFlow', v[2])            # Ok -> Continue, Err -> Break
    if v[1] == 'Option': return ('E', 'ControlFlow', 1 - v[2])        # Some -> Continue, None -> Break
    return None


VARIANT_PRESERVING = re.compile(r'^(?:std|core)::(?:result::Result::<.*>::(?:map_err|map|inspect|inspect_err)|option::Option::<.*>::(?:map|inspect))$')      # Ok stays Ok, Err stays Err


def _keeps_variant(t):
    return bool(VARIANT_PRESERVING.match(T.strip_generics_tail(t.get('r') or t.get('f') or '')))


def _whole(o):
    return o['pl']['l'] if o['k'] in ('copy', 'move') and not o['pl']['p'] else None


def _vp_tracked(body):
    t = getattr(body, '_c08_vp', None)
    if t is not None: return t
    bools = set(T._cp_tracked(body)); mb = T._mut_borrowed(body)
    enums = set()
    for bi, st in body.stmts():
        d = st['dst']; rv = st['rv']
        if not d['p'] and d['l'] not in mb and rv['k'] == 'agg' and _agg_variant(rv['adt']): enums.add(d['l'])
    for c in body.calls:
        if not c.dst['p'] and c.dst['l'] not in mb and _residual_variant(c.term): enums.add(c.dst['l'])
    changed = True
    while changed:
        changed = False
        for bi, st in body.stmts():
            d = st['dst']; rv = st['rv']
            if d['p'] or d['l'] in enums or d['l'] in mb: continue
            if rv['k'] == 'use' and _whole(rv['ops'][0]) in enums: enums.add(d['l']); changed = True
        for c in body.calls:
            if c.dst['p'] or c.dst['l'] in enums or c.dst['l'] in mb: continue
            if (T.TRY_BRANCH.search(c.name) or _keeps_variant(c.term)) and c.args and _whole(c.args[0]) in enums: enums.add(c.dst['l']); changed = True
    discrs = set()
    for bi, st in body.stmts():
        d = st['dst']; rv = st['rv']
        if not d['p'] and rv['k'] == 'discr' and not rv['pl']['p'] and rv['pl']['l'] in enums: discrs.add(d['l'])
    body._c08_vp = (bools, enums, discrs)
    return body._c08_vp


def reach_vp(body, starts, stop=(), assume=None):
    """forward reachability; a switch on a bool / discriminant whose value is known on this path follows
    only the matching target.  Over-approximates (falls back to plain reachability when too many states).
    assume = (local, k): the enum value in `local` (a parameter; also its copies / references) is variant #k."""
    key = (tuple(sorted(starts)), tuple(sorted(stop)), assume)
    memo = body.__dict__.setdefault('_c08_reach', {})
    if key in memo: return memo[key]
    bools, enums, discrs = _vp_tracked(body)
    tracked = bools | enums | discrs
    assumed = {}
    if assume is not None:
        same = T.copies_of(body, assume[0])
        for bi, st in body.stmts():
            rv = st['rv']
            if rv['k'] == 'discr' and not st['dst']['p'] and rv['pl']['l'] in same and rv['pl']['p'] in ([], ['*']): assumed[id(st)] = ('D', assume[1])
        tracked = tracked | {st['dst']['l'] for bi, st in body.stmts() if id(st) in assumed}
    if not tracked:
        memo[key] = body.reach(starts, stop); return memo[key]
    seen = set(); out = set(); work = [(s, frozenset()) for s in starts if s not in stop]
    while work:
        bi, env = work.pop()
        if (bi, env) in seen: continue
        seen.add((bi, env)); out.add(bi)
        if len(seen) > 60000:
            memo[key] = body.reach(starts, stop); return memo[key]
        e = dict(env); blk = body.blocks[bi]
        for st in blk['st']:
            if 'dst' not in st: continue
            d = st['dst']; l = d['l']
            if l not in tracked: continue
            if d['p']: e.pop(l, None); continue
            rv = st['rv']; k = rv['k']; o = rv['ops'][0] if rv.get('ops') else None
            v = None
            if k == 'use' and o['k'] == 'const' and o['v'] in ('true', 'false') and l in bools: v = (o['v'] == 'true')
            elif k == 'use' and _whole(o) is not None: v = e.get(_whole(o))
            elif k == 'un' and rv['op'] == 'Not' and _whole(o) is not None and isinstance(e.get(_whole(o)), bool): v = not e[_whole(o)]
            elif k == 'agg': v = _agg_variant(rv['adt'])
            elif k == 'discr' and id(st) in assumed: v = assumed[id(st)]
            elif k == 'discr' and not rv['pl']['p']:
                x = e.get(rv['pl']['l'])
                if isinstance(x, tuple) and x[0] == 'E': v = ('D', x[2])
            if v is None: e.pop(l, None)
            else: e[l] = v
        t = blk['term']; succs = body.succ(bi)
        if t['k'] == 'call':
            dl = t['dst']['l']
            if dl in tracked:
                v = None
                if not t['dst']['p']:
                    a0 = _whole(t['args'][0]) if t['args'] else None
                    if T.NOT_CALL.search(t['r'] or t['f']) and isinstance(e.get(a0), bool): v = not e[a0]
                    elif _residual_variant(t): v = _residual_variant(t)
                    elif a0 is not None and _keeps_variant(t): v = e.get(a0) if isinstance(e.get(a0), tuple) and e.get(a0)[0] == 'E' else None
                    elif a0 is not None: v = _branch_of(t, e.get(a0))
                if v is None: e.pop(dl, None)
                else: e[dl] = v
        elif t['k'] == 'switch' and t['d']['k'] != 'const' and not t['d']['pl']['p'] and t['d']['pl']['l'] in e:
            x = e[t['d']['pl']['l']]
            val = (1 if x else 0) if isinstance(x, bool) else (x[1] if x[0] == 'D' else None)
            if val is not None:
                m = {vv: tg for vv, tg in t['ts']}
                succs = [m.get(val, t['else'])]
        fe = frozenset(e.items())
        for s in succs:
            if s in stop or body.blocks[s]['cleanup']: continue
            work.append((s, fe))
    memo[key] = out
    return out


class Guard:
    """a two-way decision (true_bb when the predicate holds, false_bb otherwise) with path-sensitive sides"""
    def __init__(self, body, switch_bb, true_bb, false_bb):
        # true_bb / false_bb: a block, None, or a list of blocks (a test combined with `|` / `&` decides one way only)
        tl = [t for t in (true_bb if isinstance(true_bb, list) else [true_bb]) if t is not None]
        fl = [t for t in (false_bb if isinstance(false_bb, list) else [false_bb]) if t is not None]
        self.body = body; self.switch_bb = switch_bb
        self.true_bb = tl[0] if len(tl) == 1 else None; self.false_bb = fl[0] if len(fl) == 1 else None
        oks = body.strict_ok_exits(); errs = body.err_exits()
        def side(ts):
            if not ts: return dict(ok=False, err=False, blocks=set())
            r = reach_vp(body, sorted(ts))
            return dict(ok=bool(r & oks), err=bool(r & errs), blocks=r)
        self.t_targets, self.f_targets = tl, fl
        true_bb, false_bb = tl, fl
        self.t = side(true_bb); self.f = side(false_bb)

    def inverted(self):
        g = object.__new__(Guard)
        g.body = self.body; g.switch_bb = self.switch_bb; g.true_bb, g.false_bb = self.false_bb, self.true_bb; g.t, g.f = self.f, self.t
        g.t_targets, g.f_targets = self.f_targets, self.t_targets
        return g

    def requires(self, polarity):
        """the Ok-exits are reachable only when predicate == polarity; the other side reaches an Err-exit"""
        a, b_ = (self.t, self.f) if polarity else (self.f, self.t)
        return a['ok'] and not b_['ok'] and b_['err']

    def dominates_ok_exits(self):
        b = self.body
        return all(b.dominates(self.switch_bb, e) for e in b.strict_ok_exits())

    def only(self, polarity):
        """blocks reachable on the `polarity` side only"""
        a, b_ = (self.t, self.f) if polarity else (self.f, self.t)
        return a['blocks'] - b_['blocks']

    def only_this_time(self, polarity):
        """blocks reachable on the `polarity` side and not on the other side before the test is evaluated again
        (inside a loop the other side comes round to everything)"""
        a, b_ = (self.t, self.f_targets) if polarity else (self.f, self.t_targets)
        other = reach_vp(self.body, sorted(b_), stop=(self.switch_bb,)) if b_ else set()
        return a['blocks'] - other

    def describe(self):
        return 'switch bb%d: true->bb%s(ok=%s,err=%s) false->bb%s(ok=%s,err=%s)' % (self.switch_bb, self.true_bb, self.t['ok'], self.t['err'], self.false_bb, self.f['ok'], self.f['err'])


def bool_decisions(body, local):
    """switches decided by a bool: (switch_bb, targets when it is true, targets when it is false).  Followed through copies,
    `!x`, anyhow's not(x), and one level of `x | y` / `x & y` (there only one value of x decides: true for `|`, false
    for `&`; for the other value both targets are possible)"""
    out = []; work = [(local, False, None)]; seen = set()
    while work:
        l, neg, comb = work.pop()
        if (l, neg, comb) in seen: continue
        seen.add((l, neg, comb))
        for kind, bi, x in body.uses.get(l, ()):
            if kind == 'switch':
                tt, ft = T.switch_sides(body, bi)
                both = [t for t in (tt, ft) if t is not None]
                if comb is None: t_side, f_side = [tt], [ft]
                elif comb == 'or': t_side, f_side = [tt], both             # (value flowing here) true => switch true
                else: t_side, f_side = both, [ft]                          # 'and': false => switch false
                out.append((bi, f_side, t_side) if neg else (bi, t_side, f_side))
            elif kind == 'stmt' and not x['dst']['p']:
                rv = x['rv']
                if rv['k'] == 'use': work.append((x['dst']['l'], neg, comb))
                elif rv['k'] == 'un' and rv['op'] == 'Not':
                    work.append((x['dst']['l'], not neg, {None: None, 'or': 'and', 'and': 'or'}[comb]))
                elif rv['k'] == 'bin' and rv['op'] in ('BitOr', 'BitAnd') and comb is None:
                    work.append((x['dst']['l'], neg, 'or' if rv['op'] == 'BitOr' else 'and'))
            elif kind == 'call' and T.NOT_CALL.search(x.name):
                work.append((x.dst['l'], not neg, {None: None, 'or': 'and', 'and': 'or'}[comb]))
    return out


def guards_of_local(body, local):
    return [Guard(body, sb, t_side, f_side) for sb, t_side, f_side in bool_decisions(body, local)]


def guards_of_call(body, call):
    return guards_of_local(body, call.dst['l'])


def variant_guards(body, local, variant, proj=None):
    """`match` / `if let` / let-else on an enum local: Guard whose predicate is `local is variant #variant`"""
    out = []
    for sb, m, els in T.option_arms(body, local, proj):
        yes = m.get(variant, els)
        others = {tg for v, tg in m.items() if v != variant}
        if body.blocks[els]['term']['k'] != 'unreachable': others.add(els)
        others = sorted(others - {yes})
        out.append(Guard(body, sb, yes, others[0] if others else None))
    return out


# ------------------------------------------------------------------------------- `?` / error flow (path-sensitive twin of templates.errflow)
def errflow_vp(body, local, depth=0, none_variant=0):
    res = []
    if depth > 8: return [('bad', 'adaptor chain too deep')]
    if local == 0: return [('ok', 'returned')]
    oks = body.strict_ok_exits()
    uses = body.uses.get(local, ())
    if not uses: return [('bad', 'result unused (dropped)')]
    for kind, bi, x in uses:
        if kind == 'call':
            name = x.name
            if not any(a['k'] in ('copy', 'move') and a['pl']['l'] == local and all(p == '*' for p in a['pl']['p']) for a in x.args):
                continue            # only a payload (`local as Ok.0`) is handed over: guarded by a discriminant test, judged there
            if T.TRY_BRANCH.search(name):
                arms = T.try_arms(body, local)
                if arms:
                    if reach_vp(body, [arms[1]]) & oks: res.append(('bad', 'Break arm of ? reaches an Ok-exit'))
                    else: res.append(('ok', '?'))
                else: res.append(('bad', 'Try::branch without switch'))
            elif T.ERR_ADAPTORS.search(name):
                res += [(k, '%s -> %s' % (x.item, h)) for k, h in errflow_vp(body, x.dst['l'], depth + 1, none_variant)]
            elif T.ERR_BAD.search(name): res.append(('bad', 'consumed by ' + x.item))
            else: res.append(('bad', 'passed to ' + name[:60]))
        elif kind == 'stmt':
            rv = x['rv']
            if rv['k'] == 'discr':
                ty = body.locals[local].replace('&mut ', '').replace('&', '').strip()
                fail = 1 if re.match(r'(std|core)::result::Result<', ty) else (0 if re.match(r'(std|core)::option::Option<', ty) else none_variant)     # Err is variant 1, None is variant 0
                for k3, b3, sw in body.uses.get(x['dst']['l'], ()):
                    if k3 != 'switch': continue
                    m = {v: t for v, t in sw['ts']}
                    if reach_vp(body, [m.get(fail, sw['else'])]) & oks: res.append(('bad', 'None/Err side of match reaches an Ok-exit'))
                    else: res.append(('ok', 'match: None/Err side reaches only Err-exits'))
            elif rv['k'] == 'use' and x['dst']['p'] == []:
                o = rv['ops'][0]
                if o['k'] in ('copy', 'move') and o['pl']['l'] == local and o['pl']['p'] == []:
                    if x['dst']['l'] == 0: res.append(('ok', 'returned'))
                    else: res += errflow_vp(body, x['dst']['l'], depth + 1, none_variant)
            elif rv['k'] == 'ref':
                res += errflow_vp(body, x['dst']['l'], depth + 1, none_variant)
    if not res: res.append(('bad', 'no recognised consumer'))
    return res


def errflow_calls(ctx, rule, body, calls, what, none_variant=0):        # shadows common.errflow_calls
    for c in calls:
        res = errflow_vp(body, c.dst['l'], none_variant=none_variant)
        ctx.counters['cfg_paths'] += 1
        bad = [h for k, h in res if k == 'bad']
        ctx.check(not bad, rule, 'T-ERRFLOW', body.name, '%s: %s' % (what, '; '.join(sorted(set(bad)))), body.site(c.bb), consumers=[h for k, h in res])


def mustcall(ctx, rule, body, call_pred, what, propagate=True):        # shadows common.mustcall (path-sensitive error flow)
    """T-MUSTCALL: every Ok-exit is dominated by a call matching call_pred; its error propagates
    (`?`, returned as the function's value, match with the Err side failing, and_then / map written out)"""
    if body is None: return None
    oks = body.strict_ok_exits(); good = []
    for c in [c for c in body.calls if call_pred(c)]:
        if all(body.dominates(c.bb, e) for e in oks):
            if propagate and any(k == 'bad' for k, _ in errflow_vp(body, c.dst['l'])): continue
            good.append(c)
    ctx.check(bool(good), rule, 'T-MUSTCALL', body.name, 'no call `%s` dominating every Ok-exit%s' % (what, ' with its error propagated' if propagate else ''), body.site(good[0].bb) if good else body.site())
    return good[0] if good else None


# ------------------------------------------------------------------------------- small dataflow helpers
def const_value(body, v):
    """text of a constant operand; a named constant (`const MESSAGE: &str = ".."`, associated consts) resolves to its value"""
    F = getattr(body, 'facts', None)
    for _ in range(4):
        if v.startswith('"') or F is None: break
        c = F.consts.get(v) or F.consts.get(v[6:] if v.startswith('const ') else v)
        if c is None: break
        v = c[1]
    return v


def lit_of(body, a):
    """string literal an operand evaluates to (directly, through a named constant, `let name = "lit"` or references)"""
    if a['k'] == 'const': return const_value(body, a['v']).strip('"')
    e = T.strip_wrappers(T.expr(body, a))
    if e[0] == 'const' and const_value(body, e[1]).startswith('"'): return const_value(body, e[1]).strip('"')
    if body.kind == 'closure' and e[0] == 'place' and e[1] == 1 and len(e[2]) == 1 and e[2][0][1].isdigit():
        # captured variable: the operand of the closure aggregate in the parent
        F = getattr(body, 'facts', None); pa = F.bodies.get(body.parent) if F is not None else None
        if pa is not None:
            for bi, st, name in pa.closures_created():
                if name == body.name and int(e[2][0][1]) < len(st['rv']['ops']): return lit_of(pa, st['rv']['ops'][int(e[2][0][1])])
    return None


def place_of(body, operand_or_place):
    """(root local, [(adt, field)..]) of an operand after peeling references, copies, `as_ref`-like adaptors and
    the selection of a component of a freshly built tuple; None when it is not a plain place"""
    o = operand_or_place if 'k' in operand_or_place else {'k': 'copy', 'pl': operand_or_place}
    e = T.strip_wrappers(T.expr(body, o))
    if e[0] == 'place': return e[1], list(e[2])
    if e[0] == 'local': return e[1], []
    if e[0] == 'proj': return None, list(e[2])          # field of a call result (e.g. of the loop item): no root local
    return None


SAME_OPTION = re.compile(r'::(as_ref|as_mut|as_deref|as_deref_mut|borrow|deref|clone|cloned|copied|map|inspect)$')     # Some stays Some, None stays None


def option_place(body, operand_or_place):
    """like place_of, but peels only what keeps the Option's set/unset state (references, copies, as_ref-like adaptors,
    Option::map, tuple components) -- not `?`, ok_or, unwrap or a payload projection, after which the value is the payload"""
    o = operand_or_place if 'k' in operand_or_place else {'k': 'copy', 'pl': operand_or_place}
    for _ in range(4):
        e = T.expr(body, o)
        while e[0] == 'call' and SAME_OPTION.search(T.strip_generics_tail(e[2])) and e[3]: e = e[3][0]
        if e[0] == 'place' and e[2]: return e[1], list(e[2])
        if e[0] == 'proj': return None, list(e[2])
        if e[0] in ('local', 'place'):
            src = option_diamond(body, e[1])          # `x.map(f)` written out: Some(f(v)) on the Some arm of x, None on its None arm
            if src is not None: o = {'k': 'copy', 'pl': src}; continue
            return (e[1], []) if e[0] == 'place' else None
        return None
    return None


def option_diamond(body, l):
    """local l is assigned Some(..) on the Some arm and None on the None arm of a case split of another Option (the written-out
    form of Option::map): the place of that Option"""
    defs = [d for d in body.defs_of(l) if not (d[0] == 'stmt' and d[2]['dst']['p'])]
    if len(defs) != 2 or any(d[0] != 'stmt' or d[2]['rv']['k'] != 'agg' for d in defs): return None
    none = [d for d in defs if d[2]['rv']['adt'].endswith('Option::None')]; some = [d for d in defs if d[2]['rv']['adt'].endswith('Option::Some')]
    if len(none) != 1 or len(some) != 1: return None
    cur = none[0][1]
    for _ in range(6):
        ps = sorted(body.preds.get(cur, ()))
        if len(ps) != 1: return None
        t = body.blocks[ps[0]]['term']
        if t['k'] == 'switch' and t['d']['k'] != 'const':
            m = {v: tg for v, tg in t['ts']}
            if m.get(0, t['else']) != cur: return None
            some_side = reach_vp(body, [m.get(1, t['else'])]) - reach_vp(body, [cur])
            if some[0][1] not in some_side: return None
            for k2, b2, d in body.defs_of(t['d']['pl']['l']):
                if k2 == 'stmt' and d['rv']['k'] == 'discr': return d['rv']['pl']
            return None
        if t['k'] not in ('goto', 'drop'): return None
        cur = ps[0]
    return None


def is_field(af, adt, field):
    return af[1] == field and (af[0] == adt or af[0].endswith('::' + adt))


def enclosing_loop(body, bb):
    los = [lo for lo in T.for_loops(body) if bb in lo[4]]
    return min(los, key=lambda lo: len(lo[4])) if los else None


def collection_loop(ctx, body, bb, adt, field):
    """the outermost loop around bb whose iterator derives from the collection field adt.field (inner loops, e.g. the
    one a `flat_map` / `flatten` over an optional payload lowers to, iterate over parts of one element)"""
    los = [lo for lo in T.for_loops(body) if bb in lo[4] and ctx.S.slice_operand(body, lo[0].args[0]).has_field(adt, field)]
    return max(los, key=lambda lo: len(lo[4])) if los else None


def root_of(body, operand):
    return T.access_path(body, operand, transparent=T.TRANSPARENT_NOCLONE)[1]


def closure_of_operand(ctx, body, operand):
    e = T.expr(body, operand)
    if e[0] == 'agg' and e[1].startswith('closure:'): return ctx.F.bodies.get(e[1][8:])
    return None


def option_tests(body, adt, field):
    """every case split on the Option-typed message field adt.field -> Guard with predicate `is Some`.
    Idioms (all lower to a discriminant switch or a bool test on a place that ends in the field):
      match f {..} | if let Some(x) = f / &f / f.as_ref() / f.as_mut() | let Some(x) = f else {..}
      match (f, other) {..}            (component of a freshly built tuple)
      f.is_some() | f.is_none()"""
    out = []
    for bi in sorted(body.live):
        t = body.blocks[bi]['term']
        if t['k'] != 'switch' or t['d']['k'] == 'const': continue
        for k2, b2, d in body.defs_of(t['d']['pl']['l']):
            if k2 == 'stmt' and d['rv']['k'] == 'discr':
                p = option_place(body, d['rv']['pl'])
                if p and p[1] and is_field(p[1][-1], adt, field):
                    m = {v: tg for v, tg in t['ts']}
                    out.append(Guard(body, bi, m.get(1, t['else']), m.get(0, t['else'])))
    for c in body.calls:
        if c.item in ('is_some', 'is_none') and c.args and 'Option' in c.name:
            p = option_place(body, c.args[0])
            if p and p[1] and is_field(p[1][-1], adt, field):
                for g in guards_of_call(body, c):
                    out.append(g if c.item == 'is_some' else g.inverted())
    # for x in f / f.iter() / .flat_map(|c| c.f.as_ref()) : the loop over the Option's iterator runs its body iff the field is set
    for lo in T.for_loops(body):
        fs, rootl, calls = T.access_path(body, lo[0].args[0])
        if rootl is None or not fs == []: continue
        for k, bi, d in body.defs_of(rootl):
            if k == 'call' and _term_item(d) in ('into_iter', 'iter') and d['args']:
                p = option_place(body, d['args'][0])
                if p and p[1] and is_field(p[1][-1], adt, field):
                    for sb, m, els in T.option_arms(body, lo[0].dst['l'])[:1]: out.append(Guard(body, sb, lo[2], lo[3]))
    return out


SET_RE = re.compile(r'(BTreeSet|HashSet)::<')
MAP_RE = re.compile(r'(BTreeMap|HashMap)::<')


def is_set_insert(c):
    return c.item == 'insert' and len(c.args) == 2 and bool(SET_RE.search(c.name))


def is_map_insert(c):
    return c.item == 'insert' and len(c.args) == 3 and bool(MAP_RE.search(c.name))


# =============================================================================================
# C08.validate / C08.dup / C08.defined
# =============================================================================================
def payload_filter(ctx, body, call, optionals):
    """`it.filter_map(|c| c.<opt>.as_ref())` drops exactly the elements whose optional payload is unset
    (≡ `if let Some(c) = &c.<opt>` in the loop body): the closure returns the Option field of its argument"""
    if call.item != 'filter_map' or len(call.args) != 2: return False
    cb = closure_of_operand(ctx, body, call.args[1])
    if cb is None: return False
    p = option_place(cb, {'l': 0, 'p': []})
    return bool(p and p[0] == 2 and len(p[1]) == 1 and any(is_field(p[1][0], a, f) for a, f in optionals))


def insert_guards(ctx, rule, body, specs):
    """Every id of the listed collections is inserted into ONE set and an `insert` that returns false is an error.
    specs: (name, (adt, collection field), (adt, key field), optional payload (adt, field) or None).
    The insert of a spec is identified by dataflow: its key derives from the key field of an element of the
    collection (one insert may serve several specs: `a.iter().chain(b.iter())`)."""
    ins = [c for c in body.calls if is_set_insert(c)]
    optionals = [s[3] for s in specs if s[3]]
    roots = set(); loops = []
    for name, (ladt, lfield), (kadt, kfield), opt in specs:
        cands = []
        for c in ins:
            s = ctx.S.slice_operand(body, c.args[1]); ctx.counters['slices'] += 1
            if s.has_field(kadt, kfield) and s.has_field(ladt, lfield): cands.append(c)
        ctx.check(bool(cands), '%s/%s/insert' % (rule, name), 'T-GUARD', body.name, 'no `set.insert(%s.%s)` of the elements of self.%s' % (short(kadt), kfield, lfield), body.site())
        verdicts = []
        for c in cands:
            dup = any(g.requires(True) for g in guards_of_call(body, c))
            lo = collection_loop(ctx, body, c.bb, ladt, lfield)
            every = allel = False; why = 'the insert is not in a loop'
            if lo is not None:
                via = {c.bb}
                if opt:
                    for g in option_tests(body, opt[0], opt[1]):
                        if g.switch_bb in lo[4] and g.false_bb is not None: via.add(g.false_bb)       # element without payload: nothing to insert
                every = T.must_pass(body, lo[2], {lo[1]}, via)
                si = ctx.S.slice_operand(body, lo[0].args[0])
                restr = sorted({x.item for x in si.call_objs if x.item in RESTRICTING and 'Iterator' in (x.trait or '') and not payload_filter(ctx, body, x, optionals)})
                allel = not restr and all(body.dominates(lo[1], e) for e in body.strict_ok_exits())
                why = 'loop is restricted (%s) or does not dominate the Ok-exit' % restr
            verdicts.append((dup and every and allel, c, dup, every, allel, why))
        if not verdicts: continue
        verdicts.sort(key=lambda v: not v[0])
        good, c, dup, every, allel, why = verdicts[0]
        ctx.check(dup, '%s/%s/duplicate-is-error' % (rule, name), 'T-GUARD', body.name, 'the result of insert is not tested (a duplicate id is accepted)', body.site(c.bb))
        ctx.check(every, '%s/%s/every-element' % (rule, name), 'T-LOOPMUST', body.name, 'an element can skip the uniqueness test', body.site(c.bb))
        ctx.check(allel, '%s/%s/all-elements' % (rule, name), 'T-LOOPMUST', body.name, why, body.site(c.bb))
        roots.add(root_of(body, c.args[0]))
        lo = collection_loop(ctx, body, c.bb, ladt, lfield)
        if lo is not None: loops.append(lo)
    if len(specs) > 1:
        ctx.check(len(roots) == 1, rule + '/one-shared-set', 'T-CARRY', body.name, 'the ids are inserted into different sets, so an id shared between the collections is not detected', body.site())
    return roots, loops


def emptiness_guards(body, local, depth=5):
    """(Guard, polarity) pairs with `guard == polarity  <=>  the set / iterator in local is empty`.  Idioms:
      x.is_empty() | x.next().is_none() / .is_some() / `if let Some(_) = x.next()` | x.count() == 0 | x.len() == 0 (also != 0, > 0)
      each also after x.collect::<C>() / .iter() / .into_iter() / .copied() / .cloned() / .peekable()"""
    out = []
    if depth <= 0: return out
    for l in T.copies_of(body, local):
        for kind, bi, x in body.uses.get(l, ()):
            if kind != 'call' or x.arg_local(0) != l or x.args[0]['pl']['p'] not in ([], ['*']): continue
            it = x.item
            if it == 'is_empty': out += [(g, True) for g in guards_of_call(body, x)]
            elif it in ('next', 'first', 'last', 'peek', 'min', 'max') and not x.dst['p']:
                o = x.dst['l']
                out += [(g, False) for g in variant_guards(body, o, 1)]
                for l2 in T.copies_of(body, o):
                    for k2, b2, y in body.uses.get(l2, ()):
                        if k2 == 'call' and y.item in ('is_none', 'is_some') and y.arg_local(0) == l2:
                            out += [(g, y.item == 'is_none') for g in guards_of_call(body, y)]
            elif it in ('count', 'len') and not x.dst['p']:
                for l2 in T.copies_of(body, x.dst['l'], through_refs=False):
                    for k2, b2, st in body.uses.get(l2, ()):
                        if k2 != 'stmt' or st['rv']['k'] != 'bin' or st['dst']['p']: continue
                        a, b_ = st['rv']['ops']; op = st['rv']['op']
                        zero_r = b_['k'] == 'const' and T.f64_const(b_['v']) == 0.0 and _whole(a) == l2
                        zero_l = a['k'] == 'const' and T.f64_const(a['v']) == 0.0 and _whole(b_) == l2
                        pol = True if (op == 'Eq' and (zero_r or zero_l)) else (False if (op == 'Ne' and (zero_r or zero_l)) or (op == 'Gt' and zero_r) or (op == 'Lt' and zero_l) else None)
                        if pol is not None: out += [(g, pol) for g in guards_of_local(body, st['dst']['l'])]
            elif it in ('collect', 'from_iter', 'iter', 'into_iter', 'copied', 'cloned', 'peekable') and not x.dst['p']:
                out += emptiness_guards(body, x.dst['l'], depth - 1)
    return out


def subset_guard(ctx, rule, body, used_re, roots, def_loops, what):
    """used ⊆ defined is required for Ok.  `used` derives from the call matching used_re, `defined` is the set the
    definitions were inserted into (roots).  Equivalent idioms:
      used.is_subset(&defined)                                       -- true required
      defined.is_superset(&used)                                     -- true required
      used.difference(&defined) is empty (see emptiness_guards)      -- `ensure!(d.is_empty())`, `d.next().is_none()`, `d.count() == 0`
      used.iter().all(|x| defined.contains(x)) / for x in &used { if !defined.contains(x) { bail } }   -- every element, true required"""
    def from_used(a): return ctx.S.slice_operand(body, a).has_call(used_re)
    def is_defined(a): return root_of(body, a) in roots
    found = []; seen_any = False
    for c in body.calls:
        if not SET_RE.search(c.name) or len(c.args) != 2: continue
        if c.item == 'is_subset' or c.item == 'is_superset':
            a, d = (c.args[0], c.args[1]) if c.item == 'is_subset' else (c.args[1], c.args[0])
            seen_any = True
            if from_used(a) and is_defined(d): found += [(g, True, c) for g in guards_of_call(body, c)]
        elif c.item == 'difference':
            seen_any = True
            if from_used(c.args[0]) and is_defined(c.args[1]) and not c.dst['p']:
                found += [(g, pol, c) for g, pol in emptiness_guards(body, c.dst['l'])]
        elif c.item == 'contains' and is_defined(c.args[0]):
            lo = enclosing_loop(body, c.bb)
            if lo is None: continue
            seen_any = True
            if ctx.S.slice_operand(body, lo[0].args[0]).has_call(used_re) and T.must_pass(body, lo[2], {lo[1]}, {c.bb}) and lo[0].dst['l'] in ctx.S.slice_operand(body, c.args[1]).locals:
                found += [(g, True, c) for g in guards_of_call(body, c) if all(body.dominates(lo[1], e) for e in body.strict_ok_exits())]
    ctx.counters['cfg_paths'] += len(found)
    def after_definitions(g):       # the test runs when every definition has been inserted: after (not inside) the inserting loops
        return all(body.dominates(lo[1], g.switch_bb) and g.switch_bb not in lo[4] for lo in def_loops)
    good = [(g, pol, c) for g, pol, c in found if g.requires(pol) and after_definitions(g) and (g.dominates_ok_exits() or enclosing_loop(body, c.bb) is not None)]
    if good:
        ctx.ok(rule, 'T-GUARD', body.site(good[0][2].bb), guard=what, shape=good[0][0].describe()); return good[0]
    if not seen_any: ctx.bad(rule, 'T-GUARD', body.name, 'no test `%s` found' % what, body.site())
    else: ctx.bad(rule, 'T-GUARD', body.name, 'test `%s` does not guard the Ok-exits (used ids from %s, defined = the set of inserted ids)' % (what, used_re), body.site(), seen='; '.join(g.describe() for g, p, c in found)[:300])
    return None


def validate_rules(ctx):
    R = 'C08.validate'
    for ty, subs in ((INST, ('validate_decision_variable_ids', 'validate_constraint_ids')), (PI, ('validate_ids', 'validate_constraint_ids'))):
        b = ctx.method(R + '/%s/anchor' % short(ty), ty, 'validate')
        if b is None: continue
        for s in subs:
            mustcall(ctx, R + '/%s/calls-%s' % (short(ty), s), b, lambda c, s=s: c.item == s and c.path.endswith('%s>::%s' % (short(ty), s)), 'self.%s()?' % s)
    # ---- duplicates, used ⊆ defined
    b = ctx.method('C08.dup/Instance::validate_decision_variable_ids/anchor', INST, 'validate_decision_variable_ids')
    if b is not None:
        roots, loops = insert_guards(ctx, 'C08.dup/Instance::decision_variables', b, [('decision_variables', (INST, 'decision_variables'), (DV, 'id'), None)])
        subset_guard(ctx, 'C08.defined/Instance/used-subset-of-defined', b, r'impl v1::Instance>::used_decision_variable_ids', roots, loops, 'used_ids.is_subset(&defined_ids)')
    b = ctx.method('C08.dup/Instance::validate_constraint_ids/anchor', INST, 'validate_constraint_ids')
    if b is not None:
        insert_guards(ctx, 'C08.dup/Instance::constraints', b, [('active', (INST, 'constraints'), (CON, 'id'), None), ('removed', (INST, 'removed_constraints'), (CON, 'id'), (RC, 'constraint'))])
    b = ctx.method('C08.dup/ParametricInstance::validate_ids/anchor', PI, 'validate_ids')
    if b is not None:
        roots, loops = insert_guards(ctx, 'C08.dup/ParametricInstance::ids', b, [('decision_variables', (PI, 'decision_variables'), (DV, 'id'), None), ('parameters', (PI, 'parameters'), ('v1::Parameter', 'id'), None)])
        subset_guard(ctx, 'C08.defined/ParametricInstance/used-subset-of-defined', b, r'impl v1::ParametricInstance>::used_ids', roots, loops, 'used_ids.is_subset(&ids)')
        errflow_calls(ctx, 'C08.defined/ParametricInstance/used_ids-error', b, [c for c in b.calls if c.item == 'used_ids'], 'used_ids()')
    b = ctx.method('C08.dup/ParametricInstance::validate_constraint_ids/anchor', PI, 'validate_constraint_ids')
    if b is not None:
        insert_guards(ctx, 'C08.dup/ParametricInstance::constraints', b, [('active', (PI, 'constraints'), (CON, 'id'), None), ('removed', (PI, 'removed_constraints'), (CON, 'id'), (RC, 'constraint'))])
    # ---- used-id coverage
    b = ctx.method('C08.defined/Instance::used_decision_variable_ids/anchor', INST, 'used_decision_variable_ids')
    if b is not None:
        cover(ctx, 'C08.defined/Instance::used_ids/cover', b, INST, only=('objective', 'constraints', 'removed_constraints'))
        rs = ctx.S.backslice(b, [0])
        for f in ('objective', 'constraints', 'removed_constraints'):
            ctx.check(rs.has_field(INST, f), 'C08.defined/Instance::used_ids/returned/' + f, 'T-CARRY', b.name, 'ids used by self.%s are not part of the returned set' % f, b.site())
        extra = sorted({f for a, f in rs.fields if a == INST} - {'objective', 'constraints', 'removed_constraints'})
        ctx.check(not extra, 'C08.defined/Instance::used_ids/only-functions', 'T-CARRY', b.name, 'the used ids also depend on self.%s' % extra, b.site())
        # one instance per collection: the ids of every element reach the returned set on every path.  Decided like the kernels
        # (contribution sites promoted over the loops, path probing), so two accumulating `for` loops, one loop over a chain and
        # the pipeline once(objective).chain(active).chain(removed).flat_map(kernel).collect() are the same thing; elements
        # without payload may be dropped (`if let Some` arm or the payload filter_map), nothing else.
        optionals = [(RC, 'constraint')]
        skips = {g.false_bb for g in option_tests(b, RC, 'constraint') if g.false_bb is not None}
        for f in ('constraints', 'removed_constraints'):
            sites = contribution_sites(ctx, b, lambda s_, call, f=f: s_.has_field(INST, f), None, allow=lambda x: payload_filter(ctx, b, x, optionals), skips=skips)
            ctx.check(on_every_path(b, sites), 'C08.defined/Instance::used_ids/every-%s' % f, 'T-LOOPMUST', b.name, 'an element of self.%s can be skipped' % f, b.site())
    b = ctx.method('C08.defined/ParametricInstance::used_ids/anchor', PI, 'used_ids')
    if b is not None:
        cover(ctx, 'C08.defined/ParametricInstance::used_ids/cover', b, PI, only=('objective', 'constraints'))
        rs = ctx.S.backslice(b, [0])
        for f in ('objective', 'constraints'):
            ctx.check(rs.has_field(PI, f), 'C08.defined/ParametricInstance::used_ids/returned/' + f, 'T-CARRY', b.name, 'ids used by self.%s are not part of the returned set' % f, b.site())
        # "exactly": ids that occur only in removed constraints (or anywhere else) need not be defined for a parametric instance
        extra = sorted({f for a, f in rs.fields if a == PI} - {'objective', 'constraints'})
        ctx.check(not extra, 'C08.defined/ParametricInstance::used_ids/only-objective-and-constraints', 'T-CARRY', b.name, 'the used ids also depend on self.%s (a well-formed parametric instance is rejected)' % extra, b.site())
    # Function::used_decision_variable_ids dispatches to every payload kind
    b = ctx.method('C08.defined/Function::used_ids/anchor', 'v1::Function', 'used_decision_variable_ids')
    if b is not None:
        got = sorted({short(c.self_ty) for fb in [b] + list(ctx.F.closures_of(b)) for c in fb.calls if c.item == 'used_decision_variable_ids' and (c.self_ty or '').startswith('v1::')})
        ctx.check(got == ['Linear', 'Polynomial', 'Quadratic'], 'C08.defined/Function::used_ids/arms', 'T-BRANCHFX', b.name, 'payload kinds consulted: %s' % got, b.site())
    for ty, need in (('v1::Linear', [('v1::linear::Term', 'id')]), ('v1::Quadratic', [('v1::Quadratic', 'rows'), ('v1::Quadratic', 'columns'), ('v1::Quadratic', 'linear')]), ('v1::Polynomial', [('v1::Monomial', 'ids')])):
        b = ctx.method('C08.defined/%s::used_ids/anchor' % short(ty), ty, 'used_decision_variable_ids')
        if b is not None:
            rs = ctx.S.backslice(b, [0])
            miss = [f for a, f in need if not rs.has_field(a, f)]
            ctx.check(not miss, 'C08.defined/%s::used_ids/fields' % short(ty), 'T-CARRY', b.name, 'id fields not reported: %s' % miss, b.site())


# =============================================================================================
# C08.used-kernel: the per-function kernels of "used ids"
# =============================================================================================
def returned_object(body):
    """locals that ARE the returned value (moved / copied into _0, transitively)"""
    R = {0}; changed = True
    while changed:
        changed = False
        for bi, st in body.stmts():
            d = st['dst']; rv = st['rv']
            if d['p'] or d['l'] not in R or rv['k'] != 'use': continue
            x = _whole(rv['ops'][0])
            if x is not None and x not in R: R.add(x); changed = True
    return R


def conditional_closure_locals(ctx, body):
    """locals holding a closure that runs only for one variant of its receiver: every closure handed to a call that is not an
    iterator adaptor / consumer (Option::map, map_or_else, and_then, unwrap_or_else, Result::map, bool::then, ..).
    What such a closure reads does not reach the result on every path."""
    out = set()
    for c in body.calls:
        tr = c.trait or ''
        if tr.endswith('Iterator') or tr.endswith('Extend') or tr.endswith('FromIterator'): continue
        for a in c.args:
            if a['k'] in ('copy', 'move') and closure_of_operand(ctx, body, a) is not None:
                l = a['pl']['l']
                for _ in range(6):
                    out.add(l)
                    ds = [d for d in body.defs_of(l) if not (d[0] == 'stmt' and d[2]['dst']['p'])]
                    if len(ds) == 1 and ds[0][0] == 'stmt' and ds[0][2]['rv']['k'] == 'use' and _whole(ds[0][2]['rv']['ops'][0]) is not None: l = _whole(ds[0][2]['rv']['ops'][0])
                    else: break
    return out


def contribution_sites(ctx, body, wanted, coll=None, unconditional=True, allow=None, skips=()):
    """blocks at which a value satisfying `wanted(slice)` is written into the returned object (a call / aggregate whose
    destination -- or `&mut` receiver -- is the returned object and whose other inputs derive from the wanted source).
    A site inside a loop over the source (unrestricted, every iteration passes the site) is promoted to the loop header.
    unconditional: inputs are sliced without the closures of Option/Result combinators.
    allow(call): restricting adaptors that are part of the contract (elements without payload are dropped);
    skips: blocks an iteration may take instead of the site (the None arm of the optional payload)."""
    from ..dataflow import node_of
    R = returned_object(body)
    stops = tuple(conditional_closure_locals(ctx, body)) if unconditional else ()

    def sl(o):
        if o['k'] not in ('copy', 'move'): return None
        s = ctx.S.backslice(body, [node_of(o['pl'])], stop_locals=stops); ctx.counters['slices'] += 1
        for af in fields_of_place(o['pl']): s.fields.add(af)
        return s

    def restricted(s):
        # only a part of the source: a restricting adaptor on the way, here or inside a closure that was not spliced
        if any(x.item in RESTRICTING and 'Iterator' in (x.trait or '') and not (allow and allow(x)) for x in s.call_objs): return True
        for cn in s.closures:
            cb = ctx.F.bodies.get(cn)
            if cb is not None and any(x.item in RESTRICTING and 'Iterator' in (x.trait or '') for x in cb.calls): return True
        return False

    def carries(ops, call=None):
        for o in ops:
            s = sl(o)
            if s is None or not wanted(s, call) or restricted(s): continue
            return True
        return False
    raw = set()
    for c in body.calls:
        if c.dst['l'] in R and carries(c.args, c): raw.add(c.bb)
        for i, a in enumerate(c.args):
            if a['k'] in ('copy', 'move') and body.locals[a['pl']['l']].lstrip().startswith('&mut') and root_of(body, a) in R and carries([x for j, x in enumerate(c.args) if j != i], c): raw.add(c.bb)
    for bi, st in body.stmts():
        if st['dst']['l'] in R and st['rv']['k'] != 'use' and carries(st['rv'].get('ops', [])): raw.add(bi)
    sites = set(raw)
    for bb in raw:
        cur = bb
        for _ in range(4):
            los = [lo for lo in T.for_loops(body) if cur in lo[4] and lo[1] != cur]
            if not los: break
            lo = min(los, key=lambda x: len(x[4]))
            it = sl(lo[0].args[0])
            if it is None or not (wanted(it, None) or (coll and it.has_field(*coll))): break
            if restricted(it): break
            if not T.must_pass(body, lo[2], {lo[1]}, {cur} | set(skips)): break
            cur = lo[1]; sites.add(cur)
    return sites


def on_every_path(body, sites, also=()):
    """every feasible path from the entry to a return passes one of the blocks"""
    stop = tuple(sorted(set(sites) | set(also)))
    if 0 in stop: return True
    return bool(sites) and not (reach_vp(body, [0], stop=stop) & set(body.return_blocks()))


def oneof_switches(fb, msg, field, oneof_ty):
    """case splits on the payload of the oneof field msg.field (an enum of type oneof_ty): (switch_bb, {discriminant: target}, else)"""
    out = []
    for bi in sorted(fb.live):
        t = fb.blocks[bi]['term']
        if t['k'] != 'switch' or t['d']['k'] == 'const': continue
        for k2, b2, d in fb.defs_of(t['d']['pl']['l']):
            if k2 != 'stmt' or d['rv']['k'] != 'discr': continue
            pl = d['rv']['pl']
            fs = fields_of_place(pl); p = place_of(fb, pl)
            typed = value_has_type(fb, pl, oneof_ty)
            payload = (fs and fs[-1][0].endswith('Option::Some')) or typed
            if payload and (typed or (p and any(is_field(af, msg, field) for af in p[1]))):
                out.append((bi, {v: tg for v, tg in t['ts']}, t['else']))
    return out


def used_kernel_rules(ctx):
    R = 'C08.used-kernel'
    KERNELS = (('v1::Linear', [('terms.id', ('v1::linear::Term', 'id'), ('v1::Linear', 'terms'))]),
               ('v1::Quadratic', [('rows', ('v1::Quadratic', 'rows'), None), ('columns', ('v1::Quadratic', 'columns'), None)]),
               ('v1::Polynomial', [('monomial.ids', ('v1::Monomial', 'ids'), ('v1::Polynomial', 'terms'))]))
    for ty, fields in KERNELS:
        b = ctx.method(R + '/%s/anchor' % short(ty), ty, 'used_decision_variable_ids')
        if b is None: continue
        for name, key, coll in fields:
            sites = contribution_sites(ctx, b, lambda s, call, key=key: s.has_field(*key), coll)
            ctx.check(on_every_path(b, sites), R + '/%s/%s' % (short(ty), name), 'T-CARRY', b.name,
                      'the ids in %s.%s do not reach the returned set on every path (%s)' % (short(key[0]), key[1], 'only inside a closure / branch that runs for one case' if not sites else 'a path to the return avoids the contribution'), b.site())
        if ty == 'v1::Quadratic':
            # the optional linear part: contributes whenever it is set (its closure / Some arm may be conditional)
            KERNEL = r'impl v1::Linear>::used_decision_variable_ids'
            def lin(s, call): return s.has_field('v1::Quadratic', 'linear') and (s.has_call(KERNEL) or s.has_field('v1::linear::Term', 'id') or any(re.search(KERNEL, x) for x in s.fnconsts) or (call is not None and bool(re.search(KERNEL, call.name))))
            sites = contribution_sites(ctx, b, lin, None, unconditional=False)
            unset = [g.false_bb for g in option_tests(b, 'v1::Quadratic', 'linear') if g.false_bb is not None]
            ctx.check(on_every_path(b, sites, unset), R + '/Quadratic/linear', 'T-CARRY', b.name, 'the ids of the linear part do not reach the returned set whenever it is set', b.site())
    # Function: every oneof arm with variables hands the payload to its kernel and returns that set
    b = ctx.method(R + '/Function/anchor', 'v1::Function', 'used_decision_variable_ids')
    if b is not None:
        adt = exact_adt(ctx, 'v1::function::Function')
        for vname in ('Linear', 'Quadratic', 'Polynomial'):
            dv = [v['discr'] for v in (adt or {}).get('variants', []) if v['name'] == vname]
            ok = False; seen = False
            for fb in [b] + list(ctx.F.closures_of(b)):
                rs = ctx.S.backslice(fb, [0])
                for bi in sorted(fb.live):
                    t = fb.blocks[bi]['term']
                    if t['k'] != 'switch' or t['d']['k'] == 'const' or not dv: continue
                    for k2, b2, d in fb.defs_of(t['d']['pl']['l']):
                        if k2 != 'stmt' or d['rv']['k'] != 'discr': continue
                        pl = d['rv']['pl']
                        fs = fields_of_place(pl); p = place_of(fb, pl)
                        payload = (fs and fs[-1][0].endswith('Option::Some')) or value_has_type(fb, pl, 'v1::function::Function')
                        if not payload or not (value_has_type(fb, pl, 'v1::function::Function') or (p and any(is_field(af, 'v1::Function', 'function') for af in p[1]))): continue
                        seen = True
                        m = {v: tg for v, tg in t['ts']}
                        arm = m.get(dv[0], t['else'])
                        via = {c.bb for c in fb.calls if c.item == 'used_decision_variable_ids' and (c.self_ty or '') == 'v1::' + vname and c.dst['l'] in rs.locals}
                        if via and T.must_pass(fb, arm, set(fb.return_blocks()), via): ok = True
            ctx.check(ok, R + '/Function/arm/' + vname, 'T-BRANCHFX', b.name, ('the %s arm does not return the ids of its payload' % vname) if seen else 'no case split on the oneof payload found', b.site())


# =============================================================================================
# C08.parse.required
# =============================================================================================
def literals_of(body, e, depth=3):
    """string literals an expression tree is built from; a variable captured by a closure is looked up in the parent"""
    have = set()
    for y in T.expr_walk(e):
        if y[0] == 'const': have.add(const_value(body, y[1]).strip('"'))
        elif y[0] == 'place' and y[1] == 1 and body.kind == 'closure' and y[2] and y[2][0][1].isdigit() and depth > 0:
            F = getattr(body, 'facts', None); pa = F.bodies.get(body.parent) if F is not None else None
            if pa is None: continue
            for bi, st, name in pa.closures_created():
                if name == body.name and int(y[2][0][1]) < len(st['rv']['ops']):
                    have |= literals_of(pa, T.expr(pa, st['rv']['ops'][int(y[2][0][1])]), depth - 1)
    return have


def error_aggs(ctx, body, blocks, variant, consts):
    """aggregates `RawParseError::<variant>` built in `blocks` whose operands contain all the string literals `consts`"""
    out = []
    for bi, st in body.stmts():
        rv = st['rv']
        if bi in blocks and rv['k'] == 'agg' and rv['adt'].endswith('RawParseError::' + variant):
            have = set()
            for o in rv['ops']: have |= literals_of(body, T.expr(body, o))
            if all(k in have for k in consts): out.append((bi, st))
        elif bi in blocks and rv['k'] == 'agg' and rv['adt'].endswith('Result::Err') and rv['ops']:
            # `f.ok_or(E)` written out: E is evaluated before the case split, the None side wraps it
            for y in T.expr_walk(T.expr(body, rv['ops'][0])):
                if y[0] == 'agg' and y[1].endswith('RawParseError::' + variant) and all(k in literals_of(body, y) for k in consts): out.append((bi, st)); break
    return out


def required_field(ctx, rule_is, rule_prop, body, adt, field, variant, consts, what):
    """an unset Option field adt.field ends in Err(RawParseError::<variant>{consts}).  Equivalent idioms:
      f.ok_or(E)? | f.ok_or_else(|| E)?                                           -- adaptor + `?`
      let Some(x) = f else { return Err(E.into()) } | match f { None => return Err(..), .. } | if f.is_none() { return Err(..) }
                                                                                   -- the None side builds E and reaches only Err-exits"""
    shapes = []          # (is E built for the unset case, does the unset case only fail, site bb)
    for c in body.calls:
        if c.item in ('ok_or', 'ok_or_else') and c.args:
            p = option_place(body, c.args[0])
            if not (p and p[1] and is_field(p[1][-1], adt, field)): continue
            built = False
            if c.item == 'ok_or':
                ex = T.strip_wrappers(T.expr(body, c.args[1]))
                if ex[0] == 'agg' and ex[1].endswith('RawParseError::' + variant):
                    built = all(k in literals_of(body, ex) for k in consts)
            else:
                cb = closure_of_operand(ctx, body, c.args[1])
                built = cb is not None and bool(error_aggs(ctx, cb, cb.live, variant, consts))
            bad = [h for k, h in errflow_vp(body, c.dst['l']) if k == 'bad']
            shapes.append((built, not bad, c.bb))
    for g in option_tests(body, adt, field):
        none_only = g.only(False)
        built = bool(error_aggs(ctx, body, none_only, variant, consts))
        fails = g.f['err'] and not g.f['ok']
        shapes.append((built, fails, g.switch_bb))
    ctx.counters['cfg_paths'] += len(shapes)
    shapes.sort(key=lambda s: (not (s[0] and s[1]), not s[0]))
    best = shapes[0] if shapes else (False, False, None)
    site = body.site(best[2]) if best[2] is not None else body.site()
    ctx.check(best[0], rule_is, 'T-ERRFLOW', body.name, what, site)
    if shapes:
        ctx.check(best[1], rule_prop, 'T-ERRFLOW', body.name, 'the unset case of `%s` does not end in an Err-exit on every path' % field, site)
    tests = option_tests(body, adt, field)
    for c in body.calls:
        if c.item in ('unwrap_or_default', 'unwrap_or', 'unwrap_or_else', 'unwrap', 'expect') and c.args and (adt, field) in T.access_path(body, c.args[0])[0]:
            if c.item in ('unwrap', 'expect') and any(c.bb in g.only(True) for g in tests): continue       # `if f.is_none() { return Err } .. f.unwrap()`: only reached when set
            ctx.bad(rule_is.rsplit('/', 1)[0] + '/defaulted', 'T-ERRFLOW', body.name, 'missing field is %s' % ('defaulted by ' + c.item if c.item not in ('unwrap', 'expect') else 'a panic (%s), not an error' % c.item), body.site(c.bb))


def enum_parse_rules(ctx):
    R = 'C08.parse.required'
    for ty, typed, name in (('v1::instance::Sense', 'instance::Sense', 'ommx.v1.instance.Sense'), ('v1::decision_variable::Kind', 'decision_variable::Kind', 'ommx.v1.decision_variable.Kind'), ('v1::Equality', 'constraint::Equality', 'ommx.v1.Equality')):
        b = ctx.method(R + '/%s/anchor' % short(ty), ty, 'parse', trait='Parse')
        adt = ctx.F.adt(ty)
        if b is None or adt is None: continue
        split = any(st['rv']['k'] == 'discr' and st['rv']['pl']['l'] in T.copies_of(b, 1) and st['rv']['pl']['p'] in ([], ['*']) for bi, st in b.stmts())
        ctx.check(split, R + '/%s/match' % short(ty), 'T-TABLE', b.name, 'no case split on the enum value', b.site())
        if not split: continue
        # one row per variant of the message enum, decided by path probing from the ENTRY under the assumption "self is this
        # variant" (every discriminant read of self is then known; `Some(K)` / `None` arms followed by ok_or / ok_or_else and early
        # returns before the match are followed path-sensitively): outcome = only Ok-exits / only Err-exits reachable,
        # value = the one typed variant built on the way / the UnspecifiedEnum error with its literal
        table = {}
        oks = b.strict_ok_exits(); errs = b.err_exits()
        for v in adt['variants']:
            R_ = reach_vp(b, [0], assume=(1, v['discr']))
            res = None
            if (R_ & oks) and not (R_ & errs):
                built = sorted({short(st['rv']['adt']) for b2, st in b.stmts() if b2 in R_ and st['rv']['k'] == 'agg' and st['rv']['adt'].startswith(typed + '::')})
                res = 'ok:' + (built[0] if len(built) == 1 else '?%s' % built)
            elif (R_ & errs) and not (R_ & oks):
                for b2, st in b.stmts():
                    if b2 in R_ and st['rv']['k'] == 'agg' and st['rv']['adt'].endswith('RawParseError::UnspecifiedEnum'):
                        res = 'err:' + (lit_of(b, st['rv']['ops'][0]) or '?')
            table[v['name']] = res
        want = {v['name']: ('err:' + name if v['name'] == 'Unspecified' else 'ok:' + v['name']) for v in adt['variants']}
        ctx.check(table == want, R + '/%s/table' % short(ty), 'T-TABLE', b.name, 'enum conversion table is %s, expected %s' % (table, want), b.site(), table=str(table))
    # unset oneof => UnsupportedV1Function
    b = ctx.method(R + '/Function/anchor', 'v1::Function', 'parse', trait='Parse')
    if b is not None:
        required_field(ctx, R + '/Function/unset-oneof-is-error', R + '/Function/unset-oneof-propagates', b, 'v1::Function', 'function', 'UnsupportedV1Function', (),
                       'an unset oneof is not reported as UnsupportedV1Function')
        # arm by arm: on the arm of oneof variant V (and only there) the typed variant V is built from the arm's payload.
        # `c.into()` / `Function::from(c)` are written out by the normal form (the From impl's body decides the variant).
        adt = exact_adt(ctx, 'v1::function::Function'); table = {}
        for fb in [b] + list(ctx.F.closures_of(b)):
            for sb, m, els in oneof_switches(fb, 'v1::Function', 'function', 'v1::function::Function'):
                targets = {m.get(v['discr'], els) for v in (adt or {}).get('variants', [])}
                for v in (adt or {}).get('variants', []):
                    tg = m.get(v['discr'], els)
                    own = set(reach_vp(fb, [tg]))
                    for t2 in targets - {tg}: own -= reach_vp(fb, [t2])
                    built = set()
                    for bi, st in fb.stmts():
                        if bi in own and st['rv']['k'] == 'agg' and st['rv']['adt'].startswith('function::Function::'):
                            fs = [af for o in st['rv']['ops'] if o['k'] in ('copy', 'move') for af in T.expr_fields(T.expr(fb, o))]
                            from_payload = any(af[0].endswith('v1::function::Function::' + v['name']) for af in fs)
                            built.add(short(st['rv']['adt']) if from_payload else short(st['rv']['adt']) + '(not from the payload)')
                    table[v['name']] = sorted(built)
        want = {v['name']: [v['name']] for v in (adt or {}).get('variants', [])}
        ctx.check(bool(want) and table == want, R + '/Function/arms', 'T-TABLE', b.name, 'typed variant built per oneof arm: %s, expected %s' % (table, want), b.site(), table=str(table))
    # required message fields
    for (ty, item, trait, targs), adt_, field, msg in (((('instance::Instance', 'try_from', 'TryFrom', ['v1::Instance'])), INST, 'objective', 'ommx.v1.Instance'),
                                                       ((CON, 'parse', 'Parse', None), CON, 'function', 'ommx.v1.Constraint'), ((RC, 'parse', 'Parse', None), RC, 'constraint', 'ommx.v1.RemovedConstraint')):
        b = ctx.method(R + '/%s.%s/anchor' % (short(adt_), field), ty, item, trait=trait, targs=targs)
        if b is None: continue
        required_field(ctx, R + '/%s.%s/missing-is-MissingField' % (short(adt_), field), R + '/%s.%s/propagates' % (short(adt_), field), b, adt_, field, 'MissingField', (msg, field),
                       'a missing `%s` is not reported as MissingField{message: %s, field: %s}' % (field, msg, field))


# =============================================================================================
# C08.parse.bound / C08.parse.default
# =============================================================================================
# ------------------------------------------------------------------------------- validity of a bound, one condition at a time
BOUND_CONDITIONS = (('nan-lower', 'NotANumber'), ('nan-upper', 'NotANumber'), ('lower=+inf', 'InvalidInfinity'), ('upper=-inf', 'InvalidInfinity'), ('lower>upper', 'UpperSmallerThanLower'))


def condition_sinks(body, local, holds):
    """where the truth of a bool decides control: (switch_bb, target taken when the tested condition holds).
    `holds` = the value of `local` for which the condition holds.  Followed through copies, `!x`, anyhow's not(x),
    `x | y` (a true operand decides) and `x & y` (a false operand decides); `||` / `&&` are control flow already."""
    out = []; work = [(local, holds)]; seen = set()
    while work:
        l, h = work.pop()
        if (l, h) in seen: continue
        seen.add((l, h))
        for kind, bi, x in body.uses.get(l, ()):
            if kind == 'switch':
                tt, ft = T.switch_sides(body, bi)
                out.append((bi, tt if h else ft))
            elif kind == 'stmt' and not x['dst']['p']:
                rv = x['rv']
                if rv['k'] == 'use': work.append((x['dst']['l'], h))
                elif rv['k'] == 'un' and rv['op'] == 'Not': work.append((x['dst']['l'], not h))
                elif rv['k'] == 'bin' and rv['op'] == 'BitOr' and h: work.append((x['dst']['l'], True))
                elif rv['k'] == 'bin' and rv['op'] == 'BitAnd' and not h: work.append((x['dst']['l'], False))
            elif kind == 'call' and T.NOT_CALL.search(x.name): work.append((x.dst['l'], not h))
    return out


def bound_tests(body):
    """atomic tests on (lower, upper) = parameters (1, 2): (bool local, bb, [(condition, value of the bool for which it holds)], text).
    Table of equivalent spellings (x = lower / upper):
      NaN:         x.is_nan() | x != x | !(x == x)
      lower=+inf:  lower == INF | INF == lower | lower >= INF | INF <= lower | !(lower < INF) | !(INF > lower) | !(lower != INF)
      upper=-inf:  upper == -INF | upper <= -INF | -INF >= upper | !(upper > -INF) | !(-INF < upper) | !(upper != -INF)
      lower>upper: lower > upper | upper < lower | !(lower <= upper) | !(upper >= lower)
    (the negated forms also hold for NaN, which is invalid anyway).  Any other float test is 'unrecognised'."""
    def opnd(o):
        e = T.strip_wrappers(T.expr(body, o))
        if e[0] == 'place' and not e[2] and e[1] in (1, 2): return 'lower' if e[1] == 1 else 'upper'
        if e[0] == 'const':
            v = T.f64_const(const_value(body, e[1]))
            if v == float('inf'): return '+inf'
            if v == float('-inf'): return '-inf'
        return T.expr_str(e, 4)
    out = []
    for c in body.calls:
        if c.item == 'is_nan' and c.args and not c.dst['p']:
            x = opnd(c.args[0])
            out.append((c.dst['l'], c.bb, [('nan-' + x, True)] if x in ('lower', 'upper') else [], '%s.is_nan()' % x))
    for bi, st in float_cmp_sites(body):
        op = st['rv']['op']; a, b_ = opnd(st['rv']['ops'][0]), opnd(st['rv']['ops'][1])
        if op in ('Lt', 'Le'): op, a, b_ = ('Gt' if op == 'Lt' else 'Ge'), b_, a
        cl = []
        if op in ('Eq', 'Ne'):
            if a == b_ and a in ('lower', 'upper'): cl = [('nan-' + a, op == 'Ne')]
            elif {a, b_} == {'lower', '+inf'}: cl = [('lower=+inf', op == 'Eq')]
            elif {a, b_} == {'upper', '-inf'}: cl = [('upper=-inf', op == 'Eq')]
        elif (op, a, b_) == ('Ge', 'lower', '+inf'): cl = [('lower=+inf', True)]
        elif (op, a, b_) == ('Gt', '+inf', 'lower'): cl = [('lower=+inf', False)]
        elif (op, a, b_) == ('Ge', '-inf', 'upper'): cl = [('upper=-inf', True)]
        elif (op, a, b_) == ('Gt', 'upper', '-inf'): cl = [('upper=-inf', False)]
        elif (op, a, b_) == ('Gt', 'lower', 'upper'): cl = [('lower>upper', True)]
        elif (op, a, b_) == ('Ge', 'upper', 'lower'): cl = [('lower>upper', False)]
        out.append((st['dst']['l'], bi, cl, '%s %s %s' % (a, op, b_)))
    return out


def bound_conditions(ctx, rule, body):
    """Each rejection condition is decided on its own by path probing: there is a test of the condition such that
    (a) the side on which the condition holds reaches only Err-exits (path-sensitive) and can report the matching error,
    (b) every path from the entry to an Ok-exit evaluates that test (so the rejection does not depend on another condition).
    Nothing but these conditions rejects: a float test with an Err-only side next to an accepting side must be in the table."""
    oks = body.strict_ok_exits(); errs = body.err_exits()
    tests = bound_tests(body)
    for cond, variant in BOUND_CONDITIONS:
        why = 'the condition is not tested'; good = None
        for local, bb, cl, text in tests:
            for cn, holds in cl:
                if cn != cond: continue
                for sb, tgt in condition_sinks(body, local, holds):
                    ctx.counters['cfg_paths'] += 1
                    r = reach_vp(body, [tgt]) if tgt is not None else set()
                    if (r & oks) or not (r & errs): why = '`%s` does not lead to an error on every path' % text; continue
                    if sb != 0 and (reach_vp(body, [0], stop=(sb,)) & oks): why = '`%s` is not evaluated on every accepting path (the rejection depends on another condition)' % text; continue
                    if not any(bi in r and st['rv']['k'] == 'agg' and st['rv']['adt'].endswith('BoundError::' + variant) for bi, st in body.stmts()):
                        why = '`%s` cannot report BoundError::%s' % (text, variant); continue
                    good = (bb, text)
        ctx.check(good is not None, '%s/rejects/%s' % (rule, cond), 'T-GUARD', body.name, 'invalid shape %s is not rejected independently: %s' % (cond, why), body.site(good[0]) if good else body.site())
    extra = []
    for local, bb, cl, text in tests:
        for holds in (True, False):
            for sb, tgt in condition_sinks(body, local, holds):
                other = [t for t in body.succ(sb) if t != tgt]
                r = reach_vp(body, [tgt]) if tgt is not None else set(); ro = reach_vp(body, other) if other else set()
                if (r & errs) and not (r & oks) and (ro & oks) and not any(h == holds for cn, h in cl):
                    extra.append('%s is %s' % (text, str(holds).lower()))
    ctx.check(not extra, rule + '/only-invalid-shapes', 'T-TABLE', body.name, 'rejected besides NaN, lower=+inf, upper=-inf, lower>upper: %s' % sorted(set(extra)), body.site(), table=str(sorted(t[3] for t in tests)))


def bound_rules(ctx):
    R = 'C08.parse.bound'
    b = ctx.method(R + '/Bound::parse/anchor', 'v1::Bound', 'parse', trait='Parse')
    if b is not None:
        # a Bound is obtained only through validation of the same two values.  Equivalent constructions:
        #   Bound::new(lower, upper)?                                       -- the validating constructor (its own rules below)
        #   BoundError::check(lower, upper)?; Bound { lower, upper }        -- the constructor written out: the aggregate is reachable
        #                                                                      only on the success side of a check of the same two values
        def same(a, o): return T.strip_wrappers(T.expr(b, a)) == T.strip_wrappers(T.expr(b, o))
        def ends(a, o): return T.access_path(b, a)[0] == [('v1::Bound', 'lower')] and T.access_path(b, o)[0] == [('v1::Bound', 'upper')]
        validators = [c for c in b.calls if c.path.endswith('Bound::new') and len(c.args) == 2]
        checks = [c for c in b.calls if c.item == 'check' and 'BoundError' in c.path and len(c.args) == 2]
        constructions = [(c.bb, c.args[0], c.args[1]) for c in validators]; unvalidated = []
        for bi, st in find_aggregates(b, 'bound::Bound'):
            d = dict(zip(st['rv']['fields'], st['rv']['ops']))
            okc = [c for c in checks if b.dominates(c.bb, bi) and same(c.args[0], d.get('lower')) and same(c.args[1], d.get('upper'))
                   and not any(k == 'bad' for k, _ in errflow_vp(b, c.dst['l']))
                   and (T.try_arms(b, c.dst['l']) is None or bi not in reach_vp(b, [T.try_arms(b, c.dst['l'])[1]]))]
            if okc: constructions.append((bi, d['lower'], d['upper'])); validators += okc
            else: unvalidated.append(bi)
        ok = bool(constructions) and all(ends(lo_, up_) for bb_, lo_, up_ in constructions)
        ok = ok and all(any(b.dominates(bb_, e) for bb_, lo_, up_ in constructions) for e in b.strict_ok_exits())
        ctx.check(ok, R + '/Bound::parse/through-new', 'T-MUSTCALL', b.name, 'v1::Bound is not converted by a validated construction from (self.lower, self.upper)', b.site())
        errflow_calls(ctx, R + '/Bound::parse/error', b, list({id(c): c for c in validators}.values())[:1], 'bound validation')
        ctx.check(not unvalidated, R + '/Bound::parse/no-direct-construction', 'T-CARRY', b.name, 'Bound is constructed without a successful BoundError::check of the same two values', b.site(unvalidated[0]) if unvalidated else b.site())
    nb = ctx.method(R + '/Bound::new/anchor', 'bound::Bound', 'new')
    if nb is not None:
        chk = mustcall(ctx, R + '/Bound::new/check-first', nb, lambda c: c.item == 'check' and 'BoundError' in c.path, 'BoundError::check(lower, upper)?')
        if chk is not None:
            ok = T.strip_wrappers(T.expr(nb, chk.args[0])) == ('place', 1, []) and T.strip_wrappers(T.expr(nb, chk.args[1])) == ('place', 2, [])
            ctx.check(ok, R + '/Bound::new/check-args', 'T-CARRY', nb.name, 'check is not applied to (lower, upper)', nb.site(chk.bb))
        aggs = find_aggregates(nb, 'bound::Bound')
        okf = bool(aggs)
        for bi, st in aggs:
            d = dict(zip(st['rv']['fields'], st['rv']['ops']))
            okf = okf and T.strip_wrappers(T.expr(nb, d['lower'])) == ('place', 1, []) and T.strip_wrappers(T.expr(nb, d['upper'])) == ('place', 2, [])
        ctx.check(okf, R + '/Bound::new/fields', 'T-CARRY', nb.name, 'Bound { lower, upper } is not built from the arguments in order', nb.site())
    cb = ctx.method(R + '/BoundError::check/anchor', 'bound::BoundError', 'check')
    if cb is not None:
        bound_conditions(ctx, R + '/BoundError::check', cb)
    # C08.parse.default: Option<v1::Bound> is never defaulted through the prost Default (which is [0,0])
    for fb in ctx.F.bodies.values():
        for c in fb.calls:
            if c.item in ('unwrap_or_default', 'unwrap_or_else', 'unwrap_or') and re.search(r'Option::<&?v1::Bound>', c.name):
                ctx.bad('C08.parse.default/no-prost-default', 'T-ERRFLOW', fb.name, 'a missing v1::Bound is replaced by a default value through %s (the prost default is [0, 0])' % c.item, fb.site(c.bb))
    ctx.ok('C08.parse.default/sweep', 'T-ERRFLOW', '', bodies=len(ctx.F.bodies))
    pb = ctx.method('C08.parse.default/DecisionVariable::parse/anchor', DV, 'parse', trait='Parse')
    if pb is not None:
        parse_bound_table(ctx, 'C08.parse.default/DecisionVariable::parse', pb)


def exact_adt(ctx, path):
    return ctx.F.adts.get(path) or ctx.F.adt(path)


def enum_tests(ctx, body, enum_ty, variant):
    """tests `x is <enum_ty>::<variant>` on a value of the typed enum -> (blocks on the yes side only, blocks on the no side only).
      x == E::V | x != E::V                    -- PartialEq::eq / ne on the enum, other operand a constant of that variant
      match x { E::V => .., _ => .. } | matches!(x, E::V) | match (.., x) { (.., E::V) => .. }   -- switch on the discriminant, arm of V's discriminant (ADT table)"""
    out = []
    for c in body.calls:
        if c.item in ('eq', 'ne') and re.search(re.escape(enum_ty) + '$', c.self_ty or ''):
            vs = [enum_variant_of_operand(ctx, body, a) for a in c.args]
            if any(v and v.endswith('%s::%s' % (short(enum_ty), variant)) for v in vs):
                for g in guards_of_call(body, c):
                    out.append((g.only(c.item == 'eq'), g.only(c.item != 'eq')))
    adt = exact_adt(ctx, enum_ty)
    dv = [v['discr'] for v in (adt or {}).get('variants', []) if v['name'] == variant]
    if dv:
        for bi in sorted(body.live):
            t = body.blocks[bi]['term']
            if t['k'] != 'switch' or t['d']['k'] == 'const': continue
            for k2, b2, d in body.defs_of(t['d']['pl']['l']):
                if k2 != 'stmt' or d['rv']['k'] != 'discr': continue
                if not value_has_type(body, d['rv']['pl'], enum_ty): continue
                m = {v: tg for v, tg in t['ts']}
                yes = m.get(dv[0], t['else'])
                nos = {tg for v, tg in m.items() if v != dv[0]} | {t['else']}
                nos = {x for x in nos if x != yes and body.blocks[x]['term']['k'] != 'unreachable'}
                ry = reach_vp(body, [yes]); rn = reach_vp(body, sorted(nos)) if nos else set()
                out.append((ry - rn, rn - ry))
    return out


def value_has_type(body, pl, ty, depth=8):
    """the value read from place pl (through copies, references and components of freshly built tuples) has type ty"""
    for _ in range(depth):
        fs = [p for p in pl['p'] if p != '*']
        l = pl['l']
        if not fs:
            if body.locals[l].replace('&', '').strip() == ty: return True
            defs = [d for d in body.defs_of(l) if not (d[0] == 'stmt' and d[2]['dst']['p'])]
            if len(defs) != 1 or defs[0][0] != 'stmt': return False
            rv = defs[0][2]['rv']
            if rv['k'] == 'use' and rv['ops'][0]['k'] in ('copy', 'move'): pl = rv['ops'][0]['pl']; continue
            if rv['k'] == 'ref': pl = rv['pl']; continue
            return False
        if len(fs) == 1 and isinstance(fs[0], dict) and fs[0].get('of') == 'tuple':
            defs = [d for d in body.defs_of(l) if not (d[0] == 'stmt' and d[2]['dst']['p'])]
            if len(defs) == 1 and defs[0][0] == 'stmt' and defs[0][2]['rv']['k'] == 'agg' and defs[0][2]['rv']['adt'] == 'tuple':
                o = defs[0][2]['rv']['ops'][int(fs[0]['f'])]
                if o['k'] in ('copy', 'move'): pl = o['pl']; continue
        return False
    return False


def message_delegates(ctx, b):
    """calls that hand the whole message (parameter 1, by value or by reference) to another function of the crate:
    (call, callee body).  "existing helper / sibling conversion reused": the callee then carries the contract."""
    out = []
    for c in b.calls:
        cb = ctx.F.bodies.get(c.path) or ctx.F.bodies.get(c.name)
        if cb is None or cb.kind != 'fn' or cb is b: continue
        for a in c.args:
            if a['k'] in ('copy', 'move'):
                fs, root, calls = T.access_path(b, a)
                if root == 1 and not fs and not calls: out.append((c, cb)); break
    return out


def bound_table_in(ctx, fb):
    """the unset-bound table read off one body: (score, table, conversions of a set bound, Guard) or None"""
    tests = option_tests(fb, DV, 'bound')
    if not tests: return None
    # the typed kind, or the message's kind (the Kind conversion table is checked by C08.parse.required/Kind/table)
    kind_tests = enum_tests(ctx, fb, 'decision_variable::Kind', 'Binary') + enum_tests(ctx, fb, 'v1::decision_variable::Kind', 'Binary')
    best = None
    for g in tests:
        sr = g.only(True); nr = g.only(False)
        # a set bound is validated: parsed (Parse for v1::Bound) | Bound::try_from(v1::Bound) | Bound::new(b.lower, b.upper)
        conv = [c for c in fb.calls if c.bb in sr and ((c.item in ('parse_as', 'parse') and 'v1::Bound as parse::Parse' in c.name)
                                                        or (c.item == 'try_from' and re.search(r'<bound::Bound as std::convert::TryFrom<&?v1::Bound>>', c.name))
                                                        or (c.path.endswith('Bound::new') and len(c.args) == 2 and ('v1::Bound', 'lower') in T.access_path(fb, c.args[0])[0] and ('v1::Bound', 'upper') in T.access_path(fb, c.args[1])[0]))]
        tab = {'some': 'parsed' if conv else 'other', 'none-binary': 'other', 'none-other': 'other'}
        news = [c for c in fb.calls if c.bb in nr and c.path.endswith('Bound::new')]
        defs = [c for c in fb.calls if c.bb in nr and c.item == 'default' and 'bound::Bound' in c.name]
        for yes, no in kind_tests:
            v01 = [tuple(T.f64_const(a['v']) if a['k'] == 'const' else None for a in x.args) for x in news if x.bb in yes]
            if v01 == [(0.0, 1.0)] and not any(x.bb in yes for x in defs): tab['none-binary'] = (0.0, 1.0)
            if any(x.bb in no for x in defs) and not any(x.bb in no for x in news): tab['none-other'] = 'Bound::default'
        score = sum(1 for k, v in tab.items() if v != 'other')
        if best is None or score > best[0]: best = (score, tab, conv, g)
    return best


def parse_bound_table(ctx, rule, b):
    """Some(b) => parsed ; None & Binary => [0,1] ; None => Bound::default()   (as get_bounds / TryFrom<&DecisionVariable>).
    The table is read in the parser itself, or in a function of the crate to which the parser hands the whole message and whose
    result becomes the typed `bound` (delegation to a sibling consumer such as TryFrom<&v1::DecisionVariable> for Bound);
    the delegate's error must propagate."""
    where = b; best = bound_table_in(ctx, b)
    if best is None:
        bops = [agg_field_operand(st, 'bound') for bi, st in find_aggregates(b, 'decision_variable::DecisionVariable')]
        feeds = set()
        for op in bops:
            if op is not None: feeds |= ctx.S.slice_operand(b, op).locals
        for c, cb in message_delegates(ctx, b):
            if c.dst['l'] not in feeds or any(k == 'bad' for k, _ in errflow_vp(b, c.dst['l'])): continue
            cand = bound_table_in(ctx, cb)
            if cand is not None and (best is None or cand[0] > best[0]): best = cand; where = cb
    ctx.check(best is not None, rule + '/bound-option-test', 'T-BRANCHFX', b.name, 'no case split on self.bound (in the parser or in a function it hands the message to)', b.site())
    if best is None: return
    score, tab, conv, g = best
    errflow_calls(ctx, rule + '/some/error', where, conv, 'bound parse')
    ctx.check(tab == {'some': 'parsed', 'none-binary': (0.0, 1.0), 'none-other': 'Bound::default'}, rule + '/table', 'T-SIBLING', where.name,
              'unset-bound table is %s; expected Some=>parsed, None+Binary=>[0,1], None=>Bound::default() as in get_bounds / TryFrom<&DecisionVariable>' % tab, where.site(g.switch_bb), table=str(tab))


# =============================================================================================
# C08.parse.ids
# =============================================================================================
def entry_arms(body, c):
    """arms of `match map.entry(k)`: (switch_bb, occupied_target, vacant_target)"""
    out = []
    for sb, m, els in T.option_arms(body, c.dst['l']):
        kinds = {}
        for v, tg in list(m.items()) + [(None, els)]:
            for st in body.blocks[tg]['st']:
                for pl in ([st['rv']['pl']] if 'rv' in st and 'pl' in st['rv'] else []) + [o['pl'] for o in (st.get('rv') or {}).get('ops', []) if o['k'] in ('copy', 'move')]:
                    if pl['l'] == c.dst['l']:
                        for p in pl['p']:
                            if isinstance(p, dict) and p.get('dc') in ('Occupied', 'Vacant'): kinds[p['dc']] = tg
        if 'Occupied' not in kinds or 'Vacant' not in kinds:
            order = ('Vacant', 'Occupied') if 'btree_map' in c.name or 'BTreeMap' in c.name else ('Occupied', 'Vacant')      # declaration order of the std Entry enums
            kinds = {order[0]: m.get(0, els), order[1]: m.get(1, els)}
        out.append((sb, kinds['Occupied'], kinds['Vacant']))
    return out


def unique_insertions(ctx, body):
    """sites where an element is stored in a map under its id and a repeated id is an error -> (storing bb, rejected?, call).
      if map.insert(k, v).is_some() { Err } | .is_none() | if let Some(_) = map.insert(k, v) { Err }         -- the displaced value is tested
      match map.entry(k) { Occupied(_) => Err, Vacant(e) => { e.insert(v); } }                             -- entry API
      if map.contains_key(&k) { Err } ; map.insert(k, v)                                                    -- test, then store in the same map"""
    out = []
    oks = body.strict_ok_exits()
    for c in body.calls:
        if is_map_insert(c):
            rej = False
            for l in T.copies_of(body, c.dst['l']):
                for kind, bi, y in body.uses.get(l, ()):
                    if kind == 'call' and y.item in ('is_some', 'is_none') and y.arg_local(0) == l:
                        rej = rej or any(g.requires(y.item == 'is_none') for g in guards_of_call(body, y))
            rej = rej or any(g.requires(False) for g in variant_guards(body, c.dst['l'], 1))
            if not rej:
                root = root_of(body, c.args[0])
                for k in body.calls:
                    if k.item == 'contains_key' and MAP_RE.search(k.name) and root_of(body, k.args[0]) == root:
                        for g in guards_of_call(body, k):
                            if g.requires(False) and c.bb in g.f['blocks'] and c.bb not in g.only(True): rej = True
            out.append((c.bb, rej, c))
        elif c.item == 'entry' and MAP_RE.search(c.name) and not c.dst['p']:
            for sb, occ, vac in entry_arms(body, c):
                ro = reach_vp(body, [occ]); rv_ = reach_vp(body, [vac])
                rej = not (ro & oks) and bool(ro & body.err_exits())
                for y in body.calls:
                    if y.item == 'insert' and 'VacantEntry' in y.name and y.bb in rv_ - ro and c.dst['l'] in ctx.S.slice_operand(body, y.args[0]).locals:
                        out.append((y.bb, rej, c))
    return out


def unique_map_rule(ctx, rule, body, what):
    sites = unique_insertions(ctx, body)
    sites.sort(key=lambda s: not s[1])
    ctx.check(bool(sites) and sites[0][1], rule + '/unique', 'T-GUARD', body.name, 'a repeated %s id is accepted' % what, body.site(sites[0][0]) if sites else body.site())
    ok = False
    if sites:
        lo = enclosing_loop(body, sites[0][0])
        if lo is not None:
            src = ctx.S.slice_operand(body, lo[0].args[0])
            ok = 1 in src.params and T.must_pass(body, lo[2], {lo[1]}, {sites[0][0]}) and all(body.dominates(lo[1], e) for e in body.strict_ok_exits())
    ctx.check(ok, rule + '/every-element', 'T-LOOPMUST', body.name, 'an element can be dropped', body.site())


def membership_guards(body):
    """tests `k is a key of map` -> (Guard with predicate `is a key`, call).  Equivalent idioms:
      map.contains_key(&k) | map.get(&k).is_some() / .is_none() | match map.get(&k) { Some(_) => .., None => .. } (also get_key_value / get_mut)"""
    out = []
    for c in body.calls:
        if not MAP_RE.search(c.name) or len(c.args) != 2: continue
        if c.item == 'contains_key': out += [(g, c) for g in guards_of_call(body, c)]
        elif c.item in ('get', 'get_key_value', 'get_mut') and not c.dst['p']:
            out += [(g, c) for g in variant_guards(body, c.dst['l'], 1)]
            for l in T.copies_of(body, c.dst['l']):
                for kind, bi, y in body.uses.get(l, ()):
                    if kind == 'call' and y.item in ('is_some', 'is_none') and y.arg_local(0) == l:
                        out += [(g if y.item == 'is_some' else g.inverted(), c) for g in guards_of_call(body, y)]
    return out


ID_KEY = {'variable': 'decision_variable::VariableID', 'constraint': 'constraint::ConstraintID'}


def id_tests(ctx, body, adt, field, kind):
    """membership tests (see membership_guards) of an id that derives from the message field adt.field in a table keyed by
    VariableID / ConstraintID.  The helpers as_variable_id / as_constraint_id are written out at their call sites by the
    module's normal form, so a call of the helper and its body pasted in place are the same thing here."""
    out = []
    for g, c in membership_guards(body):
        if not re.search(r'(HashMap|BTreeMap)::<' + re.escape(ID_KEY[kind]) + r'\b', c.name): continue
        s = ctx.S.slice_operand(body, c.args[1]); ctx.counters['slices'] += 1
        if s.has_field(adt, field): out.append((g, c))
    return out


def undefined_error(body, g, kind):
    """on the `not a key` side RawParseError::Undefined<Kind>ID is built and only Err-exits are reachable"""
    only = g.only_this_time(False); suffix = 'RawParseError::Undefined%sID' % kind.capitalize()
    built = False
    for bi, st in body.stmts():
        if bi not in only or st['rv']['k'] != 'agg': continue
        if st['rv']['adt'].endswith(suffix): built = True
        elif st['rv']['adt'].endswith('Result::Err') and st['rv']['ops']:
            # `.ok_or(E)`: E is built before the test, this side wraps it
            if any(y[0] == 'agg' and y[1].endswith(suffix) for y in T.expr_walk(T.expr(body, st['rv']['ops'][0]))): built = True
    return built and g.f['err'] and not g.f['ok']


def error_path(b, targets, msg_ty, field):
    """every way from `targets` (the failing side of a test) to an Err-exit passes `.context("ommx.<message>", "<field>")`:
    the error names the path to the offending field (RawParseError::context / ParseError::context, also inside a map_err
    closure, which the normal form writes out)"""
    want = 'ommx.' + '.'.join(msg_ty.split('::'))
    sites = tuple(sorted({c.bb for c in b.calls if c.item == 'context' and 'ParseError' in c.name and len(c.args) == 3
                          and lit_of(b, c.args[2]) == field and lit_of(b, c.args[1]) == want}))
    ts = [t for t in targets if t is not None and t not in sites]
    if not sites: return False
    return not (reach_vp(b, sorted(ts), stop=sites) & b.err_exits()) if ts else True


def ids_rules(ctx):
    R = 'C08.parse.ids'
    for fn, err in (('as_variable_id', 'UndefinedVariableID'), ('as_constraint_id', 'UndefinedConstraintID')):
        b = ctx.free_fn(R + '/%s/anchor' % fn, 'instance::' + fn)
        if b is None: continue
        tests = membership_guards(b)
        ok = any(g.requires(True) and T.access_path(b, c.args[0])[1] == 1 for g, c in tests)
        for c in {id(c): c for g, c in tests}.values():
            ctx.check(T.access_path(b, c.args[0])[1] == 1, R + '/%s/table' % fn, 'T-CARRY', b.name, 'membership is not tested in the given table', b.site(c.bb))
        agg = [st for bi, st in b.stmts() if st['rv']['k'] == 'agg' and st['rv']['adt'].endswith('RawParseError::' + err)]
        ctx.check(ok and bool(agg), R + '/%s/undefined-is-error' % fn, 'T-GUARD', b.name, 'an id that is not a key of the table is not rejected with %s' % err, b.site())
    b = ctx.method(R + '/Instance/anchor', 'instance::Instance', 'try_from', trait='TryFrom', targs=['v1::Instance'])
    if b is not None:
        # the key of every entry of decision_variable_dependency is a defined variable and the entry is stored under that key
        tests = id_tests(ctx, b, INST, 'decision_variable_dependency', 'variable')
        ok = keyed = False; site = b.site()
        for g, c in tests:
            lo = enclosing_loop(b, c.bb)
            if lo is None or not ctx.S.slice_operand(b, lo[0].args[0]).has_field(INST, 'decision_variable_dependency'): continue
            site = b.site(c.bb)
            if g.requires(True) and T.must_pass(b, lo[2], {lo[1]}, {c.bb}) and all(b.dominates(lo[1], e) for e in b.strict_ok_exits()): ok = True
            k = root_of(b, c.args[1])
            if any(x.bb in lo[4] and is_map_insert(x) and k in ctx.S.slice_operand(b, x.args[1]).locals for x in b.calls): keyed = True
        ctx.check(keyed, R + '/Instance/dependency-key-is-checked-id', 'T-CARRY', b.name, 'dependency is stored under an unchecked key', site)
        ctx.check(ok, R + '/Instance/dependency-keys-checked', 'T-LOOPMUST', b.name, 'dependency keys are not checked against the defined variables', site)
        ctx.check(any(undefined_error(b, g, 'variable') for g, c in tests), R + '/Instance/dependency-key-error', 'T-ERRFLOW', b.name, 'an undefined dependency key does not end in UndefinedVariableID', site)
        ctx.check(any(g.requires(True) and error_path(b, g.f_targets, INST, 'decision_variable_dependency') for g, c in tests), R + '/Instance/dependency-key-error-path', 'T-CONST', b.name,
                  'the error for an undefined dependency key does not carry the path ommx.v1.Instance[decision_variable_dependency]', site)
    # hints
    for ty, specs in (('v1::OneHot', [('constraint_id', 'constraint', False), ('decision_variables', 'variable', True)]),
                      ('v1::Sos1', [('binary_constraint_id', 'constraint', False), ('big_m_constraint_ids', 'constraint', True), ('decision_variables', 'variable', True)])):
        b = ctx.method(R + '/%s/anchor' % short(ty), ty, 'parse', trait='Parse')
        if b is None: continue
        for field, kind, listy in specs:
            tests = id_tests(ctx, b, ty, field, kind)
            good = [(g, c) for g, c in tests if g.requires(True)]
            site = b.site(good[0][1].bb) if good else (b.site(tests[0][1].bb) if tests else b.site())
            ctx.check(bool(good), R + '/%s.%s/checked' % (short(ty), field), 'T-GUARD', b.name, '%s is not tested against the defined %ss (an undefined id is accepted)' % (field, kind), site)
            if tests:
                ctx.check(any(undefined_error(b, g, kind) for g, c in (good or tests)), R + '/%s.%s/error' % (short(ty), field), 'T-ERRFLOW', b.name, 'an undefined %s does not end in Undefined%sID' % (field, kind.capitalize()), site)
            if not good: continue
            paths = any(error_path(b, g.f_targets, ty, field) for g, c in good)
            if listy:
                every = rep = False; rep_path = False
                for g, c in good:
                    lo = collection_loop(ctx, b, c.bb, ty, field)
                    if lo is None: continue
                    it = ctx.S.slice_operand(b, lo[0].args[0])
                    restr = [x.item for x in it.call_objs if x.item in RESTRICTING and 'Iterator' in (x.trait or '')]
                    if not restr and T.must_pass(b, lo[2], {lo[1]}, {c.bb}) and all(b.dominates(lo[1], e) for e in b.strict_ok_exits()): every = True
                    # the tested id is inserted into a set and a repeated id is an error (insert false => Err)
                    k = root_of(b, c.args[1])
                    ins = [x for x in b.calls if x.bb in lo[4] and is_set_insert(x) and k in ctx.S.slice_operand(b, x.args[1]).locals]
                    for x in ins:
                        for gg in guards_of_call(b, x):
                            if gg.requires(True):
                                rep = True
                                if error_path(b, gg.f_targets, ty, field): rep_path = True
                ctx.check(every, R + '/%s.%s/every-element' % (short(ty), field), 'T-LOOPMUST', b.name, 'an element can skip the check', site)
                ctx.check(rep, R + '/%s.%s/repeated-is-error' % (short(ty), field), 'T-GUARD', b.name, 'a repeated id is accepted', site)
                paths = paths and rep_path
            else:
                ctx.check(any(g.dominates_ok_exits() for g, c in good), R + '/%s.%s/dominates' % (short(ty), field), 'T-MUSTCALL', b.name, 'check does not dominate the Ok-exit', site)
            ctx.check(paths, R + '/%s.%s/error-path' % (short(ty), field), 'T-CONST', b.name,
                      'an undefined%s id is not reported with the path %s[%s] (missing `.context(message, "%s")` on the failing side)' % (' or repeated' if listy else '', 'ommx.' + '.'.join(ty.split('::')), field, field), site)
    # every hint of the message is parsed and kept: no element of the lists is dropped before / instead of being checked
    b = ctx.method(R + '/ConstraintHints/anchor', 'v1::ConstraintHints', 'parse', trait='Parse')
    if b is not None:
        aggs = find_aggregates(b, 'instance::ConstraintHints')
        for fld in ('one_hot_constraints', 'sos1_constraints'):
            parsed = kept = False; site = b.site()
            for c in b.calls:
                if not (c.item in ('parse_as', 'parse') and (c.trait or '').endswith('Parse') and c.args and receiver_field(ctx, b, c.args[0], 'v1::ConstraintHints') == [fld]): continue
                lo = collection_loop(ctx, b, c.bb, 'v1::ConstraintHints', fld)
                if lo is None: continue
                site = b.site(c.bb)
                it = ctx.S.slice_operand(b, lo[0].args[0])
                restr = [x.item for x in it.call_objs if x.item in RESTRICTING and 'Iterator' in (x.trait or '')]
                whole = not restr and all(b.dominates(lo[1], e) for e in b.strict_ok_exits())
                if whole and T.must_pass(b, lo[2], {lo[1]}, {c.bb}): parsed = True
                # the parsed hint is stored (push / insert) on every way round the loop, in the collection that becomes the typed list
                stores = [x for x in b.calls if x.bb in lo[4] and x.item in ('push', 'insert', 'push_back', 'extend') and len(x.args) >= 2 and c in ctx.S.slice_operand(b, x.args[-1]).call_objs]
                for bi, st in aggs:
                    op = agg_field_operand(st, fld)
                    if op is None: continue
                    fs = ctx.S.slice_operand(b, op)
                    via = {x.bb for x in stores if x in fs.call_objs}
                    if whole and via and T.must_pass(b, lo[2], {lo[1]}, via): kept = True
            ctx.check(parsed, R + '/hints/%s/every-element-parsed' % fld, 'T-LOOPMUST', b.name, 'a hint of `%s` can be skipped without being parsed (an invalid hint is dropped silently)' % fld, site)
            ctx.check(kept, R + '/hints/%s/every-element-kept' % fld, 'T-LOOPMUST', b.name, 'a parsed hint of `%s` does not always reach the typed list' % fld, site)
    # removed constraints against the active map and their own map; duplicates in Vec parsers
    b = ctx.method(R + '/Vec<RemovedConstraint>/anchor', 'std::vec::Vec<v1::RemovedConstraint>', 'parse', trait='Parse')
    if b is not None:
        ok1 = any(g.requires(False) for g, c in membership_guards(b) if T.access_path(b, c.args[0])[1] == 2)       # param 2 = the active constraints
        ctx.check(ok1, R + '/Vec<RemovedConstraint>/not-an-active-id', 'T-GUARD', b.name, 'a removed constraint sharing its id with an active one is accepted', b.site())
        unique_map_rule(ctx, R + '/Vec<RemovedConstraint>', b, 'removed-constraint')
    for ty, what in (('std::vec::Vec<v1::Constraint>', 'constraint'), ('std::vec::Vec<v1::DecisionVariable>', 'variable')):
        b = ctx.method(R + '/%s/anchor' % short(ty), ty, 'parse', trait='Parse')
        if b is None: continue
        unique_map_rule(ctx, R + '/%s' % short(ty), b, what)


# =============================================================================================
# C08.parse.carry
# =============================================================================================
def carry_rules(ctx):
    R = 'C08.parse.carry'
    specs = [
        ((CON, 'parse', 'Parse', None), 'constraint::Constraint', CON, {'id': 'id', 'function': 'function', 'equality': 'equality', 'name': 'name', 'subscripts': 'subscripts', 'parameters': 'parameters', 'description': 'description'}),
        ((RC, 'parse', 'Parse', None), 'constraint::RemovedConstraint', RC, {'constraint': 'constraint', 'removed_reason': 'removed_reason', 'removed_reason_parameters': 'removed_reason_parameters'}),
        ((DV, 'parse', 'Parse', None), 'decision_variable::DecisionVariable', DV, {'id': 'id', 'kind': 'kind', 'bound': 'bound', 'substituted_value': 'substituted_value', 'name': 'name', 'subscripts': 'subscripts', 'parameters': 'parameters', 'description': 'description'}),
        (('instance::Instance', 'try_from', 'TryFrom', ['v1::Instance']), 'instance::Instance', INST, {'sense': 'sense', 'objective': 'objective', 'decision_variables': 'decision_variables', 'constraints': 'constraints', 'removed_constraints': 'removed_constraints',
                                                                                                     'decision_variable_dependency': 'decision_variable_dependency', 'parameters': 'parameters', 'description': 'description', 'constraint_hints': 'constraint_hints'}),
    ]
    for (ty, item, trait, targs), typed, src, fmap in specs:
        b = ctx.method(R + '/%s/anchor' % short(typed), ty, item, trait=trait, targs=targs)
        if b is None: continue
        aggs = find_aggregates(b, typed)
        ctx.check(len(aggs) >= 1, R + '/%s/aggregate' % short(typed), 'T-CARRY', b.name, 'no %s aggregate is built' % typed, b.site())
        fields = ctx.F.adt_fields(typed) or []
        ctx.check(set(fields) == set(fmap), R + '/%s/field-list' % short(typed), 'T-COVER', b.name, 'typed struct fields changed: %s' % sorted(set(fields) ^ set(fmap)), b.site())
        msg_fields = ctx.F.adt_fields(src) or []
        ctx.check(set(msg_fields) == set(fmap.values()), R + '/%s/message-field-list' % short(typed), 'T-COVER', b.name, 'message fields without a typed counterpart: %s' % sorted(set(msg_fields) ^ set(fmap.values())), b.site())
        for bi, st in aggs:          # every aggregate that is built must carry every field
            for tf, mf in fmap.items():
                op = agg_field_operand(st, tf)
                if op is None: continue
                s = slice_op(ctx, b, op)
                own = sorted({f for a, f in s.fields if (a == src or a.endswith('::' + src))})
                direct = [f for a, f in T.access_path(b, op)[0] if a == src]
                ok = s.has_field(src, mf)
                # simple copies must come from exactly the same-named field
                if direct: ok = ok and direct == [mf]
                restr = sorted({x.item for x in s.call_objs if x.item in RESTRICTING and 'Iterator' in (x.trait or '')})       # only a part of a repeated field is taken over
                ctx.check(ok and not restr, R + '/%s/%s' % (short(typed), tf), 'T-CARRY', b.name, ('typed field `%s` is not taken from message field `%s` (reads %s)' % (tf, mf, direct or own)) if not ok else 'typed field `%s` takes over only a part of `%s` (%s)' % (tf, mf, restr), b.site(bi))


# =============================================================================================
# C08.parse.path
# =============================================================================================
def success_payload(body, l):
    """local l is built as Ok(x) / Some(x) on one arm and as Err(..) / None (or a residual) on the others: the operand x"""
    defs = [d for d in body.defs_of(l) if not (d[0] == 'stmt' and d[2]['dst']['p'])]
    if len(defs) < 2: return None
    good = [d for d in defs if d[0] == 'stmt' and d[2]['rv']['k'] == 'agg' and d[2]['rv']['adt'].endswith(('Result::Ok', 'Option::Some')) and len(d[2]['rv']['ops']) == 1]
    rest = [d for d in defs if d not in good]
    if len(good) != 1: return None
    if not all((d[0] == 'stmt' and d[2]['rv']['k'] == 'agg' and d[2]['rv']['adt'].endswith(('Result::Err', 'Option::None'))) or (d[0] == 'call' and _term_item(d[2]) == 'from_residual') for d in rest): return None
    o = good[0][2]['rv']['ops'][0]
    return o if o['k'] in ('copy', 'move') else None


def receiver_field(ctx, fb, operand, msg_ty):
    """the field (or prost getter) of the message msg_ty whose value `operand` is:
      self.f / self.f.ok_or(..)? / self.f() (getter)                   -- the access path names it
      an element of self.f  (`for x in self.f`, `self.f.into_iter().map(|x| ..)` in normal form)
                                                                        -- the path ends in Iterator::next; the iterator derives from exactly one field
      the payload of a tested Option field (`let Some(x) = self.f else ..`)  -- the path crosses the field"""
    for _ in range(4):
        fs, rootl, calls = T.access_path(fb, operand)
        named = [f for a, f in fs if a == msg_ty]
        getter = [short(x) for x in calls if x.startswith(msg_ty + '::')]
        src = named[:1] or getter[:1]
        if src: return src
        nxt = success_payload(fb, rootl) if rootl is not None else None       # `self.f.ok_or(E)?` written out: Ok(payload of f) | Err(E)
        if nxt is None: break
        operand = nxt
    p = place_of(fb, operand)                # component of a freshly built tuple: `match (self.f, k) { (Some(x), _) => x.parse_as(..) }`
    if p and [f for a, f in p[1] if a == msg_ty]: return [f for a, f in p[1] if a == msg_ty][:1]
    if calls and re.search(r'Iterator>::next$', calls[-1]) and rootl is not None:
        for k, bi, d in fb.defs_of(rootl):
            if k == 'call' and d['args']:
                s = ctx.S.slice_operand(fb, d['args'][0])
                own = sorted({f for a, f in s.fields if a == msg_ty})
                if len(own) == 1: return own
    return []


def path_rules(ctx):
    """C08.parse.path: parse_as(ctx, message, field): `field` names the field whose value is parsed, `message` the message type"""
    R = 'C08.parse.path'
    for fb in ctx.F.bodies.values():
        if fb.kind == 'promoted': continue
        if fb.name in getattr(ctx.F, 'inlined_closures', ()): continue          # its body stands in the parent now
        root = ctx.F.bodies.get(fb.parent, fb)
        self_ty = root.hdr.get('self') or ''
        targs = root.hdr.get('targs') or []
        msg_ty = None
        if (root.hdr.get('trait') or '').endswith('Parse') and self_ty.startswith('v1::'): msg_ty = self_ty
        if (root.hdr.get('trait') or '').endswith('TryFrom') and targs and targs[0].startswith('v1::'): msg_ty = targs[0]
        if msg_ty is None: continue
        want_msg = 'ommx.' + '.'.join(msg_ty.split('::'))
        for c in fb.calls:
            if not (c.item == 'parse_as' and (c.trait or '').endswith('Parse')): continue
            field = lit_of(fb, c.args[3]); message = lit_of(fb, c.args[2])
            if field is None:
                ctx.undecided(R + '/field-literal', 'T-CONST', fb.site(c.bb), 'field name is not a literal'); continue
            if fb.kind == 'closure':
                # closure that was not spliced (e.g. Option::map): its argument is the payload of the adaptor's receiver in the parent
                src = []
                pa = ctx.F.bodies.get(fb.parent)
                if pa is not None and T.access_path(fb, c.args[0])[1] == 2:
                    for x in pa.calls:
                        if len(x.args) == 2 and x.item in ('map', 'and_then', 'map_or', 'map_or_else') and closure_of_operand(ctx, pa, x.args[-1]) is fb:
                            src = receiver_field(ctx, pa, x.args[0], msg_ty)
            else:
                src = receiver_field(ctx, fb, c.args[0], msg_ty)
            if len(src) != 1:
                ctx.undecided(R + '/field-literal', 'T-CONST', fb.site(c.bb), 'receiver does not name exactly one field'); continue
            ctx.check(src[0] == field, R + '/field-literal', 'T-CONST', fb.name, 'parse_as(.., "%s") is applied to field `%s`' % (field, src[0]), fb.site(c.bb))
            if message is not None:
                ctx.check(message == want_msg, R + '/message-literal', 'T-CONST', fb.name, 'message literal "%s" in the %s parser, expected "%s"' % (message, msg_ty, want_msg), fb.site(c.bb))
    # delegated conversions: a Result-returning function of the crate that receives the whole message and whose value becomes
    # exactly one typed field: its error is reported under that field (`.map_err(|e| ..context(message, "<field>"))?`)
    for fb in ctx.F.bodies.values():
        if fb.kind != 'fn': continue
        tr = fb.hdr.get('trait') or ''; self_ty = fb.hdr.get('self') or ''; targs = fb.hdr.get('targs') or []
        msg_ty = self_ty if (tr.endswith('Parse') and self_ty.startswith('v1::')) else (targs[0] if (tr.endswith('TryFrom') and targs and targs[0].startswith('v1::')) else None)
        if msg_ty is None: continue
        mfields = set(ctx.F.adt_fields(msg_ty) or [])
        for c, cb in message_delegates(ctx, fb):
            if not re.match(r'(std|core)::result::Result<', cb.locals[0].strip()) or (c.trait or '').endswith('Parse'): continue
            into = set()
            for bi, st in fb.stmts():
                if st['rv']['k'] == 'agg' and st['rv'].get('fields'):
                    for fname, op in zip(st['rv']['fields'], st['rv']['ops']):
                        if fname in mfields and op['k'] in ('copy', 'move') and c.dst['l'] in ctx.S.slice_operand(fb, op).locals: into.add(fname)
            if len(into) != 1:
                ctx.undecided(R + '/field-literal', 'T-CONST', fb.site(c.bb), 'the delegated conversion feeds %d typed fields' % len(into)); continue
            field = sorted(into)[0]
            fails = [g.true_bb for l in T.copies_of(fb, c.dst['l'], through_refs=False) for g in variant_guards(fb, l, 1) if g.true_bb is not None]
            arms = T.try_arms(fb, c.dst['l'])
            if arms: fails.append(arms[1])
            okp = bool(fails) and error_path(fb, fails, msg_ty, field)
            ctx.check(okp, R + '/field-literal', 'T-CONST', fb.name, 'the error of the conversion that yields `%s` is not reported under field `%s`' % (field, field), fb.site(c.bb))
            ctx.check(okp, R + '/message-literal', 'T-CONST', fb.name, 'the error of the conversion that yields `%s` is not reported under message ommx.%s' % (field, '.'.join(msg_ty.split('::'))), fb.site(c.bb))
    # elements of the hint lists are parsed under the name of their list
    b = ctx.F.one('v1::ConstraintHints', 'parse', trait='Parse')
    if b is not None:
        for fld in ('one_hot_constraints', 'sos1_constraints'):
            ok = False
            for c in b.calls:
                if c.item == 'parse_as' and lit_of(b, c.args[3]) == fld and receiver_field(ctx, b, c.args[0], 'v1::ConstraintHints') == [fld]: ok = True
            ctx.check(ok, R + '/hints/' + fld, 'T-CONST', b.name, 'elements of `%s` are parsed with another field name in the error path' % fld, b.site())


def check(ctx):
    open_combinators(ctx)
    validate_rules(ctx); used_kernel_rules(ctx); enum_parse_rules(ctx); bound_rules(ctx); ids_rules(ctx); carry_rules(ctx); path_rules(ctx)
    # floors = decided instances on the pinned tree
    ctx.floor('C08.validate', 4); ctx.floor('C08.dup', 31); ctx.floor('C08.defined', 21); ctx.floor('C08.parse.required', 15); ctx.floor('C08.parse.bound', 12)
    ctx.floor('C08.parse.ids', 42); ctx.floor('C08.parse.carry', 39); ctx.floor('C08.parse.default', 4); ctx.floor('C08.parse.path', 30); ctx.floor('C08.used-kernel', 8)
