"""C17 — reading MPS (DESIGN §5 C17).

Written against the normal form (VIEW = 'norm': extracted helpers inlined, iterator chains as explicit loops).
Tables of the format (RANGES signs, bound defaults, row normalisation, finish()) are decided on VALUES with a
small symbolic path evaluator (class Sx below) under an enumerated case oracle, the keyword tables and the
per-keyword effects on the CFG regions of each `x == "KEYWORD"` test."""
import json, math
from .common import *

VIEW = 'norm'

# =====================================================================================================
# Symbolic paths ("Sx"): a small path-sensitive evaluator over the mini-MIR.  Nothing is executed: the
# statements of ONE function are interpreted over symbolic values along every acyclic path (every block
# at most `max_visits` times), with an oracle that fixes the outcome of the case distinctions a rule
# enumerates ("row is in eq", "l has no entry", "r < 0", ...).  A rule then states its table on the
# *values* that reach a sink (a table insert, a returned aggregate), not on the shape of the code:
# hoisted lets, guard arms, `if` vs `match`, `x.remove(k)` used as the test, extracted helpers (normal
# form) and closures of Option adaptors all evaluate to the same thing.
#
# Symbolic values (hashable tuples):
#   ('const', text) ('param', i) ('undef', local) ('field', base, name, of) ('index', base, ix)
#   ('agg', adt, fields, vals) ('closure', name, captured) ('ref', v) ('lref', local, projs)
#   ('discr', v) ('bin', op, a, b) ('un', op, a) ('cast', to, a) ('call', item, name, args, bb, nth) ('upd', old, f, v)
# The payload of an Option/Result/ControlFlow value v is always ('field', v', '0', 'payload') with v' the
# value below the payload-preserving adaptors (`ok_or`, `?`, `copied`, ...).
# =====================================================================================================
class SxLimit(Exception):
    pass


GOODV = ('Some', 'Ok', 'Continue'); BADV = ('None', 'Err', 'Break')
# adaptors that keep the payload and the good/bad side of their receiver (one comment per entry)
SX_LOOK = {
    'ok_or': 'R',            # Some(x) -> Ok(x), None -> Err(e)
    'ok_or_else': 'R',       # the same with a lazily built error
    'context': 'R',          # anyhow: None/Err -> Err(msg)
    'with_context': 'R',     # anyhow, lazy
    'map_err': 'R',          # Ok(x) stays Ok(x)
    'branch': 'C',           # the `?` operator: Ok/Some -> Continue, Err/None -> Break
    'copied': 'O', 'cloned': 'O', 'as_ref': 'O', 'as_mut': 'O', 'as_deref': 'O', 'inspect': 'O',   # same variant
}
# calls whose result is (a copy of / a reference to) their first argument
SX_IDENT = {'clone', 'cloned', 'copied', 'as_ref', 'as_mut', 'deref', 'deref_mut', 'borrow', 'borrow_mut', 'to_owned', 'as_deref',
            'as_deref_mut', 'into', 'from', 'must_use', 'as_slice', 'as_str', 'into_owned', 'as_mut_slice', 'black_box', 'identity'}
# iterator consumers the normal form may leave as calls (the others are loops there), adaptors looked through by Sx.pipeline
SX_CONSUMERS = {'unzip', 'collect', 'partition', 'count', 'last', 'max', 'min', 'max_by', 'min_by', 'max_by_key', 'min_by_key', 'sum', 'product', 'nth', 'reduce'}
SX_CLOSURE_ADAPTORS = {'map', 'filter', 'filter_map', 'inspect', 'map_while', 'take_while', 'skip_while', 'flat_map'}
SX_ADAPTORS = SX_CLOSURE_ADAPTORS | {'enumerate', 'zip', 'rev', 'skip', 'take', 'step_by', 'chain', 'cloned', 'copied', 'peekable', 'by_ref', 'into_iter', 'fuse'}
SX_OPT_RE = re.compile(r'^std::(option::Option|result::Result)::<.*>::(\w+)(::<.*>)?$')


def strip_generic_args(name):
    """`a::b::f::<W, T>` -> `a::b::f`"""
    if not name.endswith('>'): return name
    d = 0; i = len(name) - 1
    while i >= 0:
        ch = name[i]
        if ch == '>' and not (i > 0 and name[i - 1] == '-'): d += 1
        elif ch == '<':
            d -= 1
            if d == 0: break
        i -= 1
    return name[:i - 2] if i >= 2 and name[i - 2:i] == '::' else name


def conversion_body(F, name):
    """the body of the crate's `impl From<A> for B` behind a call `<A as Into<B>>::into` / `<B as From<A>>::from`, else None"""
    cb = F.bodies.get(name)
    if cb is not None and cb.kind == 'fn' and cb.hdr.get('item') == 'from' and (cb.hdr.get('trait') or '').endswith('convert::From') and cb.argc == 1: return cb
    m = re.match(r'^<(.+) as std::convert::Into<(.+)>>::into$', name)
    if m: a, b = m.group(1), m.group(2)
    else:
        m = re.match(r'^<(.+) as std::convert::From<(.+)>>::from$', name)
        if not m: return None
        b, a = m.group(1), m.group(2)
    hits = [x for x in F.bodies.values() if x.kind == 'fn' and x.hdr.get('item') == 'from' and (x.hdr.get('trait') or '').endswith('convert::From')
            and x.hdr.get('targs') == [a] and x.hdr.get('self') in (b, b.split('::', 1)[-1]) and x.argc == 1]
    return hits[0] if len(hits) == 1 else None


def parsed_type_from_str(F, name):
    """the body of `<T as FromStr>::from_str` for a call `str::parse::<T>` when T is a type of the crate, else None"""
    m = re.search(r'\bstr>?::parse::<(.+)>$', name)
    if not m: return None
    try: return F.one(m.group(1).strip(), 'from_str', trait='FromStr')
    except Exception: return None


def _hp(p):
    """hashable projection"""
    if isinstance(p, dict):
        if 'f' in p: return ('f', p['f'], p.get('of', ''))
        if 'dc' in p: return ('dc', p['dc'])
        if 'ix' in p: return ('ix', p['ix'])
        return ('c', json.dumps(p, sort_keys=True))
    return p


def _up(p):
    if isinstance(p, tuple):
        if p[0] == 'f': return {'f': p[1], 'of': p[2]}
        if p[0] == 'dc': return {'dc': p[1]}
        if p[0] == 'ix': return {'ix': p[1]}
        return json.loads(p[1])
    return p


def sx_walk(v):
    """all sub-values of a symbolic value"""
    stack = [v]
    while stack:
        x = stack.pop()
        if not isinstance(x, tuple) or not x or not isinstance(x[0], str): continue
        yield x
        k = x[0]
        if k in ('agg', 'call'): stack.extend(x[3])
        elif k == 'closure': stack.extend(x[2])
        elif k in ('const', 'param', 'undef', 'lref'): pass
        else: stack.extend(y for y in x[1:] if isinstance(y, tuple))


def sx_strip(v):
    """look through references"""
    while isinstance(v, tuple) and v and v[0] == 'ref': v = v[1]
    return v


def sx_mentions(path, v, target, depth=3):
    """does value `v` (looking through references to locals, with their value at the end of `path`) contain `target`"""
    for x in sx_walk(v):
        if x == target: return True
        if x[0] == 'lref' and depth > 0 and x[1] in path.env and sx_mentions(path, path.env[x[1]], target, depth - 1): return True
    return False


def sx_derives(path, v, pred, depth=2):
    """does value `v` contain a sub-value satisfying `pred`, directly or through a collection (Vec::new() ...) that received
    such a value by push / insert / extend on this path"""
    nodes = set(sx_walk(v))
    if any(pred(x) for x in nodes): return True
    if depth <= 0: return False
    for e in path.events:
        if e[0] == 'call' and e[1] in ('push', 'insert', 'push_back', 'extend') and e[3]:
            r = e[3][0]; tgt = path.env.get(r[1]) if r[0] == 'lref' else sx_strip(r)
            if tgt in nodes and any(sx_derives(path, a, pred, depth - 1) for a in e[3][1:]): return True
    return False


def sx_as_agg(v, adt):
    """a value of struct type `adt` as ('agg', adt, fields, values): built by a struct expression, or by `T::default()` / a struct
    expression followed by field assignments (`let mut c = T::default(); c.id = id; ..`)"""
    v = sx_strip(v) if v is not None else ('undef', 0)
    if v[0] == 'agg' and v[1].endswith(adt): return v
    if v[0] != 'upd': return None
    ups = {}; x = v
    while x[0] == 'upd':
        ups.setdefault(x[2], x[3]); x = sx_strip(x[1])
    if x[0] == 'agg' and x[1].endswith(adt):
        d = dict(zip(x[2], x[3])); d.update(ups)
    elif x[0] == 'call' and adt in x[2] and x[1] in ('default', 'new'):
        d = ups
    else: return None
    return ('agg', adt, tuple(d.keys()), tuple(d.values()))


def sx_calls(v, item=None):
    return [x for x in sx_walk(v) if x[0] == 'call' and (item is None or x[1] == item)]


def sx_fields(v):
    """(of, name) of every field projection inside a value (incl. the path of a local reference)"""
    out = []
    for x in sx_walk(v):
        if x[0] == 'field': out.append((x[3], x[2]))
        elif x[0] == 'lref': out += [(p[2], p[1]) for p in x[2] if isinstance(p, tuple) and p[0] == 'f']
    return out


def sx_str(v, depth=5):
    if not isinstance(v, tuple) or not v: return str(v)
    if depth <= 0: return '…'
    k = v[0]
    if k == 'const': return v[1][-28:]
    if k == 'param': return 'arg%d' % v[1]
    if k == 'undef': return '_%d' % v[1]
    if k == 'field': return '%s.%s' % (sx_str(v[1], depth - 1), v[2])
    if k == 'index': return '%s[%s]' % (sx_str(v[1], depth - 1), sx_str(v[2], depth - 1))
    if k == 'agg': return '%s(%s)' % (v[1].split('::')[-1], ', '.join(sx_str(x, depth - 1) for x in v[3]))
    if k == 'ref': return '&' + sx_str(v[1], depth)
    if k == 'lref': return '&mut _%d%s' % (v[1], ''.join('.' + p[1] for p in v[2] if isinstance(p, tuple) and p[0] == 'f'))
    if k == 'bin': return '(%s %s %s)' % (sx_str(v[2], depth - 1), v[1], sx_str(v[3], depth - 1))
    if k == 'un': return '%s(%s)' % (v[1], sx_str(v[2], depth - 1))
    if k == 'cast': return sx_str(v[2], depth)
    if k == 'discr': return 'discr(%s)' % sx_str(v[1], depth - 1)
    if k == 'call': return '%s(%s)' % (v[1], ', '.join(sx_str(x, depth - 1) for x in v[3]))
    if k == 'closure': return 'closure'
    return k


class SxOracle:
    """case oracle: the defaults know nothing"""
    def variant(self, sx, v, st): return None        # 'Some' / 'None' / 'Ok' / ... of an opaque value
    def num(self, sx, v, st): return None            # concrete number of a symbolic leaf
    def call(self, sx, node, st): return None        # value of a call (e.g. const bool of `set.contains(k)`)
    def discr(self, sx, v, st): return None          # discriminant (int) of an opaque enum value


class SxState:
    __slots__ = ('bb', 'env', 'events', 'assume', 'visits', 'moved')

    def __init__(self, bb, env, events, assume, visits):
        self.bb = bb; self.env = env; self.events = events; self.assume = assume; self.visits = visits; self.moved = False

    def fork(self):
        s = SxState(self.bb, dict(self.env), list(self.events), dict(self.assume), dict(self.visits)); s.moved = self.moved
        return s


class SxPath:
    __slots__ = ('env', 'events', 'assume', 'end', 'bb', 'value', 'visits')

    def __init__(self, st, end, bb, value):
        self.env = st.env; self.events = st.events; self.assume = st.assume; self.end = end; self.bb = bb; self.value = value; self.visits = st.visits

    def calls(self, item=None):
        return [e for e in self.events if e[0] == 'call' and (item is None or e[1] == item or (not isinstance(item, str) and e[1] in item))]


class Sx:
    def __init__(self, ctx, body, oracle=None, max_visits=2, max_paths=1500, max_steps=400000, depth=0, enter=None):
        self.ctx = ctx; self.F = ctx.F; self.b = body; self.o = oracle or SxOracle()
        self.max_visits = max_visits; self.max_paths = max_paths; self.max_steps = max_steps; self.depth = depth
        # enter(callee body) -> bool: calls of crate functions that are stepped into (every returning path of the callee continues
        # the caller's path), so that a rule reads the same value whether a clause sits in a helper or in its caller
        self.enter = enter
        self.items = {}          # next-call node -> item of an adaptor chain left as it is (see pulled)

    # ---------------------------------------------------------------- values
    def const(self, o):
        v = o['v']
        m = re.search(r'::promoted\[(\d+)\]$', v)
        if m and self.depth < 3:
            pb = self.F.bodies.get(v) or self.F.bodies.get('%s::promoted[%s]' % (self.b.name, m.group(1)))
            if pb is not None and pb is not self.b:
                try:
                    rets = [p for p in Sx(self.ctx, pb, None, depth=self.depth + 1).run() if p.end == 'return']
                except SxLimit:
                    rets = []
                if len(rets) == 1 and rets[0].value is not None: return rets[0].value
        return ('const', v)

    def op(self, o, st):
        if o['k'] == 'const': return self.const(o)
        if o['k'] in ('copy', 'move'): return self.rd(o['pl'], st)
        return ('undef', -1)

    def local(self, l, st):
        v = st.env.get(l)
        if v is None: v = ('param', l) if 1 <= l <= self.b.argc else ('undef', l)
        return v

    def rd(self, pl, st):
        v = self.local(pl['l'], st)
        for p in pl['p']: v = self.proj(v, p, st)
        return v

    def proj(self, v, p, st):
        if p == '*': return self.deref(v, st)
        if isinstance(p, dict):
            if 'f' in p: return self.field(v, p['f'], p.get('of', ''))
            if 'dc' in p: return v                               # the variant is repeated in the `of` of the field that follows
            if 'ix' in p: return ('index', v, self.local(p['ix'], st))
        return ('index', v, ('const', json.dumps(p, sort_keys=True)))

    def deref(self, v, st):
        if v[0] == 'ref': return v[1]
        if v[0] == 'lref': return self.rd({'l': v[1], 'p': [_up(p) for p in v[2]]}, st)
        return v

    def field(self, v, f, of):
        last = of.split('::')[-1]
        if v[0] == 'agg':
            fl, vals = v[2], v[3]
            if f in fl: return vals[fl.index(f)]
            if not fl and f.isdigit() and int(f) < len(vals): return vals[int(f)]
        if v[0] == 'upd':
            return v[3] if v[2] == f else self.field(v[1], f, of)
        if f == '0' and last in GOODV:
            # payload: canonical form below the payload-preserving adaptors
            while v[0] == 'call' and v[1] in SX_LOOK and v[3]: v = sx_strip(v[3][0])
            if v in self.items: return self.items[v]
            return ('field', v, '0', 'payload')
        return ('field', v, f, of)

    def payload(self, v):
        v = sx_strip(v)
        return self.field(v, '0', 'Some')

    # ---------------------------------------------------------------- stores
    def wr(self, pl, val, st):
        l = pl['l']; ps = pl['p']
        if not ps:
            st.env[l] = val; return
        if '*' in ps:
            i = ps.index('*')
            base = self.rd({'l': l, 'p': ps[:i]}, st)
            if base[0] == 'lref':
                self.wr({'l': base[1], 'p': [_up(p) for p in base[2]] + list(ps[i + 1:])}, val, st); return
            st.events.append(('store', self.rd(pl, st), val, st.bb)); return
        st.env[l] = self.upd(self.local(l, st), list(ps), val)

    def upd(self, old, ps, val):
        if not ps: return val
        p = ps[0]
        if isinstance(p, dict) and 'f' in p:
            f = p['f']
            if old[0] == 'agg':
                fl = old[2]; i = fl.index(f) if f in fl else (int(f) if (not fl and f.isdigit() and int(f) < len(old[3])) else None)
                if i is not None:
                    vals = list(old[3]); vals[i] = self.upd(vals[i], ps[1:], val)
                    return ('agg', old[1], old[2], tuple(vals))
            return ('upd', old, f, self.upd(self.field(old, f, p.get('of', '')), ps[1:], val))
        if isinstance(p, dict) and 'dc' in p: return self.upd(old, ps[1:], val)
        return ('upd', old, '?', val)

    # ---------------------------------------------------------------- variants / numbers
    def variant(self, v, st):
        v = sx_strip(v)
        if v[0] == 'agg':
            n = v[1].split('::')[-1]
            return n if n in GOODV or n in BADV else None
        r = self.o.variant(self, v, st)
        if r: return r
        if v[0] == 'call' and v[1] in SX_LOOK and v[3]:
            r = self.variant(v[3][0], st)
            if r:
                fam = SX_LOOK[v[1]]; good = r in GOODV
                if fam == 'R': return 'Ok' if good else 'Err'
                if fam == 'C': return 'Continue' if good else 'Break'
                return r
        return None

    def good(self, v, st, option=True):
        """True / False / None: is the Option/Result/ControlFlow value on its Some/Ok/Continue side"""
        n = self.variant(v, st)
        if n: return n in GOODV
        a = st.assume.get(('discr', sx_strip(v)))
        if isinstance(a, int): return (a == 1) if option else (a == 0)
        return None

    def variant_index(self, v, st):
        v = sx_strip(v)
        a = st.assume.get(('discr', v))
        if a is not None: return a
        a = self.o.discr(self, v, st)
        if a is not None: return a
        if v[0] == 'agg' and '::' in v[1]:
            n = v[1].split('::')[-1]; en = v[1].rsplit('::', 1)[0]
            if en.endswith('option::Option'): return {'None': 0, 'Some': 1}.get(n)
            if en.endswith('result::Result'): return {'Ok': 0, 'Err': 1}.get(n)
            if en.endswith('ControlFlow'): return {'Continue': 0, 'Break': 1}.get(n)
            a_ = self.F.adts.get(en) or self.F.adt(en)
            if a_:
                for x in a_['variants']:
                    if x['name'] == n: return x['discr']
            return None
        n = self.variant(v, st)
        if n is None: return None
        return {'None': 0, 'Some': 1, 'Ok': 0, 'Err': 1, 'Continue': 0, 'Break': 1}[n]

    def conc(self, v, st):
        """concrete value (float / bool) of a symbolic value under the oracle's numbers, or None"""
        k = v[0]
        if k == 'const':
            t = v[1]
            if t in ('true', 'false'): return t == 'true'
            if t in self.F.consts:                                   # a named constant of the crate
                return T.f64_const(self.F.consts[t][1])
            m = re.search(r'([\w:]+)::(\w+)::\{constant#0\}$', t)           # `Enum::Variant as i32`: the explicit discriminant of the variant
            if m:
                a_ = self.F.adt(m.group(1))
                for x in (a_ or {}).get('variants', []):
                    if x['name'] == m.group(2): return float(x['discr'])
                return None
            return T.f64_const(t)
        if k == 'ref': return self.conc(v[1], st)
        if k == 'cast': return self.conc(v[2], st)
        if k == 'discr':                                             # `Enum::Variant as i32` on a value: discriminant of a known variant
            i = self.variant_index(v[1], st)
            return float(i) if isinstance(i, int) else None
        if k == 'agg' and not v[3] and '::' in v[1] and v[1] != 'tuple':
            i = self.variant_index(v, st)
            return float(i) if isinstance(i, int) else None
        if k == 'field' and v[2] == '0' and v[1][0] == 'bin' and v[1][1].endswith('WithOverflow'): return self.conc(v[1], st)     # (value, overflowed).0
        if k == 'bin':
            r = self.o.num(self, v, st)
            if r is not None: return r
            a = self.conc(v[2], st); b = self.conc(v[3], st)
            if a is None or b is None: return None
            op = v[1].replace('WithOverflow', '').replace('Unchecked', '')
            try:
                if op == 'Add': return a + b
                if op == 'Sub': return a - b
                if op == 'Mul': return a * b
                if op == 'Div': return a / b
                if op == 'Eq': return a == b
                if op == 'Ne': return a != b
                if op == 'Lt': return a < b
                if op == 'Le': return a <= b
                if op == 'Gt': return a > b
                if op == 'Ge': return a >= b
                if op == 'Max': return max(a, b)
                if op == 'Min': return min(a, b)
                if op == 'BitAnd' and isinstance(a, bool) and isinstance(b, bool): return a and b
                if op == 'BitOr' and isinstance(a, bool) and isinstance(b, bool): return a or b
            except (ZeroDivisionError, OverflowError, TypeError):
                return None
            return None
        if k == 'un':
            a = self.conc(v[2], st)
            if a is None: return None
            if v[1] == 'Neg' and not isinstance(a, bool): return -a
            if v[1] == 'Not' and isinstance(a, bool): return not a
            if v[1] == 'Abs' and not isinstance(a, bool): return abs(a)
            if v[1] == 'Signum' and not isinstance(a, bool): return math.copysign(1.0, a)
            if v[1] == 'IsNeg' and not isinstance(a, bool): return math.copysign(1.0, a) < 0
            if v[1] == 'IsPos' and not isinstance(a, bool): return math.copysign(1.0, a) > 0
            return None
        return self.o.num(self, v, st)

    def conc_struct(self, v, st):
        v = sx_strip(v)
        if v[0] == 'agg' and v[1] == 'tuple':
            xs = [self.conc_struct(x, st) for x in v[3]]
            return None if any(x is None for x in xs) else tuple(xs)
        return self.conc(v, st)

    # ---------------------------------------------------------------- calls
    def apply(self, f, args, st):
        """value of calling a closure value on `args` if its body has exactly one returning path"""
        f = sx_strip(f)
        if self.depth >= 3: return None
        if f[0] == 'const':
            # a function passed by name (`.map_err(as_objective_error)`, `.map(Some)`): a function of the crate is evaluated like a
            # closure without captures, the constructor of an Option / Result variant builds that variant
            nm = f[1].strip(); nm = nm[6:] if nm.startswith('const ') else nm
            last = strip_generic_args(nm).split('::')[-1]
            if last in ('Some', 'Ok', 'Err') and re.search(r'(option::Option|result::Result)', nm) and len(args) == 1:
                return ('agg', ('std::option::Option::' if last == 'Some' else 'std::result::Result::') + last, ('0',), (args[0],))
            cb = self.F.bodies.get(nm) or self.F.bodies.get(strip_generic_args(nm))
            if cb is None or cb.kind != 'fn' or cb is self.b or cb.argc != len(args): return None
            env = {1 + i: a for i, a in enumerate(args)}
        elif f[0] == 'closure':
            cb = self.F.bodies.get(f[1])
            if cb is None: return None
            envv = ('agg', 'closure-env', tuple(str(i) for i in range(len(f[2]))), tuple(f[2]))
            if cb.locals[1].lstrip().startswith('&'): envv = ('ref', envv)
            env = {1: envv}
            for i, a in enumerate(args): env[2 + i] = a
        else: return None
        try:
            ps = Sx(self.ctx, cb, self.o, depth=self.depth + 1, max_paths=60, enter=self.enter).run(0, env, assume=st.assume)
        except SxLimit:
            return None
        rets = [p for p in ps if p.end == 'return']
        if len(rets) != 1 or rets[0].value is None: return None
        st.events.extend(rets[0].events)
        return rets[0].value

    def entered(self, t, args, st):
        """paths through the callee of call terminator `t` if it is a crate function the rule wants looked through, else None.
        A `&mut` to a place of the caller is passed as a reference to a scratch local holding its current value; what the callee
        leaves there is written back to the caller's place on return."""
        if self.enter is None or self.depth >= 3: return None
        name = t['r'] or t['f']
        cb = self.F.bodies.get(name) or self.F.bodies.get(strip_generic_args(name))
        if cb is None: cb = parsed_type_from_str(self.F, name)          # `s.parse::<T>()` is `<T as FromStr>::from_str(s)`
        if cb is None or cb is self.b or cb.kind != 'fn' or cb.argc != len(args) or not self.enter(cb): return None
        env = {}; back = []
        for i, a in enumerate(args):
            if a[0] == 'lref':
                env[100000 + i] = self.deref(a, st); env[1 + i] = ('lref', 100000 + i, ()); back.append((100000 + i, a))
            else: env[1 + i] = a
        try:
            ps = Sx(self.ctx, cb, self.o, depth=self.depth + 1, max_paths=60, enter=self.enter).run(0, env, assume=st.assume)
        except (SxLimit, RecursionError):
            return None
        return (ps, back) if all(p.end in ('return', 'panic') for p in ps) and any(p.end == 'return' for p in ps) else None

    def resolved(self, blk, t, st):
        """a call through a function pointer: the driver exports the pointer's type but not the operand.  MIR evaluates the callee
        into a temporary of exactly that type right before the call, so the callee is the value of the last local of that type
        assigned in the block; when that value is a function named by a constant (an element of a table of functions, a `let f =
        write_rows;`), the call is the call of that function.  Otherwise the terminator is left as it is (an opaque call)."""
        ty = t['f'][len('<indirect:'):-1].strip()
        for s_ in reversed(blk['st']):
            if 'dst' not in s_ or s_['dst']['p']: continue
            l = s_['dst']['l']
            if l < len(self.b.locals) and self.b.locals[l].strip() == ty:
                v = sx_strip(self.local(l, st))
                while v[0] == 'cast': v = sx_strip(v[2])
                if v[0] == 'const':
                    nm = v[1].strip(); nm = nm[6:] if nm.startswith('const ') else nm
                    if self.F.bodies.get(nm) is not None or self.F.bodies.get(strip_generic_args(nm)) is not None:
                        return dict(t, f=nm, r=nm, ri={'item': strip_generic_args(nm).split('::')[-1]})
                break
        return t

    def call(self, bi, t, args, st):
        name = t['r'] or t['f']; ri = t.get('ri') or {}
        item = ri.get('item') or (t.get('rp') or t.get('fp') or name).split('::')[-1]
        node = ('call', item, name, tuple(args), bi, st.visits.get(bi, 1))     # the n-th execution of this call on the path
        res = self.o.call(self, node, st)
        if res is None: res = self.interp(node, ri, st, t)
        st.events.append(('call', item, name, tuple(args), bi, res))
        return res

    def interp(self, node, ri, st, t=None):
        _, item, name, args, bi, occ = node
        m = T.ARITH_CALL.match(name)
        if m:                                                        # `a + b` on f64 / &f64 through the ops traits
            op = m.group(2)
            if op == 'Neg': return ('un', 'Neg', self.deref(args[0], st))
            return ('bin', op, self.deref(args[0], st), self.deref(args[1], st))
        m = T.ASSIGN_CALL.match(name)
        if m:                                                        # `*x op= y`
            new = ('bin', m.group(1), self.deref(args[0], st), self.deref(args[1], st))
            if args[0][0] == 'lref': self.wr({'l': args[0][1], 'p': [_up(p) for p in args[0][2]]}, new, st)
            else: st.events.append(('store', self.deref(args[0], st), new, bi))
            return ('agg', 'tuple', (), ())
        if item == 'abs' and 'f64' in name and args: return ('un', 'Abs', self.deref(args[0], st))
        if item in ('max', 'min') and re.search(r'f64>?::(max|min)$', name) and len(args) == 2: return ('bin', 'Max' if item == 'max' else 'Min', args[0], args[1])
        if item in ('eq', 'ne') and 'PartialEq' in (ri.get('trait') or '') and re.search(r'<&?f64 as', name) and len(args) == 2:
            return ('bin', 'Eq' if item == 'eq' else 'Ne', self.deref(self.deref(args[0], st), st), self.deref(self.deref(args[1], st), st))
        if T.NOT_CALL.search(name) and args: return ('un', 'Not', self.deref(args[0], st))
        if len(args) == 2 and ((item in ('call', 'call_mut', 'call_once') and re.search(r'ops::Fn(Mut|Once)?', ri.get('trait') or ''))
                               or (t is not None and re.search(r' as std::ops::Fn(Mut|Once)?<.*>>::call(_mut|_once)?$', t.get('f') or ''))):
            f = self.deref(args[0], st) if args[0][0] in ('ref', 'lref') else args[0]          # `f(a, b)` on a closure value: (closure, (a, b))
            tup = sx_strip(args[1])
            if sx_strip(f)[0] == 'closure' and tup[0] == 'agg':
                r = self.apply(f, list(tup[3]), st)
                if r is not None: return r
        if item in ('eq', 'ne') and 'PartialEq' in (ri.get('trait') or '') and len(args) == 2 and re.match(r'^<std::option::Option<', name):
            # `opt == Some(&1.0)`: equal variants and, for Some, equal payloads
            a, b_ = (sx_strip(self.deref(x, st)) for x in args)
            ga, gb = self.good(a, st), self.good(b_, st)
            if ga is not None and gb is not None:
                r = None
                if ga != gb: r = False
                elif ga is False: r = True
                else:
                    pa, pb = self.conc(self.payload(a), st), self.conc(self.payload(b_), st)
                    if pa is not None and pb is not None: r = (pa == pb)
                if r is not None: return ('const', 'true' if r == (item == 'eq') else 'false')
        if item in ('eq', 'ne') and 'PartialEq' in (ri.get('trait') or '') and len(args) == 2:
            a = self.conc_struct(self.deref(args[0], st), st); b_ = self.conc_struct(self.deref(args[1], st), st)       # tuples of known bools / numbers
            if a is not None and b_ is not None: return ('const', 'true' if (a == b_) == (item == 'eq') else 'false')
        if T.TRY_BRANCH.search(name) and args:
            x = args[0]; g = self.good(x, st, option='Option' in name.split(' as ')[0])
            if g is True: return ('agg', 'std::ops::ControlFlow::Continue', ('0',), (self.payload(x),))
            if g is False: return ('agg', 'std::ops::ControlFlow::Break', ('0',), (x,))
            return node
        if T.FROM_RESIDUAL.search(name) and args:                     # the early return of `?`
            if name.startswith('<std::option::Option<'): return ('agg', 'std::option::Option::None', (), ())
            return ('agg', 'std::result::Result::Err', ('0',), (args[0],))
        if item in ('then_some', 'then') and re.search(r'bool>?::then(_some)?', name) and len(args) == 2:      # `c.then_some(v)` ≡ `if c { Some(v) } else { None }`
            c = self.conc(args[0], st)
            if c is True:
                r = args[1] if item == 'then_some' else self.apply(args[1], [], st)
                if r is not None: return ('agg', 'std::option::Option::Some', ('0',), (r,))
            if c is False: return ('agg', 'std::option::Option::None', (), ())
        if item in ('signum', 'is_sign_negative', 'is_sign_positive') and 'f64' in name and args:
            return ('un', {'signum': 'Signum', 'is_sign_negative': 'IsNeg', 'is_sign_positive': 'IsPos'}[item], self.deref(args[0], st))
        m = SX_OPT_RE.match(name)
        if m and args:
            isopt = m.group(1).endswith('Option'); meth = m.group(2); o = args[0]
            oo = self.deref(o, st) if o[0] in ('ref', 'lref') else o
            g = self.good(oo, st, option=isopt)
            some = 'std::option::Option::Some' if isopt else 'std::result::Result::Ok'
            if meth == 'unwrap_or' and len(args) == 2:
                if g is True: return self.payload(oo)
                if g is False: return args[1]
            elif meth == 'unwrap_or_default':
                if g is True: return self.payload(oo)
                if g is False and re.search(r'::<f64(, .*)?>::unwrap_or_default', name): return ('const', '0f64')
            elif meth in ('unwrap', 'expect', 'unwrap_unchecked'):
                if g is not False: return self.payload(oo)
            elif meth in ('is_some', 'is_ok'):
                if g is not None: return ('const', 'true' if g else 'false')
            elif meth in ('is_none', 'is_err'):
                if g is not None: return ('const', 'false' if g else 'true')
            elif meth == 'unwrap_or_else' and len(args) == 2:
                if g is True: return self.payload(oo)
                if g is False:
                    r = self.apply(args[1], [] if isopt else [self.field(oo, '0', 'Err')], st)
                    if r is not None: return r
            elif meth == 'map_or' and len(args) == 3:
                if g is True:
                    r = self.apply(args[2], [self.payload(oo)], st)
                    if r is not None: return r
                if g is False: return args[1]
            elif meth == 'map_or_else' and len(args) == 3:
                r = self.apply(args[2], [self.payload(oo)], st) if g is True else (self.apply(args[1], [], st) if g is False else None)
                if r is not None: return r
            elif meth == 'map' and len(args) == 2:
                if g is True:
                    r = self.apply(args[1], [self.payload(oo)], st)
                    if r is not None: return ('agg', some, ('0',), (r,))
                if g is False: return oo
            elif meth == 'map_err' and len(args) == 2 and not isopt:
                if g is True: return oo
                if g is False:
                    r = self.apply(args[1], [self.field(oo, '0', 'Err')], st)
                    if r is not None: return ('agg', 'std::result::Result::Err', ('0',), (r,))
            elif meth == 'ok' and not isopt:                                  # Result -> Option, same payload
                if g is True: return ('agg', 'std::option::Option::Some', ('0',), (self.payload(oo),))
                if g is False: return ('agg', 'std::option::Option::None', (), ())
            elif meth == 'flatten' and isopt:
                if g is True: return self.payload(oo)
                if g is False: return oo
            elif meth == 'zip' and len(args) == 2 and isopt:
                g2 = self.good(args[1], st)
                if g is True and g2 is True: return ('agg', some, ('0',), (('agg', 'tuple', (), (self.payload(oo), self.payload(args[1]))),))
                if g is False or g2 is False: return ('agg', 'std::option::Option::None', (), ())
            elif meth == 'and_then' and len(args) == 2:
                if g is True:
                    r = self.apply(args[1], [self.payload(oo)], st)
                    if r is not None: return r
                if g is False: return oo
            elif meth == 'or' and len(args) == 2:
                if g is True: return oo
                if g is False: return args[1]
            elif meth == 'or_else' and len(args) == 2:
                if g is True: return oo
                if g is False:
                    r = self.apply(args[1], [] if isopt else [self.field(oo, '0', 'Err')], st)
                    if r is not None: return r
            elif meth in ('filter', 'is_some_and', 'is_none_or', 'is_ok_and') and len(args) == 2:
                if g is True:
                    pv = self.payload(oo)
                    r = self.apply(args[1], [('ref', pv)] if meth == 'filter' else [pv], st)
                    if r is not None:
                        c = self.conc(r, st)
                        if meth != 'filter': return r
                        if c is True: return oo
                        if c is False: return ('agg', 'std::option::Option::None', (), ())
                if g is False:
                    if meth == 'filter': return oo
                    return ('const', 'true' if meth == 'is_none_or' else 'false')
            elif meth == 'ok_or' and len(args) == 2:
                if g is True: return ('agg', 'std::result::Result::Ok', ('0',), (self.payload(oo),))
                if g is False: return ('agg', 'std::result::Result::Err', ('0',), (args[1],))
            elif meth == 'ok_or_else' and len(args) == 2:
                if g is True: return ('agg', 'std::result::Result::Ok', ('0',), (self.payload(oo),))
                if g is False:
                    r = self.apply(args[1], [], st)
                    return ('agg', 'std::result::Result::Err', ('0',), (r if r is not None else ('call', 'ok_or_else-error', name, (), bi, 0),))
            elif meth in SX_IDENT:
                return oo
            return node
        if item in ('into', 'from') and len(args) == 1:
            cb = conversion_body(self.F, name)                  # `x.into()` through an `impl From<A> for B` of the crate: that function's value
            if cb is not None:
                r = self.apply(('const', cb.name), [args[0]], st)
                if r is not None: return r
        if item in SX_IDENT and args:
            return self.deref(args[0], st) if args[0][0] in ('ref', 'lref') else args[0]
        tr = ri.get('trait') or ''
        if len(args) == 2 and item == 'partition' and tr == 'std::iter::Iterator': self.partitioned(node, st)
        if args and item == 'next' and (tr == 'std::iter::Iterator' or name.endswith('std::iter::Iterator>::next')):
            r = self.table_item(node, st)
            if r is not None: return r
            self.pulled(node, st)
        if args and ((tr == 'std::iter::Iterator' and item in SX_CONSUMERS) or (tr.endswith('FromIterator') and item == 'from_iter') or (tr.endswith('Extend') and item == 'extend' and len(args) == 2)):
            self.pipeline(node, args[1] if item == 'extend' else args[0], st)
        return node

    def chain(self, node, it, st):
        """an adaptor chain `base.map(f).filter(g)...` applied to ONE generic item of `base`: (value | None, flags, base, whether a
        function -- closure or function passed by name -- was applied)"""
        chain = []; cur = sx_strip(it)
        while cur[0] == 'call' and cur[3] and cur[1] in SX_ADAPTORS:
            chain.append(cur); cur = sx_strip(cur[3][0])
        chain.reverse()
        if not any(c[1] in SX_CLOSURE_ADAPTORS for c in chain): return None, (), cur, False
        v = ('field', ('call', 'next', '<pipeline item>', (cur,), node[4], node[5]), '0', 'payload'); flags = []
        for c in chain:
            k = c[1]
            if k not in SX_CLOSURE_ADAPTORS or len(c[3]) < 2:
                if k in RESTRICTING: flags.append('restricted:' + k)
                if v is not None and k == 'enumerate': v = ('agg', 'tuple', (), (('call', 'index-of', '<enumerate>', (v,), c[4], c[5]), v))
                if v is not None and k == 'zip' and len(c[3]) == 2: v = ('agg', 'tuple', (), (v, ('field', ('call', 'next', '<zipped>', (c[3][1],), c[4], c[5]), '0', 'payload')))
                continue
            if v is None: break
            if k == 'map':
                v = self.apply(c[3][1], [v], st)
            elif k == 'inspect':
                self.apply(c[3][1], [('ref', v)], st)
            elif k == 'filter':
                r = self.apply(c[3][1], [('ref', v)], st); cc = self.conc(r, st) if r is not None else None
                if cc is False: flags.append('skipped')
                elif cc is not True: flags.append('maybe-skipped')
            elif k == 'filter_map':
                r = self.apply(c[3][1], [v], st)
                if r is None: v = None
                else:
                    g = self.good(r, st)
                    if g is False: flags.append('skipped')
                    elif g is None: flags.append('maybe-skipped')
                    v = self.payload(r)
            else:
                flags.append('restricted:' + k); v = None
        return v, tuple(flags), cur, True

    def pipeline(self, node, it, st):
        """an iterator pipeline consumed by a call the normal form does not turn into a loop (unzip, partition, max_by_key, a collect
        into an unknown collection, ...): recorded as event ('yield', value | None, bb, flags, consumer name, base)"""
        v, flags, cur, fn = self.chain(node, it, st)
        if fn: st.events.append(('yield', v, node[4], flags, node[2], cur))

    def partitioned(self, node, st):
        """`it.partition(pred)`: the result is the pair (items for which pred holds, the others) -- component 0 / 1 of the call's
        value.  The predicate is applied to ONE generic item of the (adaptor chain over the) base; the event
        ('partition', call node, True / False / None = which side that item goes to, base, item) lets a rule read the bulk form
        like the loop `for x in base { if pred(&x) { yes.insert(x) } else { no.insert(x) } }`"""
        it, pred = node[3]
        v, flags, cur, fn = self.chain(node, it, st)
        if not fn:                                              # no adaptor with a function in front: the item is the base's
            cur = sx_strip(it)
            while cur[0] == 'call' and cur[3] and cur[1] in SX_ADAPTORS: cur = sx_strip(cur[3][0])
            v = ('field', ('call', 'next', '<partition item>', (cur,), node[4], node[5]), '0', 'payload'); flags = ()
        side = None
        if v is not None and not flags:
            r = self.apply(pred, [('ref', v)], st)
            c = self.conc(r, st) if r is not None else None
            if isinstance(c, bool): side = c
        st.events.append(('partition', node, side, cur, v))

    def table_item(self, node, st):
        """`it.next()` where `it` walks a table written out in the code (`[a, b, c]`, by value or through iter()): the n-th
        execution of the call on a path yields the n-th element, then None -- a loop over such a table is unrolled (the bound on
        block visits is raised to the length of the table)"""
        cur = node[3][0]; byref = False; n = 0
        while cur[0] in ('ref', 'lref') and n < 6: cur = self.deref(cur, st); n += 1          # `&mut &mut iter`
        while cur[0] == 'call' and cur[3] and cur[1] in ('into_iter', 'iter', 'copied', 'cloned', 'by_ref', 'deref', 'as_slice', 'as_ref', 'unsize'):
            byref = (byref or cur[1] == 'iter') and cur[1] not in ('copied', 'cloned'); cur = sx_strip(cur[3][0])
        while cur[0] == 'cast': cur = sx_strip(cur[2])
        if not (cur[0] == 'agg' and cur[1] == 'array' and 0 < len(cur[3]) <= 16): return None
        k = node[5] - 1
        self.max_visits = max(self.max_visits, len(cur[3]) + 1)
        if k < len(cur[3]): return ('agg', 'std::option::Option::Some', ('0',), (('ref', cur[3][k]) if byref else cur[3][k],))
        return ('agg', 'std::option::Option::None', (), ())

    def pulled(self, node, st):
        """`it.next()` on an adaptor chain the normal form left as it is (a function passed by name instead of a closure:
        `.filter_map(tagged_var)`): the item, when there is one, is the chain applied to an item of the base"""
        a = node[3][0]; it = self.deref(a, st) if a[0] in ('ref', 'lref') else a
        v, flags, cur, fn = self.chain(node, it, st)
        if fn and 'skipped' in flags: st.events.append(('filtered-out', node)); return          # this item never comes out of the iterator
        if fn and v is not None: self.items[node] = v

    # ---------------------------------------------------------------- statements
    def stmt(self, s, st):
        rv = s['rv']; k = rv['k']
        if k == 'use': val = self.op(rv['ops'][0], st)
        elif k in ('ref', 'rawptr'):
            pl = rv['pl']; mut = rv.get('mut') or k == 'rawptr'
            if mut and '*' not in pl['p']:
                val = ('lref', pl['l'], tuple(_hp(p) for p in pl['p']))
            elif mut and pl['p'] and pl['p'][0] == '*' and '*' not in pl['p'][1:] and self.local(pl['l'], st)[0] == 'lref':
                b0 = self.local(pl['l'], st)                              # reborrow of a reference to local memory
                val = ('lref', b0[1], b0[2] + tuple(_hp(p) for p in pl['p'][1:]))
            else:
                val = ('ref', self.rd(pl, st))
        elif k == 'discr': val = ('discr', sx_strip(self.rd(rv['pl'], st)))
        elif k == 'bin': val = ('bin', rv['op'], self.op(rv['ops'][0], st), self.op(rv['ops'][1], st))
        elif k == 'un': val = ('un', rv['op'], self.op(rv['ops'][0], st))
        elif k == 'cast': val = ('cast', rv.get('to', '?'), self.op(rv['ops'][0], st))
        elif k == 'agg':
            vals = tuple(self.op(o, st) for o in rv['ops'])
            if rv['adt'].startswith('closure:'): val = ('closure', rv['adt'][8:], vals)
            else: val = ('agg', rv['adt'], tuple(rv.get('fields') or ()), vals)
        else: val = ('undef', -2)
        self.wr(s['dst'], val, st)

    def decide(self, d, t, st):
        m = {v: tb for v, tb in t['ts']}
        a = st.assume.get(d)
        if a is not None:
            return t['else'] if a == 'else' else m.get(a, t['else'])
        c = self.conc(d, st)
        if c is not None:
            try: c = int(c)
            except (ValueError, OverflowError): return None
            return m.get(c, t['else'])
        if d[0] == 'discr':
            i = self.variant_index(d[1], st)
            if i is not None: return m.get(i, t['else'])
        return None

    # ---------------------------------------------------------------- paths
    def run(self, start=0, env=None, stops=(), assume=None):
        """all paths from `start`: list of SxPath with end in return / stop / panic / cut / unreachable"""
        out = []; B = self.b.blocks; steps = 0
        stack = [SxState(start, dict(env or {}), [], dict(assume or {}), {})]
        while stack:
            st = stack.pop()
            while True:
                steps += 1
                if steps > self.max_steps or len(out) + len(stack) > self.max_paths: raise SxLimit(self.b.name)
                bi = st.bb
                if bi in stops and st.moved:
                    out.append(SxPath(st, 'stop', bi, None)); break
                n = st.visits.get(bi, 0) + 1
                if n > self.max_visits:
                    out.append(SxPath(st, 'cut', bi, None)); break
                st.visits[bi] = n; st.moved = True
                blk = B[bi]
                for s in blk['st']:
                    if 'dst' in s: self.stmt(s, st)
                t = blk['term']; k = t['k']
                if k == 'return':
                    out.append(SxPath(st, 'return', bi, st.env.get(0))); break
                if k in ('goto', 'drop', 'assert'):
                    st.bb = t['t']; continue
                if k == 'call':
                    args = [self.op(a, st) for a in t['args']]
                    if (t['f'] or '').startswith('<indirect:'): t = self.resolved(blk, t, st)
                    sub = self.entered(t, args, st) if t['t'] >= 0 else None
                    if sub is not None:
                        for p in sub[0]:
                            s2 = st.fork(); s2.assume = dict(p.assume); s2.events = st.events + [('enter', strip_generic_args(t['r'] or t['f']).split('::')[-1], t['r'] or t['f'], tuple(args), bi, p.value)] + p.events
                            if p.end == 'return' and p.value is not None:
                                for sid, a in sub[1]:
                                    if sid in p.env: self.wr({'l': a[1], 'p': [_up(q) for q in a[2]]}, p.env[sid], s2)
                                self.wr(t['dst'], p.value, s2); s2.bb = t['t']; stack.append(s2)
                            else:
                                out.append(SxPath(s2, 'panic', bi, None))
                        break
                    res = self.call(bi, t, args, st)
                    if t['t'] < 0:
                        out.append(SxPath(st, 'panic', bi, None)); break
                    self.wr(t['dst'], res, st); st.bb = t['t']; continue
                if k == 'switch':
                    d = self.op(t['d'], st)
                    tg = self.decide(d, t, st)
                    if tg is not None:
                        st.bb = tg; continue
                    alts = [(v, tb) for v, tb in t['ts']]
                    if len(alts) == 1 and alts[0][0] == 0: alts.append((1, t['else']))       # bool
                    elif B[t['else']]['term']['k'] != 'unreachable' or B[t['else']]['st']: alts.append(('else', t['else']))
                    for v, tb in alts[1:]:
                        s2 = st.fork(); s2.assume[d] = v; s2.bb = tb; stack.append(s2)
                    st.assume[d] = alts[0][0]; st.bb = alts[0][1]; continue
                out.append(SxPath(st, 'unreachable', bi, None)); break
        return out


def sx_table_of(v):
    """which parsed table (field of Mps) or parameter a receiver value denotes"""
    v = sx_strip(v)
    if v[0] == 'lref':
        fs = [p[1] for p in v[2] if isinstance(p, tuple) and p[0] == 'f' and p[2].endswith('parser::Mps')]
        if fs: return fs[-1]
        return ('local', v[1])
    x = v
    while x[0] in ('field', 'ref', 'index'):
        if x[0] == 'field' and x[3].endswith('parser::Mps'): return x[2]
        x = x[1]
    if x[0] == 'param': return ('param', x[1])
    return None


def sx_table_calls(path, items=None):
    """(table, item, args after the receiver, result, bb) of the HashMap/HashSet calls of a path"""
    out = []
    for e in path.events:
        if e[0] == 'call' and re.search(r'Hash(Map|Set)::<', e[2]) and e[3] and (items is None or e[1] in items):
            out.append((sx_table_of(e[3][0]), e[1], e[3][1:], e[5], e[4]))
    return out

# =====================================================================================================
# rule helpers on the CFG (keyword tables, effects per arm)
# =====================================================================================================
MPS = 'mps::parser::Mps'; ST = 'mps::parser::State'


def mps_table_of(body, operand):
    fs = [f for a, f in T.access_path(body, operand)[0] if a.endswith('parser::Mps')]
    return fs[-1] if fs else None


def str_literal(F, text):
    """the text of a string literal, written in place or given a name (`const MARKER: &str = "'MARKER'";`); None for anything else"""
    v = text.strip(); v = v[6:] if v.startswith('const ') else v
    if v.startswith('"'): return T._unq(v)
    c = F.consts.get(v)
    if c and isinstance(c[1], str) and c[1].strip().startswith('"'): return T._unq(c[1])
    return None


def named_str_tests(body):
    """`x == NAME` tests where NAME is a string constant of the crate: (literal, call, true target, false target), like T.str_eq_tests"""
    F = body.F if hasattr(body, 'F') else None
    out = []
    for c in body.calls:
        if not ('PartialEq' in (c.trait or '') and c.item in ('eq', 'ne') and re.search(r'\bstr\b|String', c.name)): continue
        lits = []
        for a in c.args:
            e = T.strip_wrappers(T.expr(body, a, depth=6)) if a['k'] in ('copy', 'move') else ('const', a['v'])
            if e[0] != 'const' or e[1].startswith('"'): continue
            names = [e[1]]
            m = re.search(r'promoted\[(\d+)\]', e[1])
            if m and _FACTS[0] is not None:
                pb = _FACTS[0].bodies.get(e[1]) or _FACTS[0].bodies.get('%s::promoted[%s]' % (body.name, m.group(1)))
                names = [o['v'] for bi, st in pb.stmts() for o in st['rv'].get('ops', []) if o['k'] == 'const'] if pb is not None else []
            for nm in names:
                lit = str_literal(_FACTS[0], nm) if _FACTS[0] is not None else None
                if lit is not None: lits.append(lit)
        if len(lits) != 1: continue
        for g in T.guards_from_call(body, c):
            t, f = g.true_bb, g.false_bb
            if c.item == 'ne': t, f = f, t
            out.append((lits[0], c, t, f))
    return out


_FACTS = [None]          # set by check(): the facts of the tree being checked (for the named constants)


def literal_table(body):
    """{literal: (true_target, false_target, call)} of the `x == "LIT"` tests of a string match (the literal written in place or named)"""
    tab = {}
    for lit, c, t, f in T.str_eq_tests(body) + named_str_tests(body):
        tab.setdefault(lit, (t, f, c))
    return tab


def fallthrough_region(body, tab):
    return body.reach([0], stop={t for t, f, c in tab.values()})


def check_literals(ctx, rule, body, want, err_variant, exact=False):
    tab = literal_table(body)
    got = set(tab)
    ok = (got == set(want)) if exact else (set(want) <= got)
    ctx.check(ok, rule + '/keywords', 'T-TABLE', body.name, 'accepted keywords %s, the format requires %s' % (sorted(got), sorted(want)), body.site(), table=sorted(got))
    rest = fallthrough_region(body, tab)
    errs = [bi for bi, st in body.stmts() if bi in rest and st['rv']['k'] == 'agg' and st['rv']['adt'].endswith('MpsParseError::' + err_variant)]
    ctx.check(bool(errs) and not (rest & body.strict_ok_exits()), rule + '/unknown-is-error', 'T-TABLE', body.name, 'an unknown keyword does not lead to MpsParseError::%s' % err_variant, body.site())
    return tab


def keyword_literals(ctx, b):
    """the literals a section reader compares its keyword with, in the reader itself or in the FromStr impl of a type of the crate
    it parses the keyword into (`fields[0].parse::<BoundType>()`)"""
    lits = set(literal_table(b))
    for c in b.calls:
        pb = parsed_type_from_str(ctx.F, c.name)
        if pb is not None:
            ctx.fn(pb); lits |= set(literal_table(pb))
    return lits


def keyword_table(ctx, rule, b, want, err_variant, val=None):
    """T-TABLE on paths: the section reader `b` accepts (has a path that ends without error for) every keyword the format requires,
    and a keyword it does not know -- every comparison with a literal fails -- ends in MpsParseError::<err_variant> on every path.
    The keyword may be matched as a string in the reader, or parsed into an enum first (literal -> variant in a FromStr impl,
    variant -> arm in the reader): the table is the composition either way.  Returns the accepted keywords."""
    lits = keyword_literals(ctx, b)
    got = set()
    for lit in sorted(lits):
        res = keyword_effects(ctx, rule + '/keywords', b, {lit}, val)
        if res is None: return set()
        if res: got.add(lit)
    ctx.check(set(want) <= got, rule + '/keywords', 'T-TABLE', b.name, 'accepted keywords %s, the format requires %s' % (sorted(got), sorted(want)), b.site(), table=sorted(got))
    orc = KeywordCase(set(), val)
    ps = sx_paths(ctx, rule + '/unknown-is-error', 'T-TABLE', b, orc, enter=keyword_parsers)
    if ps is not None:
        sx = Sx(ctx, b, orc); rets = [p for p in ps if p.end == 'return']
        def typed(p): return p.value is not None and sx.variant(p.value, p) == 'Err' and any(x[0] == 'agg' and x[1].endswith('MpsParseError::' + err_variant) for x in sx_walk(p.value))
        ctx.check(bool(rets) and all(typed(p) for p in rets), rule + '/unknown-is-error', 'T-TABLE', b.name, 'an unknown keyword does not lead to MpsParseError::%s' % err_variant, b.site())
    return got


def arm_region(body, tab, lit):
    t, f, c = tab[lit]
    others = {x[0] for l, x in tab.items() if x[0] != t}
    return body.reach([t], stop=others) - (body.reach([f], stop={t}) if f is not None else set())


def table_effects(ctx, body, region):
    """effects on the parsed tables inside a region: set of (table, op, value-kind)"""
    eff = set()
    for c in body.calls:
        if c.bb not in region: continue
        if c.item in ('insert', 'remove', 'take') and re.search(r'Hash(Map|Set)::<', c.name):
            tab = mps_table_of(body, c.args[0])
            if tab is None: continue
            val = None
            if c.item == 'insert' and len(c.args) == 3:
                ex = T.expr(body, c.args[2])
                if ex[0] == 'const': val = '-inf' if 'NEG_INFINITY' in ex[1] else ('+inf' if 'INFINITY' in ex[1] else ex[1])
                elif any(x[0] == 'call' and x[1] == 'parse' for x in T.expr_walk(ex)): val = 'value'
                elif any(x[0] == 'call' and x[1] == 'new' and 'HashMap' in x[2] for x in T.expr_walk(ex)): val = 'empty-row'
                else: val = T.expr_str(ex, 3)
            eff.add((tab, c.item) if val is None else (tab, c.item, val))
    for bi, st in body.stmts():
        if bi in region and st['dst']['p']:
            fs = [f for a, f in fields_of_place(st['dst']) if a.endswith('parser::Mps') or a.endswith('parser::State')]
            if fs and fs[-1] not in ('mps',):
                v = st['rv']['ops'][0]['v'] if st['rv']['k'] == 'use' and st['rv']['ops'][0]['k'] == 'const' else 'value'
                eff.add((fs[-1], 'assign', v))
    return eff


def sx_paths(ctx, rule, template, body, oracle, start=0, stops=(), env=None, enter=None):
    """symbolic paths, or None (and a violation: no verdict is possible) when the function is too large to enumerate"""
    try:
        return Sx(ctx, body, oracle, enter=enter).run(start, env, stops)
    except SxLimit:
        ctx.bad(rule, template, body.name, 'the function has too many paths for the case analysis (limit reached); rule cannot be decided', body.site())
        return None
    except RecursionError:
        ctx.bad(rule, template, body.name, 'value nesting too deep for the case analysis; rule cannot be decided', body.site())
        return None


def sx_loop_paths(ctx, rule, template, body, oracle, lo, enter=None):
    """symbolic paths of ONE iteration of loop `lo` (from its `Some` arm back to the header, or out of the function), entered with
    what the code before the loop has defined (paths from the function entry to the loop header under the same oracle)"""
    nextc, header, some_bb, none_bb, blocks = lo
    pre = sx_paths(ctx, rule, template, body, oracle, 0, {header}, enter=enter)
    if pre is None: return None
    envs = []
    for p in pre:
        if p.end == 'stop' and p.bb == header and p.env not in envs: envs.append(p.env)
    out = []
    # a local assigned in the loop holds, at the start of an iteration, what an earlier iteration left there: unknown
    carried = set()
    for bi in blocks:
        blk = body.blocks[bi]
        carried |= {s_['dst']['l'] for s_ in blk['st'] if 'dst' in s_}
        if blk['term']['k'] == 'call' and blk['term'].get('dst'): carried.add(blk['term']['dst']['l'])
    envs = [{l: (('undef', l) if l in carried else v) for l, v in env.items()} for env in envs]
    for env in envs[:4] or [{}]:
        ps = sx_paths(ctx, rule, template, body, oracle, some_bb, {header}, env, enter=enter)
        if ps is None: return None
        out += ps
    return out


class FailCase(SxOracle):
    """the calls selected by `pred` (on the symbolic call node) fail: their Result is Err / their Option is None"""
    def __init__(self, pred, bad='Err'): self.pred = pred; self.bad = bad

    def variant(self, sx, v, st):
        return self.bad if v[0] == 'call' and self.pred(v) else None


def failure_is_error(ctx, rule, template, b, pred, bad, err_adt=None):
    """T-ERRFLOW on paths: when a call selected by `pred` fails (Err / None), every path of the function through it returns Err
    (with an `err_adt` value inside, if given).  `x?`, `match`, `let .. else`, `ok_or(..)?`, a `?` inside an extracted helper whose
    Result is `?`-ed again by the caller: all the same here.  Returns (sites seen, problems)."""
    ps = sx_paths(ctx, rule, template, b, FailCase(pred, bad))
    if ps is None: return None
    sx = Sx(ctx, b, FailCase(pred, bad)); seen = 0; probs = []
    for p in ps:
        if p.end not in ('return', 'stop'): continue
        if not any(e[0] == 'call' and pred(('call', e[1], e[2], e[3], e[4], 0)) for e in p.events): continue
        seen += 1
        v = p.value if p.value is not None else ('undef', 0)
        if p.end != 'return' or sx.variant(v, p) != 'Err': probs.append('the function goes on (%s)' % ('returns ' + sx_str(v, 2) if p.end == 'return' else 'no return'))
        elif err_adt and not any(x[0] == 'agg' and x[1].endswith(err_adt) for x in sx_walk(v)): probs.append('the error is not %s' % (err_adt if isinstance(err_adt, str) else '/'.join(err_adt)).split('::')[-1])
    return seen, sorted(set(probs))


def lookup_is_typed_error(ctx, b, c, variant):
    """the None outcome of lookup `c` is reported as MpsParseError::<variant>.  Equivalent idioms:
         c.ok_or(E)?                     the error value is the argument
         c.ok_or_else(|| E)?             the error value is built in the closure
         match c { None => Err(E) .. }   / let Some(v) = c else { return Err(E) }: built on the None side"""
    def is_err(ex): return any(x[0] == 'agg' and x[1].endswith('MpsParseError::' + variant) for x in T.expr_walk(ex))
    seen = set(); work = [c.dst['l']]
    while work:
        l = work.pop()
        if l in seen: continue
        seen.add(l)
        for kind, bi, x in b.uses.get(l, ()):
            if kind == 'call':
                if x.item == 'ok_or' and len(x.args) > 1 and is_err(T.expr(b, x.args[1])): return True
                if x.item in ('ok_or_else', 'map_err', 'with_context') and len(x.args) > 1:
                    for cn in ctx.S.slice_operand(b, x.args[1]).closures:
                        cb = ctx.F.bodies.get(cn)
                        if cb is not None and any(st['rv']['k'] == 'agg' and st['rv']['adt'].endswith('MpsParseError::' + variant) for _, st in cb.stmts()): return True
                if T.ERR_ADAPTORS.search(x.name) or T.TRY_BRANCH.search(x.name): work.append(x.dst['l'])
            elif kind == 'stmt':
                rv = x['rv']
                if rv['k'] == 'discr':
                    for k3, b3, sw in b.uses.get(x['dst']['l'], ()):
                        if k3 != 'switch': continue
                        m = {v: t for v, t in sw['ts']}
                        r = b.reach([m.get(0, sw['else'])], stop={m.get(1, sw['else'])} - {m.get(0, sw['else'])})
                        if any(bi_ in r and st['rv']['k'] == 'agg' and st['rv']['adt'].endswith('MpsParseError::' + variant) for bi_, st in b.stmts()): return True
                elif rv['k'] in ('use', 'ref') and not x['dst']['p']: work.append(x['dst']['l'])
    return False

# =====================================================================================================
# the parser (mps/parser.rs)
# =====================================================================================================
def _cbool(x): return ('const', 'true' if x else 'false')


def _key_class(v):
    """RANGES: the key of a table access is the ranged row itself or the freshly named second row (built with format!)"""
    return 'new' if sx_calls(v, 'format') else 'row'


def _outcome(path, v):
    """True / False / None: the value of a bool the path has branched on"""
    v = sx_strip(v)
    if v[0] == 'const' and v[1] in ('true', 'false'): return v[1] == 'true'
    if v[0] == 'un' and v[1] == 'Not':
        r = _outcome(path, v[2]); return None if r is None else not r
    a = path.assume.get(v)
    if a in (0, 1): return bool(a)
    return None


def _tested_absent(path, table, key, before_bb):
    """on this path the key inserted at `before_bb` has been looked up in `table` before, with the answer "not there":
    `!t.contains_key(k)`, `t.get(k).is_none()`, `let None = t.get(k)`, a loop trying names until one is free, ..."""
    k = sx_strip(key); seen_insert = False
    for e in path.events:
        if e[0] != 'call' or not re.search(r'Hash(Map|Set)::<', e[2]) or not e[3] or sx_table_of(e[3][0]) != table: continue
        if e[1] == 'insert' and e[4] == before_bb and len(e[3]) > 1 and sx_strip(e[3][1]) == k: break
        if len(e[3]) < 2 or sx_strip(e[3][1]) != k: continue
        if e[1] in ('contains_key', 'contains') and _outcome(path, e[5]) is False: return True
        if e[1] in ('get', 'get_mut', 'get_key_value'):
            res = sx_strip(e[5]) if isinstance(e[5], tuple) else None
            if res is None: continue
            if path.assume.get(('discr', res)) == 0: return True                                  # matched as None
            for d, val in path.assume.items():                                                    # `.is_none()` / `!.is_some()` branched on
                neg = False
                while isinstance(d, tuple) and d and d[0] == 'un' and d[1] == 'Not': d = d[2]; neg = not neg
                if isinstance(d, tuple) and d and d[0] == 'call' and d[1] in ('is_none', 'is_some') and d[3] and sx_strip(d[3][0]) == res and val in (0, 1):
                    if (bool(val) != neg) == (d[1] == 'is_none'): return True
    return False


class RangeCase(SxOracle):
    """one RANGES entry: the row is of type `typ` (member of eq / ge / le), declared in `a`, its RHS is `bval`
    (None: no RHS entry) and the range value parses to `r`"""
    def __init__(self, typ, bval, r): self.typ = typ; self.bval = bval; self.r = r

    def call(self, sx, node, st):
        _, item, name, args, bi, occ = node
        if item in ('contains', 'remove') and 'HashSet::<' in name and len(args) == 2:
            t = sx_table_of(args[0])
            if t in ('eq', 'ge', 'le') and _key_class(args[1]) == 'row': return _cbool(t == self.typ)
        return None

    def variant(self, sx, v, st):
        if v[0] != 'call': return None
        if v[1] == 'parse' and 'f64' in v[2]: return 'Ok'
        if v[1] in ('get', 'get_mut', 'get_key_value') and 'HashMap::<' in v[2] and len(v[3]) == 2 and _key_class(v[3][1]) == 'row':
            t = sx_table_of(v[3][0])
            if t == 'a': return 'Some'
            if t == 'b': return 'Some' if self.bval is not None else 'None'
        return None

    def num(self, sx, v, st):
        if v[0] == 'field' and v[3] == 'payload' and v[1][0] == 'call':
            c = v[1]
            if c[1] == 'parse' and 'f64' in c[2]: return self.r
            if c[1] in ('get', 'get_mut') and sx_table_of(c[3][0]) == 'b' and _key_class(c[3][1]) == 'row': return self.bval
        return None


class KeywordCase(SxOracle):
    """one line of a section: the string tests `x == "LIT"` are true exactly for the literals in `true`, numbers parse to `val`,
    State flags have the values in `flags`"""
    def __init__(self, true, val=None, flags=None, objrow=None): self.true = set(true); self.val = val; self.flags = flags or {}; self.objrow = objrow

    def call(self, sx, node, st):
        _, item, name, args, bi, occ = node
        if item in ('eq', 'ne') and len(args) == 2 and self.objrow is not None and sum(1 for a in args if any(f == 'objective_name' and o.endswith('parser::Mps') for o, f in sx_fields(a))) == 1:
            return _cbool(self.objrow == (item == 'eq'))          # `row_name == self.mps.objective_name`, compared as RowName, String or &str
        if item in ('eq', 'ne') and len(args) == 2 and re.search(r'\bstr\b|String', name):
            lits = [l_ for l_ in (str_literal(sx.F, sx_strip(a)[1]) for a in args if sx_strip(a)[0] == 'const') if l_ is not None]
            if len(lits) == 1: return _cbool((lits[0] in self.true) == (item == 'eq'))
        return None

    def variant(self, sx, v, st):
        if v[0] == 'call' and v[1] == 'parse' and 'f64' in v[2]: return 'Ok'
        return None

    def num(self, sx, v, st):
        if v[0] == 'field' and v[3] == 'payload' and v[1][0] == 'call' and v[1][1] == 'parse': return self.val
        if v[0] == 'field' and v[3].endswith('parser::State') and v[2] in self.flags: return self.flags[v[2]]
        return None


def _line_fields(v):
    """which fields of the line a value is computed from: `fields[k]` on a Vec (an Index::index call) or on a slice (an index
    projection with a constant)"""
    out = {a[1] for c in sx_calls(v, 'index') for a in c[3][1:] if a[0] == 'const' and re.fullmatch(r'\d+_usize', a[1])}
    out |= {x[2][1] for x in sx_walk(v) if x[0] == 'index' and x[2][0] == 'const' and re.fullmatch(r'\d+_usize', x[2][1])}
    return sorted(out)


def keyword_parsers(cb):
    """the functions a section reader may delegate the recognition of its keyword to: FromStr impls of the crate (`fields[0].parse::<BoundType>()`)"""
    return cb.hdr.get('item') == 'from_str' and (cb.hdr.get('trait') or '').endswith('FromStr')


def keyword_effects(ctx, rule, b, true, val, flags=None, objrow=None):
    """effects of one line on the parsed tables, per successfully completed path: set of (table, op[, value]) and the
    line fields keys / numbers come from; None if the function cannot be evaluated.  A row of the coefficient matrix
    reached through a lookup in `a` is the table 'a[row]'."""
    orc = KeywordCase(true, val, flags, objrow)
    ps = sx_paths(ctx, rule, 'T-BRANCHFX', b, orc, enter=keyword_parsers)
    if ps is None: return None
    sx = Sx(ctx, b, orc); out = []
    for p in ps:
        if p.end != 'return' or p.value is None or sx.variant(p.value, p) == 'Err': continue
        eff = set(); keys = set(); nums = set(); stores = []
        for e in p.events:
            if e[0] == 'call' and e[1] in ('insert', 'remove', 'take') and re.search(r'Hash(Map|Set)::<', e[2]) and e[3] and sx_table_of(e[3][0]) is None:
                r0 = sx_strip(e[3][0])            # the receiver is the payload of a lookup in a table: `a.get_mut(row)?.insert(..)`
                if r0[0] == 'field' and r0[3] == 'payload' and r0[1][0] == 'call' and r0[1][1] in ('get_mut', 'entry', 'get') and isinstance(sx_table_of(r0[1][3][0]), str):
                    c = sx.conc(e[3][2], p) if len(e[3]) == 3 else None
                    eff.add((sx_table_of(r0[1][3][0]) + '[row]', e[1], 'value' if (c is not None and c == val) else sx_str(e[3][-1], 3)))
        for tab, item, args, res, bi in sx_table_calls(p, ('insert', 'remove', 'take')):
            if not isinstance(tab, str): continue
            op = 'remove' if item == 'take' else item
            if args: keys |= set(_line_fields(args[0]))
            if op == 'insert' and len(args) == 2:
                c = sx.conc(args[1], p)
                if c is not None:
                    if sx_calls(args[1], 'parse'): nums |= {f for pc in sx_calls(args[1], 'parse') for f in _line_fields(pc)}
                    eff.add((tab, op, 'value' if (val is not None and c == val and sx_calls(args[1], 'parse')) else ('-inf' if c == float('-inf') else ('+inf' if c == float('inf') else repr(c)))))
                elif any(c_[1] == 'new' and 'HashMap' in c_[2] for c_ in sx_calls(args[1])): eff.add((tab, op, 'empty-row'))
                else: eff.add((tab, op, sx_str(args[1], 3)))
            else: eff.add((tab, op))
        for e in p.events:
            if e[0] == 'store':
                fs = [f for a, f in sx_fields(e[1]) if a.endswith('parser::Mps') or a.endswith('parser::State')]
                if fs and sx_strip(e[1])[0] == 'field': stores.append((sx_strip(e[1])[2], e[2]))
        out.append(dict(eff=eff, keys=sorted(keys), nums=sorted(nums), stores=stores, path=p))
    return out


class NumbersParse(SxOracle):
    """the numbers of the line parse"""
    def variant(self, sx, v, st):
        return 'Ok' if v[0] == 'call' and v[1] == 'parse' else None


def pair_loops(ctx, b):
    """the loop of a section reader that walks the (row, value) pairs of the line (parameter 2)"""
    loops = [lo for lo in T.for_loops(b) if 2 in ctx.S.slice_operand(b, lo[0].args[0]).params]
    loops = [lo for lo in loops if any(c.bb in lo[4] and c.item == 'parse' for c in b.calls)] or loops      # (the number may be parsed in a closure / helper)
    return sorted(loops, key=lambda lo: -len(lo[4]))[:1]


class UndeclaredRow(KeywordCase):
    """a data line whose row name is in none of the tables of declared rows (not in a, eq, ge, le) and is not the objective row"""
    def __init__(self): KeywordCase.__init__(self, set(), 1.5, None, False)

    def call(self, sx, node, st):
        _, item, name, args, bi, occ = node
        if item in ('contains', 'remove', 'take', 'contains_key') and re.search(r'Hash(Map|Set)::<', name) and len(args) == 2 and sx_table_of(args[0]) in ('a', 'eq', 'ge', 'le') and _key_class(args[1]) == 'row':
            return ('agg', 'std::option::Option::None', (), ()) if item == 'take' or (item == 'remove' and 'HashMap' in name) else _cbool(False)
        return KeywordCase.call(self, sx, node, st)

    def variant(self, sx, v, st):
        if v[0] == 'call' and v[1] in ('get', 'get_mut', 'get_key_value', 'remove') and 'HashMap::<' in v[2] and len(v[3]) == 2 and sx_table_of(v[3][0]) == 'a' and _key_class(v[3][1]) == 'row': return 'None'
        return KeywordCase.variant(self, sx, v, st)


def undeclared_never_skipped(ctx, rule, b, what):
    """an entry naming a row that was not declared is an error wherever the test for it sits: for such a row every path of one
    iteration of the pairs loop ends in Err(UnknownRowName) (or a panic) -- none goes on to the next pair or returns Ok"""
    loops = pair_loops(ctx, b)
    if not loops:
        ctx.bad(rule, 'T-ERRFLOW', b.name, 'no loop over the (row, value) pairs of %s' % what, b.site()); return
    ps = sx_loop_paths(ctx, rule, 'T-ERRFLOW', b, UndeclaredRow(), loops[0])
    if ps is None: return
    sx = Sx(ctx, b, UndeclaredRow()); probs = []; n = 0
    for p_ in ps:
        if p_.end in ('panic', 'unreachable', 'cut'): continue          # (cut: an inner retry loop that was not followed further)
        n += 1
        v = p_.value if p_.value is not None else ('undef', 0)
        if p_.end == 'stop': probs.append('goes on to the next pair')
        elif p_.end != 'return' or sx.variant(v, p_) != 'Err': probs.append('ends with %s' % (sx_str(v, 2) if p_.end == 'return' else p_.end))
        elif not any(x[0] == 'agg' and x[1].endswith('MpsParseError::UnknownRowName') for x in sx_walk(v)): probs.append('the error is not UnknownRowName')
    ctx.check(n > 0 and not probs, rule, 'T-ERRFLOW', b.name, 'an entry of %s naming an undeclared row %s' % (what, '; '.join(sorted(set(probs))[:2]) or 'is never read'), b.site(loops[0][0].bb))


def all_pairs_processed(ctx, rule, b, what):
    """every (row, value) pair of a data line is processed: the line's fields (parameter 2) are walked by a loop, no adaptor drops pairs, and nothing leaves the loop with success before the last pair (a `return Ok(..)` / `break` on
    a path without error where `continue` is meant) -- decided on the paths of one iteration: each ends at the loop header, in an
    error, or in a panic"""
    loops = pair_loops(ctx, b)
    if not loops:
        ctx.bad(rule, 'T-LOOPMUST', b.name, 'no loop over the (row, value) pairs of %s' % what, b.site()); return
    lo = loops[0]; nextc, header, some_bb, none_bb, blocks = lo
    restr = sorted({x.item for x in ctx.S.slice_operand(b, nextc.args[0]).call_objs if x.item in RESTRICTING and x.item not in ('step_by', 'skip') and 'Iterator' in (x.trait or '')})
    ps = sx_loop_paths(ctx, rule, 'T-LOOPMUST', b, NumbersParse(), lo)
    if ps is None: return
    sx = Sx(ctx, b, NumbersParse()); early = []
    for p_ in ps:
        if p_.end == 'return' and sx.variant(p_.value if p_.value is not None else ('undef', 0), p_) != 'Err': early.append('returns %s' % sx_str(p_.value, 2) if p_.value is not None else 'returns')
        elif p_.end == 'stop' and p_.bb != header: early.append('leaves the loop')
    # (a `break` shows as a path that reaches the code after the loop: sx_loop_paths stops at the header only, so it ends in return)
    ctx.check(not restr and not early, rule, 'T-LOOPMUST', b.name,
              ('the loop over the pairs of %s is restricted by %s' % (what, restr)) if restr else 'after a pair of %s has been processed without error the function %s instead of going on to the next pair' % (what, sorted(set(early))[0] if early else ''), b.site(nextc.bb))


def ranges_rules(ctx, b):
    """the RANGES sign table, decided on values:   row type   sign of r     sets                         rhs of the second row
                                                   G          + or -        new in le                    b + |r|
                                                   L          + or -        new in ge                    b - |r|
                                                   E          +             row: eq -> ge, new in le     b + |r|
                                                   E          -             row: eq -> le, new in ge     b - |r|"""
    R = 'C17.ranges'
    def is_b_insert(c): return c.item == 'insert' and 'HashMap::<' in c.name and mps_table_of(b, c.args[0]) == 'b'
    loops = sorted([lo for lo in T.for_loops(b) if any(c.bb in lo[4] and is_b_insert(c) for c in b.calls)], key=lambda lo: -len(lo[4]))
    if not loops:
        ctx.bad(R + '/per-entry', 'T-BRANCHFX', b.name, 'no loop over the (row, value) pairs of a RANGES line that stores a right-hand side', b.site()); return
    nextc, header, some_bb, none_bb, blocks = loops[0]
    samples = [(7.0, 3.0), (7.0, -3.0), (None, 0.75), (None, -0.75), (-2.5, 1.5), (-2.5, -1.5)]
    rows = {'E+': [], 'E-': [], 'G': [], 'L': []}; removed = []; second = []; overwrites = []; seen = 0
    for typ, nm in (('eq', 'E'), ('ge', 'G'), ('le', 'L')):
        for bval, r in samples:
            orc = RangeCase(typ, bval, r)
            ps = sx_loop_paths(ctx, R + '/per-entry', 'T-BRANCHFX', b, orc, loops[0])
            if ps is None: return
            sx = Sx(ctx, b, orc)
            done = [p for p in ps if p.end == 'stop' and p.bb == header]
            key = nm + ('+' if r > 0 else '-') if nm == 'E' else nm
            B = bval if bval is not None else 0.0
            plus = (nm == 'G') or (nm == 'E' and r > 0)
            want_b = B + abs(r) if plus else B - abs(r)
            want_sets = {('le' if plus else 'ge', 'insert', 'new')}
            if nm == 'E': want_sets |= {('eq', 'remove', 'row'), ('ge' if plus else 'le', 'insert', 'row')}
            case = 'b=%s r=%s' % (bval, r)
            if not done: rows[key].append('%s: the entry is not processed to the end' % case)
            for p in done:
                seen += 1
                sets = set(); bvals = []; a_ok = False; b_new = False
                for tab, item, args, res, bb in sx_table_calls(p, ('insert', 'remove', 'take')):
                    kc = _key_class(args[0]) if args else '?'
                    if item in ('remove', 'take') and res == ('const', 'false'): continue      # removing a row from a set it is not in: no effect
                    if tab in ('eq', 'ge', 'le'): sets.add((tab, 'remove' if item == 'take' else item, kc))
                    elif tab == 'b' and item == 'insert' and len(args) == 2:
                        bvals.append(sx.conc(args[1], p)); b_new = b_new or kc == 'new'
                    elif tab == 'a' and item == 'insert' and len(args) == 2 and kc == 'new':
                        if not _tested_absent(p, 'a', args[0], bb): overwrites.append('%s %s' % (nm, case))
                        a_ok = a_ok or any(c[1] in ('get', 'get_mut', 'get_key_value') and sx_table_of(c[3][0]) == 'a' and _key_class(c[3][1]) == 'row' for c in sx_calls(args[1]))
                if sets != want_sets or bvals != [want_b]:
                    rows[key].append('%s: sets %s, right-hand side of the second row %s; the format says sets %s and %s' % (case, sorted(sets), bvals, sorted(want_sets), want_b))
                if nm == 'E' and ('eq', 'remove', 'row') not in sets: removed.append(case)
                if not (a_ok and b_new): second.append('%s %s' % (nm, case))
    for key in ('E+', 'E-', 'G', 'L'):
        ctx.check(not rows[key], R + '/' + key, 'T-BRANCHFX', b.name, 'RANGES on a %s row: %s' % (key, '; '.join(sorted(set(rows[key]))[:3])), b.site(nextc.bb), cases=len(samples))
    ctx.check(seen > 0 and not removed, R + '/E-becomes-two-inequalities', 'T-BRANCHFX', b.name, 'a ranged E row is not removed from the equalities (%s)' % ', '.join(removed[:3]), b.site(nextc.bb))
    ctx.check(seen > 0 and not second, R + '/second-row-created', 'T-BRANCHFX', b.name, 'the second row (coefficients copied from the ranged row, and its right-hand side) is not created (%s)' % ', '.join(second[:3]), b.site(nextc.bb))
    all_pairs_processed(ctx, R + '/all-pairs-processed', b, 'a RANGES line')
    # the name of the generated row is one no row has yet: a declared row (or an earlier generated one) is never overwritten
    ctx.check(seen > 0 and not overwrites, R + '/second-row-name-unused', 'T-GUARD', b.name, 'the row generated for a ranged row is inserted under a name that has not been tested to be absent from the rows read so far: a declared row of that name would be lost (%s)' % ', '.join(overwrites[:3]), b.site(nextc.bb))
    # every pair of the line is processed
    si = ctx.S.slice_operand(b, nextc.args[0])
    restr = sorted({x.item for x in si.call_objs if x.item in RESTRICTING and x.item not in ('step_by', 'skip') and 'Iterator' in (x.trait or '')})      # stepping over indices / skipping the set name is how pairs are formed
    ctx.check(not restr and 2 in si.params, R + '/every-pair', 'T-LOOPMUST', b.name, 'the loop over the pairs of the line is restricted by %s' % restr, b.site(nextc.bb))


class FinishCase(SxOracle):
    """finish(): one column with upper bound `u` and lower bound `l` (None: no entry); `item_tab` is the table the loop runs over"""
    def __init__(self, u, l, item_tab, item_local, member=None): self.u = u; self.l = l; self.item_tab = item_tab; self.item_local = item_local; self.member = member

    def call(self, sx, node, st):
        # member=False: the column is not in `integer` (a continuous column with bounds [0, 1])
        _, item, name, args, bi, occ = node
        if self.member is False and item in ('remove', 'contains') and 'HashSet' in name and args and sx_table_of(args[0]) == 'integer': return _cbool(False)
        return None

    def _tab(self, v):
        if v[0] == 'call' and v[1] in ('get', 'get_key_value') and 'HashMap::<' in v[2]:
            t = sx_table_of(v[3][0])
            return t if t in ('u', 'l') else None
        return None

    def variant(self, sx, v, st):
        t = self._tab(v)
        if t: return 'Some' if getattr(self, t) is not None else 'None'
        if self.member is False and v[0] == 'call' and v[1] in ('take', 'get') and 'HashSet' in v[2] and v[3] and sx_table_of(v[3][0]) == 'integer': return 'None'
        return None

    def num(self, sx, v, st):
        if v[0] == 'field' and v[3] == 'payload':
            t = self._tab(v[1])
            if t: return getattr(self, t)
        # the loop item (name, value) of the table iterated over
        x = v
        while x[0] in ('field', 'ref'): x = x[1]
        if x == ('undef', self.item_local) and self.item_tab in ('u', 'l') and v[0] == 'field' and v[2] == '1':
            return getattr(self, self.item_tab)
        return None


def finish_bulk(ctx, rule, b):
    """the same clause when the integer set is split in one go: `integer.partition(pred)` (possibly after mem::take / drain /
    into_iter), the side for which pred holds added to `binary`, the other side stored back as `integer`.  For one column with
    upper bound u and lower bound l: pred holds iff u == 1 and l is absent or 0; the yes-side (component 0) goes into binary and
    only there, the no-side (component 1) becomes integer."""
    probs = []; n = 0
    for u in (1.0, 2.0, None):
        for l in (None, 0.0, 3.0):
            orc = FinishCase(u, l, 'integer', -99)
            ps = sx_paths(ctx, rule, 'T-BRANCHFX', b, orc)
            if ps is None: return
            sx = Sx(ctx, b, orc)
            promote = (u == 1.0 and l in (None, 0.0)); case = 'u=%s l=%s' % (u, l)
            rets = [p for p in ps if p.end == 'return' and p.value is not None]
            if not rets: probs.append('%s: no result' % case)
            for p in rets:
                n += 1
                parts = [e for e in p.events if e[0] == 'partition' and sx_table_of(e[3][3][0] if e[3][0] == 'call' and e[3][1] in ('take', 'replace', 'drain') and e[3][3] else e[3]) == 'integer']
                if len(parts) != 1: probs.append('%s: the integer columns are not split by one partition' % case); continue
                _, node, side, base, item = parts[0]
                yes = ('field', node, '0'); no = ('field', node, '1')
                def comp(v):
                    v = sx_strip(v)
                    return v[2] if v[0] == 'field' and v[1] == node and v[2] in ('0', '1') else None
                if side is None: probs.append('%s: the test of the partition cannot be evaluated' % case); continue
                if side != promote: probs.append('%s: %s' % (case, 'not moved from integer to binary' if promote else 'moved to binary'))
                to_bin = [comp(e[3][1]) for e in p.events if e[0] == 'call' and e[1] in ('extend', 'insert') and len(e[3]) >= 2 and sx_table_of(e[3][0]) == 'binary']
                kept = comp(sx.field(sx_strip(p.value), 'integer', MPS))
                if to_bin != ['0']: probs.append('%s: binary receives %s of the partition, expected the columns for which the test holds' % (case, to_bin or 'nothing'))
                back = [comp(e[3][1]) for e in p.events if e[0] == 'call' and e[1] == 'extend' and len(e[3]) >= 2 and sx_table_of(e[3][0]) == 'integer']
                if kept != '1' and back != ['1']: probs.append('%s: the columns for which the test does not hold are not what remains in integer' % case)
    ctx.check(n > 0 and not probs, rule, 'T-BRANCHFX', b.name, 'finish() must turn integer columns with u == 1 and l absent or 0 (and only those) into binaries: %s' % '; '.join(sorted(set(probs))[:4]), b.site())


def finish_rules(ctx, b):
    """an integer column with u == 1 and l absent or 0 becomes binary; nothing else does"""
    rule = 'C17.defaults/finish/integer-0-1-is-binary'
    def is_bin_insert(c): return c.item == 'insert' and 'HashSet::<' in c.name and mps_table_of(b, c.args[0]) == 'binary'
    loops = sorted([lo for lo in T.for_loops(b) if any(c.bb in lo[4] and is_bin_insert(c) for c in b.calls)], key=lambda lo: -len(lo[4]))
    if not loops and any(c.item == 'partition' and 'Iterator' in (c.trait or '') for c in b.calls):
        finish_bulk(ctx, rule, b); return
    if not loops:
        ctx.bad(rule, 'T-BRANCHFX', b.name, 'finish() has no loop over the bounded columns that inserts into `binary`', b.site()); return
    nextc, header, some_bb, none_bb, blocks = loops[0]
    si = ctx.S.slice_operand(b, nextc.args[0])
    item_tab = next((t for t in ('u', 'l', 'integer') if si.has_field(MPS, t)), None)
    probs = []; n = 0
    for u in (1.0, 2.0) + (() if item_tab == 'u' else (None,)):
        for l in (None, 0.0, 3.0) if item_tab != 'l' else (0.0, 3.0):
            orc = FinishCase(u, l, item_tab, nextc.dst['l'])
            ps = sx_loop_paths(ctx, rule, 'T-BRANCHFX', b, orc, loops[0])
            if ps is None: return
            done = [p for p in ps if p.end in ('stop', 'return')]
            promote = (u == 1.0 and l in (None, 0.0))
            took = []; both = False
            for p in done:
                n += 1
                tc = sx_table_calls(p)
                t_int = any(tab == 'integer' and item in ('take', 'remove') for tab, item, a, r, bb in tc)
                t_bin = any(tab == 'binary' and item == 'insert' for tab, item, a, r, bb in tc)
                looked = any(tab == 'integer' for tab, item, a, r, bb in tc)
                took.append((t_int or t_bin, looked)); both = both or (t_int and t_bin)
            case = 'u=%s l=%s' % (u, l)
            if promote and not (done and both and all(lk for _, lk in took)): probs.append('%s: not moved from integer to binary' % case)
            if not promote and any(t for t, _ in took): probs.append('%s: moved to binary' % case)
            if promote:
                # only INTEGER columns: for a column with these bounds that is not in `integer` nothing is put into `binary`
                ps2 = sx_loop_paths(ctx, rule, 'T-BRANCHFX', b, FinishCase(u, l, item_tab, nextc.dst['l'], member=False), loops[0])
                if ps2 is None: return
                if any(tab == 'binary' and item == 'insert' for p in ps2 if p.end in ('stop', 'return') for tab, item, a, r, bb in sx_table_calls(p)):
                    probs.append('%s: a column that is not in integer is made binary' % case)
    ctx.check(n > 0 and not probs, rule, 'T-BRANCHFX', b.name, 'finish() must turn integer columns with u == 1 and l absent or 0 (and only those) into binaries: %s' % '; '.join(probs[:4]), b.site(nextc.bb))


def column_rules(ctx, b):
    # markers, on values: 'MARKER' + 'INTORG' / 'INTEND' set the integer flag and touch no table; any other marker is an error
    vals = {}; clean = True
    for lit, flag in (("'INTORG'", 'true'), ("'INTEND'", 'false')):
        res = keyword_effects(ctx, 'C17.keywords/markers/effect', b, {"'MARKER'", lit}, 1.5)
        if res is None: return
        vals[lit] = sorted({sx_strip(v)[1] if sx_strip(v)[0] == 'const' else sx_str(v, 2) for r in res for f, v in r['stores'] if f == 'is_integer_variable'}) if res else ['no successful path']
        clean = clean and not any(r['eff'] for r in res)
    ctx.check(vals == {"'INTORG'": ['true'], "'INTEND'": ['false']} and clean, 'C17.keywords/markers/effect', 'T-BRANCHFX', b.name, 'INTORG/INTEND set the integer flag to %s (and must not touch the tables)' % vals, b.site())
    res = keyword_effects(ctx, 'C17.keywords/markers/unknown-is-error', b, {"'MARKER'"}, 1.5)
    if res is None: return
    errs = [bi for bi, st in b.stmts() if st['rv']['k'] == 'agg' and st['rv']['adt'].endswith('MpsParseError::InvalidMarker')]
    ctx.check(bool(errs) and not res, 'C17.keywords/markers/unknown-is-error', 'T-TABLE', b.name, 'an unknown marker is not an error', b.site())
    # a data line: the column is recorded in vars and in integer / real according to the flag; the entry of the objective row
    # goes to c, every other entry to the declared row of a
    memb = []; vars_ok = True; objp = []; n = 0
    for flag in (True, False):
        for objrow in (True, False):
            res = keyword_effects(ctx, 'C17.keywords/markers/membership', b, set(), 1.5, {'is_integer_variable': flag}, objrow)
            if res is None: return
            res = [r for r in res if r['path'].calls('parse')]              # at least one (row, value) pair was read
            case = 'integer flag %s, %s' % (flag, 'objective row' if objrow else 'constraint row')
            if not res: memb.append('%s: the line is not processed' % case)
            for r in res:
                n += 1
                e2 = {e[:2] for e in r['eff']}
                if (('integer', 'insert') in e2) != flag or (('real', 'insert') in e2) == flag: memb.append('%s: %s' % (case, sorted(x for x in e2 if x[0] in ('integer', 'real'))))
                vars_ok = vars_ok and ('vars', 'insert') in e2
                to_c = ('c', 'insert', 'value') in r['eff']; to_a = ('a[row]', 'insert', 'value') in r['eff']
                if to_c != objrow or to_a == objrow: objp.append('%s: %s' % (case, sorted(e for e in r['eff'] if e[0] in ('c', 'a[row]', 'a'))))
    ctx.check(n > 0 and not memb, 'C17.keywords/markers/membership', 'T-BRANCHFX', b.name, 'columns inside INTORG/INTEND are not recorded as integer (others as real): %s' % '; '.join(memb[:2]), b.site())
    ctx.check(n > 0 and vars_ok, 'C17.columns/vars', 'T-BRANCHFX', b.name, 'column is not recorded in vars', b.site())
    all_pairs_processed(ctx, 'C17.columns/all-pairs-processed', b, 'a COLUMNS line')
    ctx.check(n > 0 and not objp, 'C17.columns/objective-vs-constraint', 'T-BRANCHFX', b.name, 'entries of the objective row must go to c, all others to the declared row of a: %s' % '; '.join(objp[:2]), b.site())


class DispatchCase(SxOracle):
    """from_lines: the cursor stands at section `idx`, no OBJSENSE line is pending; with `fail` the section reader returns Err"""
    def __init__(self, idx, fail=False): self.idx = idx; self.fail = fail

    def discr(self, sx, v, st):
        return self.idx if v[0] == 'field' and v[2] == 'cursor' and v[3].endswith('parser::State') else None

    def num(self, sx, v, st):
        return False if v[0] == 'field' and v[2] == 'is_waiting_objsense_line' and v[3].endswith('parser::State') else None

    def variant(self, sx, v, st):
        return 'Err' if self.fail and v[0] == 'call' and v[1].startswith('read_') and v[1].endswith('_field') else None


def dispatch_rules(ctx, R, b):
    """per section the cursor stands at, one data line goes to that section's reader (and to no other), the reader's error is
    the function's error, a data line before any section is InvalidHeader -- decided on the calls made per case"""
    cur = ctx.F.adt('mps::parser::Cursor')
    want = {'Rows': 'read_row_field', 'Columns': 'read_column_field', 'Rhs': 'read_rhs_field', 'Ranges': 'read_range_field', 'Bounds': 'read_bound_field'}
    def is_reader(c): return c.item.startswith('read_') and c.item.endswith('_field')
    loops = sorted([lo for lo in T.for_loops(b) if any(c.bb in lo[4] and is_reader(c) for c in b.calls)], key=lambda lo: -len(lo[4]))
    if not cur or not loops:
        ctx.bad(R + '/dispatch', 'T-BRANCHFX', b.name, 'no loop over the lines that calls the section readers', b.site()); return
    got = {}; dropped = []; name_err = False
    for v in cur['variants']:
        for fail in (False, True):
            ps = sx_loop_paths(ctx, R + '/dispatch', 'T-BRANCHFX', b, DispatchCase(v['discr'], fail), loops[0])
            if ps is None: return
            sx = Sx(ctx, b, DispatchCase(v['discr'], fail))
            for p in ps:
                rd = [e[1] for e in p.events if e[0] == 'call' and e[1].startswith('read_') and e[1].endswith('_field')]
                if not fail: got.setdefault(v['name'], set()).update(rd)
                elif rd and p.end in ('stop', 'return') and not (p.end == 'return' and p.value is not None and sx.variant(p.value, p) == 'Err'): dropped.append(v['name'])
                if v['name'] == 'Name' and p.end == 'return' and p.value is not None and any(x[0] == 'agg' and x[1].endswith('MpsParseError::InvalidHeader') for x in sx_walk(p.value)): name_err = True
    got = {k: (sorted(x)[0] if len(x) == 1 else (sorted(x) or None)) for k, x in got.items()}
    ctx.check({k: got.get(k) for k in want} == want and got.get('End') is None, R + '/dispatch', 'T-BRANCHFX', b.name, 'section dispatch is %s' % got, b.site(), table=str(got))
    ctx.check(bool(got) and not dropped, R + '/dispatch/errors-propagate', 'T-ERRFLOW', b.name, 'the error of the section reader is dropped in sections %s' % sorted(set(dropped)), b.site())
    ctx.check(got.get('Name') is None and name_err, R + '/dispatch/data-before-section', 'T-TABLE', b.name, 'a data line before any section is not an error', b.site())


# =====================================================================================================
# comment and blank lines (clause: any well-formed text, comments and blank lines anywhere)
# =====================================================================================================
LINE_SOURCE = re.compile(r'Item = (std::string::)?String\b|Item = &(\'\w+ )?str\b|Item = std::result::Result<(std::string::)?String|\bLines<')
TRIMS = ('trim', 'trim_start', 'trim_end', 'trim_ascii', 'trim_ascii_start', 'trim_ascii_end', 'split_whitespace', 'split_ascii_whitespace')


def line_pulls(b):
    """calls in `b` that take the next element(s) out of an iterator over the lines of the file (an `impl Iterator<Item = String>`,
    `Lines<..>`, ..): next / nth / peek / find / ... -- every consuming method, not the lazy adaptors"""
    out = []
    for c in b.calls:
        if not c.args or c.args[0]['k'] == 'const' or c.item in SX_ADAPTORS or c.item in ('into_iter', 'iter', 'by_ref', 'size_hint', 'clone', 'deref', 'deref_mut', 'borrow_mut', 'as_mut'): continue
        if not ('Iterator' in (c.trait or '') or 'Peekable' in c.name): continue
        recv = b.locals[c.args[0]['pl']['l']] if c.args[0]['pl']['l'] < len(b.locals) else ''
        if LINE_SOURCE.search(c.name.split(' as ')[0]) or LINE_SOURCE.search(recv): out.append(c)
    return out


class LineCase(SxOracle):
    """the line taken by the call in block `bb` exists and is blank (white space only) / a comment (`*` in column 1)"""
    def __init__(self, bb, kind): self.bb = bb; self.kind = kind

    def _pull(self, x): return x[0] == 'call' and x[4] == self.bb and x[5] == 1

    def _line(self, v): return any(self._pull(x) for x in sx_walk(v))

    def variant(self, sx, v, st):
        if self._pull(v): return 'Some'
        if v[0] == 'field' and v[3] == 'payload' and self._pull(v[1]): return 'Ok'       # `Lines` yields io::Result<String>
        return None

    def call(self, sx, node, st):
        _, item, name, args, bi, occ = node
        if not args or not self._line(args[0]) or self._pull(node): return None
        trimmed = any(x[0] == 'call' and x[1] in TRIMS for x in sx_walk(args[0]))
        if item == 'is_empty' and re.search(r'\bstr\b|String', name):
            if self.kind == 'comment': return _cbool(False)
            return _cbool(True) if trimmed else None          # "   " is not empty before trimming
        if item == 'starts_with' and len(args) == 2 and sx_strip(args[1])[0] == 'const':
            pat = sx_strip(args[1])[1].strip().strip('"\'')
            if self.kind == 'comment':
                if pat == '*': return _cbool(True)
                if pat in ('', ' ', '\\t'): return _cbool(False)
            elif pat == '*': return _cbool(False)
        if item in ('eq', 'ne') and len(args) == 2 and sx_strip(args[1])[0] == 'const' and re.fullmatch(r'(const )?""', sx_strip(args[1])[1].strip()):
            if self.kind == 'comment': return _cbool(item == 'ne')
            if trimmed: return _cbool(item == 'eq')
        return None


def line_filter_rules(ctx):
    """every line the reader takes from the file passes the comment / blank filter: wherever a line is pulled from the line
    iterator (the main loop of from_lines or anywhere else in the reader), a blank line and a `*` comment line lead back to pulling
    the next line with nothing done in between -- no section reader called, nothing parsed, no state changed, no return"""
    R = 'C17.lines'
    bodies = [b for n, b in sorted(ctx.F.bodies.items()) if b.kind in ('fn', 'closure') and re.match(r'^(<.* as )?mps::(parser::|[^:]*$)', b.parent if b.kind == 'closure' else n)]
    sites = [(b, c) for b in bodies for c in line_pulls(b)]
    ctx.check(any(b.hdr.get('item') == 'from_lines' for b, c in sites), R + '/source', 'T-LOOPMUST', 'mps::parser', 'no place found where Mps::from_lines takes the lines of the file one by one', '')
    for kind in ('blank', 'comment'):
        probs = []; n = 0
        for b, c in sites:
            ctx.fn(b)
            stops = {x.bb for bb_, x in sites if bb_ is b}
            try:
                # with what the code before the pull has defined (the iterator may have been wrapped in lazy filter adaptors there)
                pre = [p0.env for p0 in Sx(ctx, b, LineCase(c.bb, kind), max_paths=300).run(0, None, {c.bb}) if p0.end == 'stop' and p0.bb == c.bb][:2]
            except (SxLimit, RecursionError):
                pre = []
            ps = []; env0 = {}
            try:
                for env in (pre or [None]):
                    env0 = env or {}
                    ps += [(env0, p_) for p_ in Sx(ctx, b, LineCase(c.bb, kind)).run(c.bb, env, stops)]
            except (SxLimit, RecursionError):
                probs.append('%s: too many paths to decide' % b.name); continue
            for env0, p in ps:
                n += 1
                if any(e[0] == 'filtered-out' and e[1][4] == c.bb for e in p.events): continue          # a filter in front of this pull drops such a line: it is never handed out here
                done = [e for e in p.events if e[0] == 'store' or (e[0] == 'call' and not (e[4] == c.bb and e[5] is not None and p.events.index(e) == 0) and
                        (strip_generic_args(e[2]) in ctx.F.bodies or e[1] in ('parse', 'insert', 'remove', 'take', 'push', 'entry', 'get_mut', 'from_residual')))]
                touched = [l for l in p.env if l < len(b.locals) and re.search(r'parser::(State|Mps)\b', b.locals[l]) and not b.locals[l].lstrip().startswith('&') and p.env[l] != env0.get(l)]
                what = 'a %s line' % ('blank' if kind == 'blank' else 'comment')
                if p.end != 'stop': probs.append('%s (line %s): after %s the reader does not go on to the next line (%s)' % (b.name.split('::')[-1], b.site(c.bb).split(':')[-1], what, p.end))
                elif done or touched: probs.append('%s (line %s): %s is not skipped: %s' % (b.name.split('::')[-1], b.site(c.bb).split(':')[-1], what, ', '.join(sorted({e[1] for e in done})) or 'the parser state is changed'))
        ctx.check(n > 0 and not probs, R + '/%s-skipped' % kind, 'T-LOOPMUST', 'mps::parser', 'every line taken from the file must pass the blank / comment filter: %s' % '; '.join(sorted(set(probs))[:3]), sites[0][0].site(sites[0][1].bb) if sites else '')


def entry_rules(ctx):
    """the loaders that are given a path read the file the same way whatever it is called: no branch in them depends on the path
    alone (its extension, its name), only on what opening / reading the file gives.  (The layout -- gzip or plain text -- is a
    property of the content; choosing the decoder by the extension reads a gzipped file without `.gz` as empty text.)"""
    R = 'C17.entry'
    def reads(c): return bool(re.search(r'(^|::)(from_file|from_zipped_reader|from_raw_reader|load_file|load_raw_reader|load_zipped_reader)(::<.*>)?$|fs::File::open|fs::read', c.name))
    def io(x): return strip_generic_args(x.name) in ctx.F.bodies or bool(re.search(r'\bstd::(fs|io)::|flate2|\bio::Read\b', x.name))
    loaders = []
    for n, b in sorted(ctx.F.bodies.items()):
        if b.kind != 'fn' or not re.match(r'^mps::([^:]+$|parser::Mps::)', n) or n.startswith('mps::to_mps'): continue
        pars = [i for i in range(1, b.argc + 1) if 'Path' in b.locals[i]]
        if pars and any(reads(c) for c in b.calls): loaders.append((b, pars))
    ctx.check(any(b.hdr.get('item') == 'load_file' for b, _ in loaders), R + '/loaders', 'T-GUARD', 'mps', 'mps::load_file (a loader that is given a path) not found', '')
    probs = []
    for b, pars in loaders:
        ctx.fn(b)
        for bi in sorted(b.live):
            t = b.blocks[bi]['term']
            if t['k'] != 'switch': continue
            si = ctx.S.slice_operand(b, t['d'])
            if set(pars) & set(si.params) and not any(io(x) for x in si.call_objs):
                probs.append('%s (line %s): a branch depends on the path only (%s)' % (b.name, b.site(bi).split(':')[-1], ', '.join(sorted({x.item for x in si.call_objs})) or 'the path itself'))
    ctx.check(bool(loaders) and not probs, R + '/by-content-not-by-name', 'T-GUARD', 'mps', 'how a file is read must not depend on its name: %s' % '; '.join(probs[:3]), loaders[0][0].site() if loaders else '')


def parser_rules(ctx):
    line_filter_rules(ctx); entry_rules(ctx)
    R = 'C17.keywords'
    # OBJSENSE values and section names: keyword -> variant, read off the value from_str returns for each keyword; an unknown keyword
    # is the typed error on every path (arms giving Ok(..) / Err(..), or Some(..) / None followed by ok_or / ok_or_else, alike)
    for what, ty, enum, want, err in (('sense', 'mps::parser::ObjSense', 'ObjSense::', {'MIN': 'Min', 'MAX': 'Max'}, 'InvalidObjSense'),
                                      ('sections', 'mps::parser::Cursor', 'Cursor::', {'ROWS': 'Rows', 'COLUMNS': 'Columns', 'RHS': 'Rhs', 'RANGES': 'Ranges', 'BOUNDS': 'Bounds', 'ENDATA': 'End'}, 'InvalidHeader')):
        b = ctx.method(R + '/%s/anchor' % what, ty, 'from_str', trait='FromStr')
        if b is None: continue
        got = keyword_table(ctx, R + '/' + what, b, set(want), err)
        rows = {}
        for lit in sorted(want):
            if lit not in got: continue
            res = keyword_effects(ctx, R + '/%s/mapping' % what, b, {lit}, None)
            if res is None: rows = None; break
            vs = sorted({x[1].split('::')[-1] for r in res for x in sx_walk(r['path'].value) if x[0] == 'agg' and enum in x[1]})
            rows[lit] = vs[0] if len(vs) == 1 else vs
        if rows is not None:
            ctx.check(rows == want, R + '/%s/mapping' % what, 'T-BRANCHFX', b.name, '%s keywords map to %s' % (what, rows), b.site())
    # the dispatcher routes each section to its reader
    fl = [x for x in ctx.F.bodies.values() if x.kind == 'fn' and x.hdr.get('self') == MPS and x.hdr.get('item') == 'from_lines']
    if len(fl) != 1: ctx.lost(R + '/dispatch', 'Mps::from_lines')
    else:
        b = ctx.fn(fl[0])
        dispatch_rules(ctx, R, b)
    b = ctx.method(R + '/header/anchor', ST, 'read_header')
    if b is not None:
        lits = sorted({c.args[1]['v'].strip('"') for c in b.calls if c.item == 'strip_prefix' and len(c.args) > 1 and c.args[1]['k'] == 'const'})
        ctx.check(lits == ['NAME', 'OBJSENSE'], R + '/header/prefixes', 'T-TABLE', b.name, 'header prefixes are %s' % lits, b.site())
        res = failure_is_error(ctx, R + '/header/errors', 'T-ERRFLOW', b, lambda v: v[1] == 'parse', 'Err')
        if res is not None:
            ctx.check(res[0] >= 1 and not res[1], R + '/header/errors', 'T-ERRFLOW', b.name, 'header keyword: %s' % ('; '.join(res[1][:2]) or 'nothing is parsed'), b.site())
    # ---- rows
    b = ctx.method('C17.rows/anchor', ST, 'read_row_field')
    if b is not None:
        tab = keyword_table(ctx, 'C17.keywords/rows', b, {'N', 'E', 'G', 'L'}, 'InvalidRowType')
        # per row type, on values: E/G/L put the row (named by field 1) into eq/ge/le and create its empty coefficient row; N names
        # the objective once and creates nothing
        want = {'E': {('eq', 'insert'), ('a', 'insert', 'empty-row')}, 'G': {('ge', 'insert'), ('a', 'insert', 'empty-row')}, 'L': {('le', 'insert'), ('a', 'insert', 'empty-row')}}
        for lit, w in want.items():
            res = keyword_effects(ctx, 'C17.rows/' + lit, b, {lit}, None)
            if res is None: continue
            bad = [r for r in res if r['eff'] != w or r['keys'] != ['1_usize']]
            ctx.check(bool(res) and not bad, 'C17.rows/' + lit, 'T-BRANCHFX', b.name, 'row type %s has effects %s (row name from line fields %s), expected %s with the name from field 1' % (lit, sorted(bad[0]['eff']) if bad else 'none', bad[0]['keys'] if bad else [], sorted(w)), b.site(), effects=sorted(map(str, res[0]['eff'])) if res else [])
        res = keyword_effects(ctx, 'C17.rows/N', b, {'N'}, None)
        if res is not None:
            named = [r for r in res if any(f == 'objective_name' for f, v in r['stores'])]
            ok = bool(res) and not any(r['eff'] for r in res) and bool(named) and len(named) < len(res) and all(any(c[1] == 'is_empty' for c in r['path'].calls()) for r in res)
            ctx.check(ok, 'C17.rows/N', 'T-BRANCHFX', b.name, 'an N row must name the objective (first one only) and create no constraint row; effects %s' % sorted(map(str, set().union(*[r['eff'] for r in res]) if res else [])), b.site())
    # ---- columns: markers, undeclared rows, numbers
    b = ctx.method('C17.keywords/markers/anchor', ST, 'read_column_field')
    if b is not None:
        tab = literal_table(b)
        ctx.check({"'MARKER'", "'INTORG'", "'INTEND'"} <= set(tab), 'C17.keywords/markers/keywords', 'T-TABLE', b.name, 'marker keywords are %s' % sorted(tab), b.site())
        column_rules(ctx, b)
    for fn in ('read_column_field', 'read_range_field'):
        b = ctx.method('C17.keywords/undeclared-row/%s/anchor' % fn, ST, fn)
        if b is None: continue
        undeclared_never_skipped(ctx, 'C17.keywords/undeclared-row/%s/never-skipped' % fn, b, 'a COLUMNS line' if fn == 'read_column_field' else 'a RANGES line')
        # the row named by an entry is looked up in `a` (get / get_mut / get_key_value); when it is not there, every path through
        # the lookup returns Err(UnknownRowName) -- decided on paths, so `?`, match, let-else, helpers are the same
        def is_lookup(v): return v[1] in ('get_mut', 'get', 'get_key_value') and 'HashMap::<' in v[2] and len(v[3]) == 2 and sx_table_of(v[3][0]) == 'a' and _key_class(v[3][1]) == 'row'
        res = failure_is_error(ctx, 'C17.keywords/undeclared-row/%s/is-error' % fn, 'T-ERRFLOW', b, is_lookup, 'None', 'MpsParseError::UnknownRowName')
        if res is None: continue
        seen, probs = res
        ctx.check(seen >= 1, 'C17.keywords/undeclared-row/%s/lookup' % fn, 'T-ERRFLOW', b.name, 'the row of an entry is never looked up in a (get / get_mut)', b.site())
        goes_on = [x for x in probs if x.startswith('the function goes on')]; untyped = [x for x in probs if not x.startswith('the function goes on')]
        ctx.check(seen >= 1 and not goes_on, 'C17.keywords/undeclared-row/%s/is-error' % fn, 'T-ERRFLOW', b.name, 'undeclared row: %s' % '; '.join(goes_on[:2]), b.site())
        ctx.check(seen >= 1 and not goes_on and not untyped, 'C17.keywords/undeclared-row/%s/typed' % fn, 'T-ERRFLOW', b.name, 'undeclared row is not reported as UnknownRowName', b.site())
    for fn in ('read_column_field', 'read_rhs_field', 'read_range_field', 'read_bound_field'):
        b = ctx.F.one(ST, fn)
        if b is None: continue
        # the numbers of a record are read with the f64 parser -- the writer formats them as f64 (`inf`, `-inf`, `1e30`, `0.5` included);
        # an integer or f32 parser rejects or changes text the library itself writes (seed C18-17).  Other targets of `parse` must be
        # types of the crate (a keyword parsed into an enum)
        odd = sorted({m.group(1) for bd in [b] + list(ctx.F.closures_of(b)) for c in bd.calls if c.item == 'parse'
                      for m in [re.search(r'\bstr>?::parse::<(.+)>$', c.name)] if m and m.group(1) != 'f64' and parsed_type_from_str(ctx.F, c.name) is None})
        ctx.check(not odd, 'C17.keywords/numbers/%s/as-f64' % fn, 'T-CONST', b.name, 'a field of the record is parsed as %s, the writer formats the numbers as f64' % odd, b.site())
        res = failure_is_error(ctx, 'C17.keywords/numbers/%s/error' % fn, 'T-ERRFLOW', b, lambda v: v[1] == 'parse' and 'f64' in v[2], 'Err')
        if res is None: continue
        seen, probs = res
        ctx.check(seen >= 1, 'C17.keywords/numbers/%s/parsed' % fn, 'T-ERRFLOW', b.name, 'no number is parsed', b.site())
        ctx.check(seen >= 1 and not probs, 'C17.keywords/numbers/%s/error' % fn, 'T-ERRFLOW', b.name, 'unparsable number: %s' % '; '.join(probs[:2]), b.site())
    # ---- rhs
    b = ctx.method('C17.rhs/anchor', ST, 'read_rhs_field')
    if b is not None:
        # on values: every successfully read line that had a (row, value) pair stored the parsed number in b -- the pair may be taken
        # apart in a helper, destructured from a tuple, parsed before or after the row name is built
        res = keyword_effects(ctx, 'C17.rhs/stores-b', b, set(), 1.5)
        if res is not None:
            res = [r for r in res if r['path'].calls('parse')]
            ctx.check(bool(res) and all(('b', 'insert', 'value') in r['eff'] for r in res), 'C17.rhs/stores-b', 'T-BRANCHFX', b.name, 'RHS value is not stored in b', b.site())
        def is_b_insert(c): return c.item == 'insert' and mps_table_of(b, c.args[0]) == 'b'
        los = [lo for lo in T.for_loops(b) if any(c.bb in lo[4] and is_b_insert(c) for c in b.calls)]
        skipped = [lo for lo in los if not T.must_pass(b, lo[2], {lo[1]}, {c.bb for c in b.calls if c.bb in lo[4] and is_b_insert(c)})]
        restr = sorted({x.item for lo in los for x in ctx.S.slice_operand(b, lo[0].args[0]).call_objs if x.item in RESTRICTING and x.item not in ('step_by', 'skip') and 'Iterator' in (x.trait or '')})
        ctx.check(bool(los) and not skipped, 'C17.rhs/every-pair', 'T-LOOPMUST', b.name, 'a (row, value) pair of an RHS line can be passed without b.insert(row, value)' if los else 'no loop over the pairs of an RHS line', b.site())
        all_pairs_processed(ctx, 'C17.rhs/all-pairs-processed', b, 'an RHS line')
        ctx.check(bool(los) and not restr, 'C17.rhs/every-pair/all-items', 'T-LOOPMUST', b.name, 'the loop over the pairs is restricted by %s' % restr, b.site())
    # ---- ranges: the RANGES sign table
    b = ctx.method('C17.ranges/anchor', ST, 'read_range_field')
    if b is not None: ranges_rules(ctx, b)
    # ---- bounds
    b = ctx.method('C17.bounds/anchor', ST, 'read_bound_field')
    if b is not None:
        tab = keyword_table(ctx, 'C17.keywords/bounds', b, {'UP', 'LO', 'FX', 'MI', 'PL', 'FR', 'BV', 'LI', 'UI'}, 'InvalidBoundType', 1.5)
        # per bound type, on values (a positive and a negative number): effect on the parsed tables, column from field 2, number from field 3
        want = {
            'LO': {('l', 'insert', 'value')}, 'UP': {('u', 'insert', 'value')}, 'FX': {('l', 'insert', 'value'), ('u', 'insert', 'value')},
            'MI': {('l', 'insert', '-inf')}, 'FR': {('l', 'insert', '-inf')}, 'PL': set(),
            'BV': {('integer', 'remove'), ('real', 'remove'), ('binary', 'insert')},
            'UI': {('integer', 'insert'), ('real', 'remove'), ('u', 'insert', 'value')}, 'LI': {('integer', 'insert'), ('real', 'remove'), ('l', 'insert', 'value')},
        }
        alt = {'PL': [set(), {('u', 'insert', '+inf')}], 'FR': [{('l', 'insert', '-inf')}, {('l', 'insert', '-inf'), ('u', 'insert', '+inf')}]}
        for lit, w in want.items():
            if lit not in tab: continue
            res = []
            for val in (3.25, -1.5, 2e30):                   # a huge finite number is a number like any other
                r = keyword_effects(ctx, 'C17.bounds/' + lit, b, {lit}, val)
                if r is None: res = None; break
                if not r: res.append(dict(eff={('no successful path',)}, keys=[], nums=[], stores=[]))
                res += r
            if res is None: continue
            bad = [r for r in res if not (r['eff'] == w or r['eff'] in alt.get(lit, []))]
            ctx.check(bool(res) and not bad, 'C17.bounds/' + lit, 'T-BRANCHFX', b.name, 'bound type %s has effects %s, expected %s' % (lit, sorted(bad[0]['eff']) if bad else 'none', sorted(w)), b.site(), effects=sorted(map(str, res[0]['eff'])) if res else [])
            ctx.sample(dict(rule='C17.bounds', keyword=lit, effects=sorted(map(str, res[0]['eff'])) if res else []))
            # column name is field 2, value field 3
            wantk = [] if lit == 'PL' else ['2_usize']; wantn = ['3_usize'] if any(len(e) == 3 and e[2] == 'value' for e in w) else []
            badf = [r for r in res if not ((r['keys'] == wantk or (lit == 'PL' and r['keys'] in ([], ['2_usize']))) and r['nums'] == wantn)]
            ctx.check(bool(res) and not badf, 'C17.bounds/%s/fields' % lit, 'T-CONST', b.name, 'column from line fields %s and number from %s, expected %s / %s' % (badf[0]['keys'] if badf else [], badf[0]['nums'] if badf else [], wantk, wantn), b.site())
            if lit == 'FX':
                def same(r):
                    vs = [a[1] for t_, it, a, rs, bi in sx_table_calls(r['path'], ('insert',)) if t_ in ('l', 'u') and len(a) == 2] if 'path' in r else []
                    return len(vs) == 2 and vs[0] == vs[1]
                ctx.check(bool(res) and all(same(r) for r in res), 'C17.bounds/FX/same-value', 'T-CARRY', b.name, 'FX does not store the same value in l and u', b.site())
    # ---- finish(): integer [0,1] => binary
    # located by what it does -- the loop over the bounded columns that inserts into `binary` -- in State::finish or, when that
    # helper has been inlined into its caller, in the function of the parser that now holds the loop
    b = ctx.F.one(ST, 'finish')
    if b is None:
        def promotes(pb):
            return any(c.bb in lo[4] and c.item == 'insert' and 'HashSet::<' in c.name and mps_table_of(pb, c.args[0]) == 'binary' for lo in T.for_loops(pb) for c in pb.calls)
        hosts = [pb for n, pb in sorted(ctx.F.bodies.items()) if pb.kind == 'fn' and n.startswith('mps::parser::') and promotes(pb)]
        b = max(hosts, key=lambda pb: len(pb.blocks)) if hosts else None
    if b is None: ctx.lost('C17.defaults/finish/anchor', '%s::finish (or a loop of the parser that inserts into `binary`)' % ST)
    else:
        ctx.fn(b); finish_rules(ctx, b)

# =====================================================================================================
# the converter (mps/convert.rs)
# =====================================================================================================
def _find_function(v):
    """('Constant', value, None) / ('Linear', constant, terms) of the v1::Function inside a returned value"""
    for x in sx_walk(v):
        if x[0] == 'agg' and x[1].endswith('function::Function::Constant') and x[3]: return ('Constant', x[3][0], None)
        if x[0] == 'agg' and x[1].endswith('function::Function::Linear') and x[3]:
            lin = sx_as_agg(x[3][0], 'v1::Linear') or ('undef', 0)
            if lin[0] == 'agg' and 'constant' in lin[2] and 'terms' in lin[2]:
                return ('Linear', lin[3][lin[2].index('constant')], lin[3][lin[2].index('terms')])
            return ('Linear', None, None)
    return None


def _is_minus_one(sx, v, st):
    return sx.conc(v, st) == -1.0


def _negated_coefficients(sx, p):
    """events of a path that flip the sign of a term coefficient:  `t.coefficient *= -1.`  ≡  `t.coefficient = -t.coefficient`
    ≡  building `Term { coefficient: -t.coefficient, .. }` / `* -1.` for a new vector"""
    def neg_of_coeff(v):
        v = sx_strip(v)
        if v[0] == 'un' and v[1] == 'Neg': inner = v[2]
        elif v[0] == 'bin' and v[1] == 'Mul' and _is_minus_one(sx, v[3], p): inner = v[2]
        elif v[0] == 'bin' and v[1] == 'Mul' and _is_minus_one(sx, v[2], p): inner = v[3]
        else: return False
        return any(f == 'coefficient' for a, f in sx_fields(inner))
    out = []
    for e in p.events:
        if e[0] == 'store' and sx_strip(e[1])[0] == 'field' and sx_strip(e[1])[2] == 'coefficient' and neg_of_coeff(e[2]): out.append(e)
        elif e[0] == 'call':
            for a in e[3]:
                a = sx_strip(a)
                if a[0] == 'agg' and a[1].endswith('linear::Term') and 'coefficient' in a[2] and neg_of_coeff(a[3][a[2].index('coefficient')]): out.append(e)
    return out


class SignCase(SxOracle):
    """convert_inequality: the row is in set `typ` (eq / ge / le / None), the right-hand side is `bval`, terms empty or not.
    Tables are identified by parameter position (the call site is checked for passing eq, ge, le in this order)."""
    TABS = {('param', 4): 'eq', ('param', 5): 'ge', ('param', 6): 'le', 'eq': 'eq', 'ge': 'ge', 'le': 'le'}

    def __init__(self, typ, bval, empty, roles=None):
        self.typ = typ; self.bval = bval; self.empty = empty
        if roles is not None: self.TABS = dict(roles, eq='eq', ge='ge', le='le')       # parameter -> table as bound at the call sites

    def call(self, sx, node, st):
        _, item, name, args, bi, occ = node
        if item == 'contains' and 'HashSet::<' in name and len(args) == 2:
            t = self.TABS.get(sx_table_of(args[0]))
            if t: return _cbool(t == self.typ)
        if item == 'is_empty' and 'Vec::<' in name: return _cbool(self.empty)
        return None

    def num(self, sx, v, st):
        return self.bval if v == ('param', 2) else None


def sign_rules(ctx, R, ib, roles=None):
    """`a x (=|<=) b` becomes `a x - b (=|<=) 0`;  `a x >= b` becomes `-a x + b <= 0`  (a constant-only row included)"""
    want_eq = {'eq': {'EqualToZero'}, 'le': {'LessThanOrEqualToZero'}, 'ge': {'LessThanOrEqualToZero'}}
    eqno = {v['name']: float(v['discr']) for v in (ctx.F.adt('v1::Equality') or {}).get('variants', [])}
    probs = []; n = 0
    for typ in ('eq', 'le', 'ge', None):
        for empty in (False, True):
            flipped = 0; paths = 0; rebuilds = 0; pending = []
            for bval in (5.0, -2.5, 0.0):
                orc = SignCase(typ, bval, empty, roles)
                ps = sx_paths(ctx, R + '.sign/rows/table', 'T-BRANCHFX', ib, orc)
                if ps is None: return
                sx = Sx(ctx, ib, orc)
                rets = [p for p in ps if p.end == 'return' and p.value is not None]
                case = '%s row, b=%s, %s' % (typ or 'untyped', bval, 'no terms' if empty else 'with terms')
                if not rets: probs.append('%s: no result' % case)
                for p in rets:
                    n += 1; paths += 1
                    fn = _find_function(p.value)
                    if fn is None or fn[1] is None:
                        probs.append('%s: no function is returned' % case); continue
                    got = sx.conc(fn[1], p); want = bval if typ == 'ge' else -bval
                    if got is None or got != want: probs.append('%s: constant is %s (%s), expected %s' % (case, got, sx_str(fn[1], 3), want))
                    # the terms are the parameter itself (possibly changed in place), or a vector rebuilt from its items
                    direct = fn[0] == 'Linear' and fn[2] is not None and any(x == ('param', 1) for x in sx_walk(fn[2]))
                    rebuilt = fn[0] == 'Linear' and fn[2] is not None and sx_strip(fn[2])[0] == 'call'
                    if rebuilt and any(e[0] == 'call' and e[1] == 'push' and any(sx_mentions(p, a, ('param', 1)) for a in e[3][1:]) for e in p.events): rebuilds += 1
                    if not empty and not direct:
                        if rebuilt: pending.append(case)
                        else: probs.append('%s: the terms of the row are not carried' % case)
                    rv = sx_strip(p.value)                     # (function, equality as i32): the number is the schema's, however the cast is written
                    eqv = sx.conc(rv[3][1], p) if rv[0] == 'agg' and rv[1] == 'tuple' and len(rv[3]) == 2 else None
                    if typ and (eqv is None or eqv != eqno.get(next(iter(want_eq[typ])))): probs.append('%s: equality is %s' % (case, eqv))
                    if _negated_coefficients(sx, p): flipped += 1
            if pending and not rebuilds: probs.append('%s: the terms of the row are not carried' % pending[0])
            if not empty:
                if typ == 'ge' and not flipped: probs.append('ge row with terms: coefficients are not multiplied by -1')
                if typ != 'ge' and flipped: probs.append('%s row with terms: coefficients are multiplied by -1' % (typ or 'untyped'))
    ctx.check(n > 0 and not probs, R + '.sign/rows/table', 'T-BRANCHFX', ib.name, 'row normalisation (eq / le: terms kept, -b; ge: terms * -1, +b): %s' % '; '.join(sorted(set(probs))[:4]), ib.site(), table=str(sorted(set(probs))))


class ObjCase(SxOracle):
    """convert_objective: the RHS table has (or has not) an entry under the objective row name"""
    def __init__(self, bval, empty): self.bval = bval; self.empty = empty

    def _is(self, v):
        return (v[0] == 'call' and v[1] in ('get', 'get_key_value') and 'HashMap::<' in v[2] and len(v[3]) == 2 and sx_table_of(v[3][0]) == 'b'
                and any(f == 'objective_name' and a.endswith('parser::Mps') for a, f in sx_fields(v[3][1])))

    def variant(self, sx, v, st):
        if self._is(v): return 'Some' if self.bval is not None else 'None'
        return None

    def num(self, sx, v, st):
        if v[0] == 'field' and v[3] == 'payload' and self._is(v[1]): return self.bval
        return None

    def call(self, sx, node, st):
        if node[1] == 'is_empty' and 'Vec::<' in node[2]: return _cbool(self.empty)
        return None


def objective_rules(ctx, R, ob):
    gets = [c for c in ob.calls if c.item in ('get', 'get_key_value') and 'HashMap' in c.name and mps_table_of(ob, c.args[0]) == 'b']
    okk = len(gets) >= 1 and all(mps_table_of(ob, c.args[1]) == 'objective_name' for c in gets)
    ctx.check(okk, R + '.sign/objective/constant-of-objective-row', 'T-CARRY', ob.name, 'the objective constant is not looked up under the file\'s objective row name', ob.site())
    probs = []; terms_ok = True; n = 0
    for bval in (4.0, -1.5, 0.0, None):
        for empty in (False, True):
            orc = ObjCase(bval, empty)
            ps = sx_paths(ctx, R + '.sign/objective/negated', 'T-BRANCHFX', ob, orc)
            if ps is None: return
            sx = Sx(ctx, ob, orc)
            rets = [p for p in ps if p.end == 'return' and p.value is not None]
            case = 'RHS of the objective row %s, %s' % (bval, 'no terms' if empty else 'with terms')
            if not rets: probs.append('%s: no result' % case)
            for p in rets:
                n += 1
                fn = _find_function(p.value)
                if fn is None or fn[1] is None:
                    probs.append('%s: no function is returned' % case); continue
                got = sx.conc(fn[1], p); want = -(bval or 0.0)
                if got is None or got != want: probs.append('%s: constant is %s (%s), expected %s' % (case, got, sx_str(fn[1], 3), want))
                if not empty:
                    cs = [c for c in sx_calls(fn[2] if fn[2] is not None else ('undef', 0), 'convert_terms')]
                    if fn[0] != 'Linear' or not cs or not all(sx_table_of(c[3][0]) == 'c' for c in cs): terms_ok = False
    ctx.check(n > 0 and not probs, R + '.sign/objective/negated', 'T-BRANCHFX', ob.name, 'the objective constant is minus the RHS entry of the objective row: %s' % '; '.join(sorted(set(probs))[:3]), ob.site())
    ctx.check(n > 0 and terms_ok, R + '.sign/objective/terms-from-c', 'T-CARRY', ob.name, 'objective terms do not come from c', ob.site())


class BoundCase(SxOracle):
    """get_dvar_bound: the column has lower bound `l` / upper bound `u` in the parsed tables (None: no entry).
    Tables are parameters 2 (l) and 3 (u) (the call site is checked for this order) or the fields of Mps."""
    TABS = {('param', 2): 'l', ('param', 3): 'u', 'l': 'l', 'u': 'u'}

    def __init__(self, l, u): self.l = l; self.u = u

    def _tab(self, v):
        if v[0] == 'call' and v[1] in ('get', 'get_key_value') and 'HashMap::<' in v[2] and v[3]: return self.TABS.get(sx_table_of(v[3][0]))
        return None

    def variant(self, sx, v, st):
        t = self._tab(v)
        if t: return 'Some' if getattr(self, t) is not None else 'None'
        return None

    def call(self, sx, node, st):
        if node[1] == 'contains_key' and 'HashMap::<' in node[2] and node[3]:
            t = self.TABS.get(sx_table_of(node[3][0]))
            if t: return _cbool(getattr(self, t) is not None)
        return None

    def num(self, sx, v, st):
        if v[0] == 'field' and v[3] == 'payload':
            t = self._tab(v[1])
            if t: return getattr(self, t)
        return None


def bound_default_rules(ctx, rule, bb):
    """(None,None) => [0,+inf); (l,None) => [l,+inf); (None,u) => (-inf,u] if u <= 0 else [0,u]; (l,u) => [l,u]
    decided on the values of `lower` / `upper` of the returned Bound for every combination of table entries"""
    inf = float('inf')
    looked = set(); probs = []; neg = []; n = 0
    # (an explicit lower bound of 0 is sampled as well: "no LO record" is a fact about the table, not about the value -- seed C18-12)
    for l in (None, 2.5, -1.0, 0.0):
        for u in (None, -3.0, 0.5, 4.0) + ((0.0,) if l == 0.0 else ()):      # u == 0 without a lower bound is left open: the property speaks of a negative upper bound
            orc = BoundCase(l, u)
            ps = sx_paths(ctx, rule + '/table', 'T-BRANCHFX', bb, orc)
            if ps is None: return
            sx = Sx(ctx, bb, orc)
            want = (l if l is not None else (0.0 if (u is None or u > 0) else -inf), u if u is not None else inf)
            rets = [p for p in ps if p.end == 'return']
            case = '(l=%s, u=%s)' % (l, u)
            if not rets: probs.append('%s: no result' % case)
            for p in rets:
                n += 1
                for tab, item, args, res, bi in sx_table_calls(p): looked.add(BoundCase.TABS.get(tab))
                v = sx_as_agg(p.value, 'v1::Bound') or ('undef', 0)
                if v[0] == 'agg' and 'lower' in v[2] and 'upper' in v[2]:
                    got = (sx.conc(v[3][v[2].index('lower')], p), sx.conc(v[3][v[2].index('upper')], p))
                else: got = (None, None)
                if got != want:
                    probs.append('%s => %s, expected %s' % (case, got, want))
                    if l is None and u is not None and u <= 0: neg.append(case)
    ctx.check({'l', 'u'} <= looked, rule + '/lookups', 'T-CARRY', bb.name, 'the bound is not looked up in both l and u (found %s)' % sorted(x for x in looked if x), bb.site())
    ctx.check(n > 0 and not probs, rule + '/table', 'T-BRANCHFX', bb.name, 'bound defaults: %s' % '; '.join(probs[:4]), bb.site(), table=str(probs))
    ctx.check(n > 0 and not neg, rule + '/negative-upper-opens-lower', 'T-BRANCHFX', bb.name, 'a non-positive upper bound without lower bound does not open the lower bound %s' % neg[:2], bb.site())


class ParseCase(SxOracle):
    """every parse_id_tag(..) call gives Some (or None); with `only` (a set of blocks) just the calls made there"""
    def __init__(self, v, only=None): self.v = v; self.only = only

    def variant(self, sx, v, st):
        if self.v and v[0] == 'call' and v[1] == 'parse_id_tag' and (self.only is None or v[4] in self.only): return self.v
        if self.v and v[0] == 'call' and v[1] == 'map' and 'Option::<' in v[2] and v[3]: return sx.variant(v[3][0], st)    # Some stays Some under map
        return None


def recovery_rules(ctx, rule, names_rule, b, prefix_const, table, elem_adt, name_adt, what):
    """ids are recovered from the generated names only when EVERY name parses as <prefix><number>; otherwise ids go by
    order and the file's names are carried; every row / column yields an element either way.
    The shape of the code is free: two loops under an `if any(..)`, one loop with a flag, `!any(is_none)`, `all(is_some)` or
    `collect::<Option<Vec<_>>>()` for the scan; loops with push, or iterator pipelines (map .. collect / unzip) for the elements."""
    def elem_push(c):
        if c.item not in ('push', 'insert', 'push_back'): return False
        for a in c.args[1:]:
            if a['k'] in ('copy', 'move') and not a['pl']['p'] and b.locals[a['pl']['l']].strip().endswith(elem_adt): return True
            ex = T.strip_wrappers(T.expr(b, a, depth=4))
            if ex[0] == 'agg' and ex[1].endswith(elem_adt): return True
        return False
    def elems_in(v):
        v = sx_strip(v) if v is not None else ('undef', 0)
        a = sx_as_agg(v, elem_adt)
        if a is not None: return [a]
        if v[0] == 'agg' and v[1] == 'tuple': return [x for m in v[3] for x in elems_in(m)]
        return []
    def is_elem_yield(e): return e[0] == 'yield' and (elem_adt in e[4] or bool(elems_in(e[1])))
    def sx_elems(p):
        out = []
        for e in p.events:
            if e[0] == 'call' and e[1] in ('push', 'insert', 'push_back'):
                for a in e[3][1:]: out += elems_in(a)
            elif is_elem_yield(e): out += elems_in(e[1])
        return out
    def fld(a, f): return a[3][a[2].index(f)] if f in a[2] else ('undef', 0)
    def is_parse(x): return x[0] == 'call' and x[1] == 'parse_id_tag'
    loops = T.for_loops(b)
    push_loops = [lo for lo in loops if any(c.bb in lo[4] and elem_push(c) for c in b.calls)]
    push_loops = [lo for lo in push_loops if not any(set(o[4]) < set(lo[4]) and o in push_loops for o in push_loops)] or push_loops
    # ---- the guard: a scan over all names that is left early exactly when a name does not parse
    guards = []
    for lo in loops:
        nextc, header, some_bb, none_bb, blocks = lo
        pcs = [c for c in b.calls if c.bb in blocks and c.item == 'parse_id_tag']
        if not pcs or lo in push_loops: continue
        if not all(prefix_const in T.expr_str(T.expr(b, c.args[0]), 4) for c in pcs): continue
        si = ctx.S.slice_operand(b, nextc.args[0])
        if not si.has_field(MPS, table) or any(x.item in RESTRICTING and 'Iterator' in (x.trait or '') for x in si.call_objs): continue
        outside = {s for bi in blocks for s in b.succ(bi) if s not in blocks and not b.blocks[s]['cleanup']}
        ends = {}
        for var in ('None', 'Some'):
            try: ps = Sx(ctx, b, ParseCase(var)).run(some_bb, None, {header} | outside)
            except SxLimit: ps = []
            ends[var] = {p.bb for p in ps if p.end == 'stop'}
        if ends['None'] and ends['None'] <= outside and ends['Some'] == {header}:
            guards.append((lo, ends['None']))
    ctx.check(len(guards) >= 1, rule + '/recovery-guard', 'T-GUARD', b.name, 'id recovery is not guarded by `every name parses as <prefix><number>` (a scan of all %s that stops at the first name that does not parse)' % what, b.site())
    if not guards: return
    glo, hits = guards[0]; gheader = glo[1]
    # ---- the two sides, as paths from the entry: the scan meets a name that does not parse / every name parses
    gen_ps = sx_paths(ctx, rule + '/ids-by-order', 'T-CARRY', b, ParseCase('None', set(glo[4])))
    rec_ps = sx_paths(ctx, rule + '/ids-recovered', 'T-CARRY', b, ParseCase('Some'))
    if gen_ps is None or rec_ps is None: return
    gen_ps = [p for p in gen_ps if p.end in ('return', 'cut', 'stop') and any(h in p.visits for h in hits)]
    rec_ps = [p for p in rec_ps if p.end in ('return', 'cut', 'stop') and glo[3] in p.visits and glo[2] in p.visits]      # the scan saw at least one name and ran to its end
    yields = [e for p in gen_ps + rec_ps for e in p.events if is_elem_yield(e)]
    if not push_loops and not yields: ctx.bad(rule + '/every-element', 'T-LOOPMUST', b.name, 'no loop / iterator pipeline builds the %ss' % what, b.site())
    if not push_loops and not yields: return
    # ---- every element is built: loops (one iteration, every path) and pipelines (no adaptor drops an item)
    skipped = []; restricted = []; undominated = []
    for lo in push_loops:
        nextc, header, some_bb, none_bb, blocks = lo
        # a loop no path reaches after the scan met a name that does not parse (whatever carries that fact: a branch, a flag, an
        # Option) may rely on every name parsing
        only_recovery = b.dominates(gheader, header) and not any(header in p.visits for p in gen_ps)
        if not b.dominates(gheader, header): undominated.append(nextc.bb)
        ps = sx_loop_paths(ctx, rule + '/every-element', 'T-LOOPMUST', b, ParseCase('Some') if only_recovery else SxOracle(), lo)
        if ps is None: return
        done = [p for p in ps if p.end == 'stop']
        if not done or any(not sx_elems(p) for p in done): skipped.append(nextc.bb)
        si = ctx.S.slice_operand(b, nextc.args[0])
        def keeps_all(x):
            # `filter(f)` / `filter_map(f)` with a function passed by name (a closure is part of the loop in the normal form) that lets
            # every item through when every name parses -- on the side that is only reached in that case
            if not only_recovery or x.item not in ('filter', 'filter_map') or len(x.args) < 2 or x.args[1]['k'] != 'const': return False
            sx = Sx(ctx, b, ParseCase('Some')); st0 = SxState(0, {}, [], {}, {}); it = ('undef', -7)
            r = sx.apply(('const', x.args[1]['v']), [it] if x.item == 'filter_map' else [('ref', it)], st0)
            if r is None: return False
            return (sx.good(r, st0) is True) if x.item == 'filter_map' else (sx.conc(r, st0) is True)
        if not si.has_field(MPS, table) or any(x.item in RESTRICTING and 'Iterator' in (x.trait or '') and not keeps_all(x) for x in si.call_objs): restricted.append(nextc.bb)
    for e in yields:
        if e[1] is None or not elems_in(e[1]) or any(f in ('skipped', 'maybe-skipped') for f in e[3]): skipped.append(e[2])
        if any(f.startswith('restricted') for f in e[3]) or not any(f == table and o.endswith('parser::Mps') for o, f in sx_fields(e[5])) or any(c[1] in RESTRICTING for c in sx_calls(e[5])): restricted.append(e[2])
        if not b.dominates(gheader, e[2]): undominated.append(e[2])
    for side, ps in (('when some name does not parse', gen_ps), ('when all names parse', rec_ps)):
        if not any(sx_elems(p) for p in ps): skipped.append(glo[0].bb)
    ctx.check(not skipped and not undominated, rule + '/every-element', 'T-LOOPMUST', b.name,
              'an element can be skipped without being built (other than a name that does not parse on the path where all names parse)' if skipped else 'the code building the elements is not preceded by the `all names parse` scan',
              b.site((skipped or undominated or [glo[0].bb])[0]))
    ctx.check(not restricted, rule + '/all-elements', 'T-LOOPMUST', b.name, 'the elements are not built from all of Mps.%s' % table, b.site((restricted or [glo[0].bb])[0]))
    # ---- general side
    gen = [(p, a) for p in gen_ps for a in sx_elems(p)]
    bad_ids = [a for p, a in gen if sx_derives(p, fld(a, 'id'), is_parse)]
    def named(a):
        nm = sx_strip(fld(a, 'name'))
        return nm[0] == 'agg' and nm[1].endswith('Option::Some') and any(o.endswith(name_adt) and f == '0' for o, f in sx_fields(nm))
    unnamed = [a for p, a in gen if not named(a)]
    ctx.check(bool(gen) and not bad_ids, rule + '/ids-by-order', 'T-CARRY', b.name, 'when some name does not parse an id is still taken from a parsed name' if gen else 'no element is built when some name does not parse', b.site())
    ctx.check(bool(gen) and not unnamed, names_rule, 'T-CARRY', b.name, '%s names of the file are not carried (general branch)' % what, b.site())
    # ---- recovery side
    rec = [(p, a) for p in rec_ps for a in sx_elems(p)]
    def recovered(p, a):
        return sx_derives(p, fld(a, 'id'), lambda x: is_parse(x) and prefix_const in sx_str(x[3][0], 4)) and not sx_derives(p, fld(a, 'id'), lambda x: is_parse(x) and prefix_const not in sx_str(x[3][0], 4))
    ctx.check(bool(rec) and all(recovered(p, a) for p, a in rec), rule + '/ids-recovered', 'T-CARRY', b.name, 'when all names parse the id is not the number parsed after %s' % prefix_const, b.site())
    return gen + rec


def _captured(bodies, bd, k):
    """(body, operand) that closure `bd` captures as its k-th variable, looked up in the bodies that may create it"""
    for pb in bodies:
        for bi, st in pb.stmts():
            if st['rv']['k'] == 'agg' and st['rv']['adt'] == 'closure:' + bd.name and k < len(st['rv']['ops']): return pb, st['rv']['ops'][k]
    return None


def site_table(ctx, bodies, bd, a, depth=3):
    """the Mps table an argument at a call site denotes; a variable captured by a closure is followed to where the closure is made"""
    t = mps_table_of(bd, a)
    if t: return t
    if bd.kind == 'closure' and depth > 0:
        fs, root, calls = T.access_path(bd, a)
        if root == 1 and fs and fs[0][1].isdigit():
            cap = _captured(bodies, bd, int(fs[0][1]))
            if cap: return site_table(ctx, bodies, cap[0], cap[1], depth - 1)
    x = [f for a_, f in ctx.S.slice_operand(bd, a).fields if a_.endswith('parser::Mps')][:1]
    return x[0] if x else None


def site_depends_on(ctx, bodies, bd, a, adt, field, depth=3):
    s = ctx.S.slice_operand(bd, a)
    if s.has_field(adt, field): return True
    if bd.kind == 'closure' and depth > 0:
        for par, a_, f in s.root_fields:
            if par == 1 and f.isdigit():
                cap = _captured(bodies, bd, int(f))
                if cap and site_depends_on(ctx, bodies, cap[0], cap[1], adt, field, depth - 1): return True
    return False


class MemberCase(SxOracle):
    """the name is a member of the set passed as parameter `par` and of no other set"""
    def __init__(self, par): self.par = par

    def call(self, sx, node, st):
        _, item, name, args, bi, occ = node
        if item == 'contains' and 'HashSet' in name and args:
            t = sx_table_of(args[0])
            if isinstance(t, tuple) and t[0] == 'param': return ('const', 'true' if t[1] == self.par else 'false')
        return None


class NamedCase(SxOracle):
    """the file has a non-empty NAME (`name.is_empty()` is false, `name == ""` is false, its length is positive) and, if given, the
    objective sense with discriminant `sense`"""
    def __init__(self, sense=None): self.sense = sense

    @staticmethod
    def _is_name(v): return any(f == 'name' and of.endswith('parser::Mps') for of, f in sx_fields(v))

    def call(self, sx, node, st):
        _, item, name, args, bi, occ = node
        if item == 'is_empty' and args and self._is_name(args[0]): return ('const', 'false')
        if item in ('eq', 'ne') and len(args) == 2:
            for x, y in ((args[0], args[1]), (args[1], args[0])):
                lit = [c for c in sx_walk(y) if c[0] == 'const']
                if self._is_name(x) and lit and all(re.search(r'^(const )?""$', c[1].strip()) for c in lit): return ('const', 'false' if item == 'eq' else 'true')
        return None

    def num(self, sx, v, st):
        if v[0] == 'call' and v[1] in ('len', 'count') and v[3] and self._is_name(v[3][0]): return 4.0
        return None

    def discr(self, sx, v, st):
        if self.sense is not None and v[0] == 'field' and v[2] == 'obj_sense' and v[3].endswith('parser::Mps'): return self.sense
        return None


def convert_rules(ctx):
    R = 'C17.convert'
    b = ctx.free_fn(R + '/anchor', 'mps::convert::convert')
    if b is None: return
    cover(ctx, R + '.cover', b, MPS)
    # the returned instance, read off the VALUE of its fields: a struct expression or default() + field assignments, the small
    # helpers (convert_description, convert_sense) called or written out in place.  Helpers with a rule family of their own stay
    # opaque calls; every other crate function called from here is looked through.
    builders = {'decision_variables': 'convert_dvars', 'objective': 'convert_objective', 'constraints': 'convert_constraints'}
    def look_through(cb): return cb.hdr.get('item') not in builders.values()
    def instances(orc):
        ps = sx_paths(ctx, R + '/instance', 'T-CARRY', b, orc, enter=look_through)
        if ps is None: return None
        out = []
        for p in ps:
            if p.end == 'return' and p.value is not None:
                out += [(p, a) for a in (sx_as_agg(x, 'v1::Instance') for x in sx_walk(p.value) if x[0] in ('agg', 'upd')) if a is not None][:1]
        return out
    def fld(a, f): return a[3][a[2].index(f)] if f in a[2] else None
    named = instances(NamedCase())
    if named is not None:
        ctx.check(len(named) >= 1, R + '/instance', 'T-CARRY', b.name, 'no v1::Instance is returned', b.site())
        for f, fn in builders.items():
            ok = bool(named) and all(fld(a, f) is not None and bool(sx_calls(fld(a, f), fn)) for p, a in named)
            ctx.check(ok, R + '/instance/' + f, 'T-CARRY', b.name, 'Instance.%s does not come from %s' % (f, fn), b.site())
        # description: for a file with a (non-empty) NAME the instance has a description whose name is that name
        def described(p, a):
            d = sx_strip(fld(a, 'description') or ('undef', 0))
            if not (d[0] == 'agg' and d[1].endswith('Option::Some') and d[3]): return False
            dd = sx_as_agg(d[3][0], 'instance::Description')
            n = sx_strip(fld(dd, 'name') or ('undef', 0)) if dd is not None else ('undef', 0)
            return n[0] == 'agg' and n[1].endswith('Option::Some') and any(x == (MPS, 'name') or (x[1] == 'name' and x[0].endswith('parser::Mps')) for x in sx_fields(n))
        ctx.check(bool(named) and all(described(p, a) for p, a in named), R + '/instance/description', 'T-CARRY', b.name, 'for a file with a NAME, Instance.description is not Some(Description { name: Some(that name), .. })', b.site())
    # sense: Min / Max => the schema numbers of Minimize / Maximize, whichever function holds the mapping
    adt = ctx.F.adt('mps::parser::ObjSense'); sadt = ctx.F.adt('v1::instance::Sense')
    want = {'Min': 'Minimize', 'Max': 'Maximize'}; rows = {}; set_ = True
    if adt and sadt and named is not None:
        num = {v['name']: float(v['discr']) for v in sadt['variants']}; back = {v: k for k, v in num.items()}
        for v in adt['variants']:
            orc = NamedCase(v['discr']); insts = instances(orc)
            if insts is None: rows = None; break
            sx = Sx(ctx, b, orc); got = set()
            for p, a in insts:
                sv = fld(a, 'sense')
                if sv is None: set_ = False; continue
                st = SxState(0, p.env, p.events, p.assume, {})
                c = sx.conc(sv, st)
                got.add(back.get(c, sx_str(sv)) if c is not None and not isinstance(c, bool) else sx_str(sv))
            rows[v['name']] = sorted(got)
        if rows is not None:
            ctx.check(set_ and bool(rows), R + '/instance/sense', 'T-CARRY', b.name, 'Instance.sense is not set on every path', b.site())
            ctx.check(rows == {k: [w] for k, w in want.items()}, R + '.sense/mapping', 'T-BRANCHFX', b.name, 'Instance.sense per ObjSense is %s, expected %s' % (rows, want), b.site())
    else:
        ctx.bad(R + '.sense/mapping', 'T-BRANCHFX', b.name, 'ObjSense / v1::instance::Sense not found; the sense mapping cannot be located', b.site())
    # kinds
    kb = ctx.free_fn(R + '.kind/anchor', 'mps::convert::get_dvar_kind')
    kadt = ctx.F.adt('v1::decision_variable::Kind')
    if kb is not None:
        # decided on the returned NUMBER for a name that is in exactly one of the sets (parameters: 1 name, 2 integer, 3 binary,
        # 4 real): an if-chain, early returns, a match on the tuple of tests, `Kind::X as i32` per arm or one cast at the end alike
        num = {float(v['discr']): v['name'] for v in (kadt or {}).get('variants', [])}
        rows = {}
        for par in (2, 3, 4):
            orc = MemberCase(par); ps = sx_paths(ctx, R + '.kind/mapping', 'T-BRANCHFX', kb, orc)
            if ps is None: rows = None; break
            sx = Sx(ctx, kb, orc); got = set()
            for p_ in ps:
                if p_.end != 'return': continue
                c = sx.conc(p_.value, p_) if p_.value is not None else None
                got.add(num.get(c, sx_str(p_.value)) if c is not None and not isinstance(c, bool) else sx_str(p_.value))
            rows[par] = sorted(got)
        if rows is not None:
            ctx.check(rows == {2: ['Integer'], 3: ['Binary'], 4: ['Continuous']}, R + '.kind/mapping', 'T-BRANCHFX', kb.name, 'membership in (integer, binary, real) maps to %s' % rows, kb.site())
    dv = ctx.free_fn(R + '.kind/dvars/anchor', 'mps::convert::convert_dvars')
    if dv is not None:
        # the call sites may sit in the function or in a closure of an iterator pipeline that is not a loop in the normal form
        bodies = [dv] + list(ctx.F.closures_of(dv))
        def tables_of(bd, c, start): return [site_table(ctx, bodies, bd, a) for a in c.args[start:]]
        ks = [tables_of(bd, c, 1) for bd in bodies for c in bd.calls if c.item == 'get_dvar_kind']
        ctx.check(bool(ks) and all(k == ['integer', 'binary', 'real'] for k in ks), R + '.kind/dvars/argument-order', 'T-CARRY', dv.name, 'get_dvar_kind receives tables %s, expected (integer, binary, real)' % ks, dv.site())
        bs = [tables_of(bd, c, 1) for bd in bodies for c in bd.calls if c.item == 'get_dvar_bound']
        ctx.check(bool(bs) and all(k == ['l', 'u'] for k in bs), R + '.defaults/dvars/argument-order', 'T-CARRY', dv.name, 'get_dvar_bound receives tables %s, expected (l, u)' % bs, dv.site())
        elems = recovery_rules(ctx, R + '.vars', 'C17.names/variables', dv, 'VAR_PREFIX', 'vars', 'v1::DecisionVariable', 'parser::ColumnName', 'variable')
        # every variable built (on either side) has bound = Some(get_dvar_bound(..)): read off the elements themselves
        def bound_set(a):
            bv = sx_strip(a[3][a[2].index('bound')]) if 'bound' in a[2] else ('undef', 0)
            return bv[0] == 'agg' and bv[1].endswith('Option::Some') and bool(sx_calls(bv, 'get_dvar_bound'))
        if elems is not None:
            ctx.check(bool(elems) and all(bound_set(a) for p, a in elems), R + '.defaults/dvars/bound-set', 'T-CARRY', dv.name, 'variable bound is not Some(get_dvar_bound(..))', dv.site())
    # bound defaults
    bb = ctx.free_fn(R + '.defaults/anchor', 'mps::convert::get_dvar_bound')
    if bb is not None:
        bound_default_rules(ctx, R + '.defaults', bb)
    # objective
    ob = ctx.free_fn(R + '.sign/objective/anchor', 'mps::convert::convert_objective')
    if ob is not None: objective_rules(ctx, R, ob)
    tb = ctx.free_fn(R + '.terms/anchor', 'mps::convert::convert_terms')
    if tb is not None:
        okk = False
        for cb in [tb] + list(ctx.F.closures_of(tb)):
            for bi, st in find_aggregates(cb, 'v1::linear::Term'):
                cx = T.expr(cb, agg_field_operand(st, 'coefficient'))
                okk = not any(x[0] in ('un', 'bin') for x in T.expr_walk(cx)) and T.expr_has_call(T.expr(cb, agg_field_operand(st, 'id')), 'index')
        ctx.check(okk, R + '.terms/unchanged', 'T-CARRY', tb.name, 'terms are not (id of the column, coefficient unchanged)', tb.site())
    # constraint normalisation
    ib = ctx.free_fn(R + '.sign/rows/anchor', 'mps::convert::convert_inequality')
    cb_ = ctx.free_fn(R + '.rows/anchor', 'mps::convert::convert_constraints')
    roles = None
    if cb_ is not None:
        bodies = [cb_] + list(ctx.F.closures_of(cb_))
        cis = [(bd, c) for bd in bodies for c in bd.calls if c.item == 'convert_inequality']
        if ib is not None:
            # which table each row-set parameter of convert_inequality stands for is read off the call sites (the same at every call, each
            # one of eq / ge / le, no table twice); the sign table below is then decided for THESE bindings, so passing the sets in another
            # order, or handing over the whole Mps and taking eq / ge / le apart inside the callee, is the same -- and swapped sets show
            # as a wrong sign table
            def binding(bd, c): return {k: site_table(ctx, bodies, bd, a) for k, a in enumerate(c.args, start=1) if k < len(ib.locals) and 'HashSet<' in ib.locals[k]}
            bs = [binding(bd, c) for bd, c in cis]
            ok = bool(bs) and all(b_ == bs[0] for b_ in bs) and all(t in ('eq', 'ge', 'le') for t in bs[0].values()) and len(set(bs[0].values())) == len(bs[0])
            ctx.check(ok, R + '.sign/rows/argument-order', 'T-CARRY', cb_.name, 'the row-kind sets passed to convert_inequality are %s; every set parameter must be one of eq / ge / le, each once, the same at every call' % bs, cb_.site())
            if ok: roles = {('param', k): t for k, t in bs[0].items()}
    if ib is not None: sign_rules(ctx, R, ib, roles)
    if cb_ is not None:
        ctx.check(bool(cis) and all(site_depends_on(ctx, bodies, bd, c.args[1], MPS, 'b') for bd, c in cis), R + '.sign/rows/rhs-from-b', 'T-CARRY', cb_.name, 'right-hand side does not come from b', cb_.site())
        recovery_rules(ctx, R + '.rows', 'C17.names/constraints', cb_, 'CONSTR_PREFIX', 'a', 'v1::Constraint', 'parser::RowName', 'constraint')


def check(ctx):
    _FACTS[0] = ctx.F
    parser_rules(ctx); convert_rules(ctx)
    # decided instances per family on the unchanged tree (instances are per clause, not per loop / call site, so that the
    # count does not depend on how the code is laid out)
    for fam, n in {'C17.bounds': 19, 'C17.columns': 3, 'C17.convert': 6, 'C17.convert.cover': 15, 'C17.convert.defaults': 5, 'C17.convert.kind': 2,
                   'C17.convert.rows': 5, 'C17.convert.sense': 1, 'C17.convert.sign': 6, 'C17.convert.terms': 1, 'C17.convert.vars': 5, 'C17.defaults': 1, 'C17.entry': 2,
                   'C17.keywords': 39, 'C17.lines': 3, 'C17.names': 2, 'C17.ranges': 9, 'C17.rhs': 4, 'C17.rows': 4}.items():
        ctx.floor(fam, n)
