//! Positive controls for the rule templates: each `bad_*` item violates a template, its `good_*`
//! twin satisfies it. The checker asserts on every run that the bad twin fires and the good twin passes.
#![allow(dead_code, unused)]
use std::collections::{BTreeSet, HashMap};

pub struct Msg {
    pub a: Vec<u64>,
    pub b: Vec<u64>,
    pub c: Option<f64>,
    pub d: u64,
}
pub struct Out {
    pub a: Vec<u64>,
    pub b: Vec<u64>,
    pub c: f64,
}
pub struct Store {
    pub items: Vec<u64>,
    pub removed: Vec<u64>,
    pub other: u64,
}

// ---- T-COVER
pub fn cover_bad(m: &Msg) -> u64 {
    m.a.len() as u64 + m.d + m.c.map_or(0, |x| x as u64)
}
pub fn cover_good(m: &Msg) -> u64 {
    m.a.len() as u64 + m.b.len() as u64 + m.d + m.c.map_or(0, |x| x as u64)
}

// ---- T-CARRY
pub fn carry_bad(m: Msg) -> Out {
    Out { a: m.a, b: Vec::new(), c: m.c.unwrap_or(0.0) }
}
pub fn carry_good(m: Msg) -> Out {
    Out { a: m.a, b: m.b, c: m.c.unwrap_or(0.0) }
}

// ---- T-GUARD: Ok only when `a` is empty
pub fn guard_bad(m: &Msg) -> Result<u64, String> {
    if m.a.is_empty() {
        return Err("unexpected".to_string());
    }
    Ok(m.d)
}
pub fn guard_good(m: &Msg) -> Result<u64, String> {
    if !m.a.is_empty() {
        return Err("not empty".to_string());
    }
    Ok(m.d)
}
// short-circuit conjunction: both conjuncts must guard
pub fn guard_and_bad(m: &Msg) -> Result<u64, String> {
    if !(m.a.is_empty() || m.b.is_empty()) {
        return Err("not empty".to_string());
    }
    Ok(m.d)
}
pub fn guard_and_good(m: &Msg) -> Result<u64, String> {
    if !(m.a.is_empty() && m.b.is_empty()) {
        return Err("not empty".to_string());
    }
    Ok(m.d)
}

// ---- T-MUSTCALL
fn validate(m: &Msg) -> Result<(), String> {
    if m.d == 0 { Err("zero".to_string()) } else { Ok(()) }
}
pub fn mustcall_bad(m: &Msg) -> Result<u64, String> {
    if m.c.is_some() {
        validate(m)?;
    }
    Ok(m.d)
}
pub fn mustcall_good(m: &Msg) -> Result<u64, String> {
    validate(m)?;
    Ok(m.d)
}

// ---- T-ERRFLOW
pub fn errflow_bad(t: &HashMap<u64, f64>, k: u64) -> Result<f64, String> {
    let v = t.get(&k).copied().unwrap_or(0.0);
    Ok(v)
}
pub fn errflow_good(t: &HashMap<u64, f64>, k: u64) -> Result<f64, String> {
    let v = t.get(&k).ok_or_else(|| "missing".to_string())?;
    Ok(*v)
}
pub fn errflow_match_bad(t: &HashMap<u64, f64>, k: u64) -> Result<f64, String> {
    match t.get(&k) {
        Some(v) => Ok(*v),
        None => Ok(0.0),
    }
}
pub fn errflow_match_good(t: &HashMap<u64, f64>, k: u64) -> Result<f64, String> {
    match t.get(&k) {
        Some(v) => Ok(*v),
        None => Err("missing".to_string()),
    }
}

// ---- T-LOOPMUST
pub fn loopmust_bad(m: &Msg) -> Vec<u64> {
    let mut out = Vec::new();
    for x in &m.a {
        if *x == 7 {
            continue;
        }
        out.push(*x);
    }
    out
}
pub fn loopmust_good(m: &Msg) -> Vec<u64> {
    let mut out = Vec::new();
    for x in &m.a {
        out.push(*x);
    }
    out
}
pub fn loopmust_restricted_bad(m: &Msg) -> Vec<u64> {
    let mut out = Vec::new();
    for x in m.a.iter().skip(1) {
        out.push(*x);
    }
    out
}

// ---- T-ATOMIC
impl Store {
    pub fn atomic_bad(&mut self, id: u64) -> Result<(), String> {
        self.items.push(id);
        let pos = self.removed.iter().position(|x| *x == id).ok_or_else(|| "missing".to_string())?;
        self.removed.remove(pos);
        Ok(())
    }
    pub fn atomic_good(&mut self, id: u64) -> Result<(), String> {
        let pos = self.removed.iter().position(|x| *x == id).ok_or_else(|| "missing".to_string())?;
        self.removed.remove(pos);
        self.items.push(id);
        Ok(())
    }
    pub fn only_bad(&mut self, id: u64) {
        self.items.push(id);
        self.other = 0;
    }
    pub fn only_good(&mut self, id: u64) {
        self.items.push(id);
    }
}

// ---- T-TABLE / T-BRANCHFX
pub fn table_bad(s: &str) -> Result<u8, String> {
    match s {
        "LO" => Ok(1),
        "UP" => Ok(2),
        _ => Ok(0),
    }
}
pub fn table_good(s: &str) -> Result<u8, String> {
    match s {
        "LO" => Ok(1),
        "UP" => Ok(2),
        "FX" => Ok(3),
        _ => Err(format!("unknown {s}")),
    }
}

// ---- T-CONST / feasibility rule shape
pub fn feas_bad(v: f64, eq: bool) -> bool {
    if eq { v.abs() <= 1e-6 } else { v < 1e-5 }
}
pub fn feas_good(v: f64, eq: bool) -> bool {
    if eq { v.abs() < 1e-6 } else { v < 1e-6 }
}

// ---- accumulator shape
pub fn acc_bad(cs: &[f64], xs: &[f64]) -> f64 {
    let mut sum = 0.0;
    for i in 0..cs.len() {
        sum -= cs[i] * xs[i];
    }
    sum
}
pub fn acc_good(cs: &[f64], xs: &[f64]) -> f64 {
    let mut sum = 0.0;
    for i in 0..cs.len() {
        sum += cs[i] * xs[i];
    }
    sum
}

// ---- T-DELEG
#[derive(Clone)]
pub struct Lin(pub f64);
impl std::ops::Add for Lin { type Output = Lin; fn add(self, r: Lin) -> Lin { Lin(self.0 + r.0) } }
impl std::ops::Neg for Lin { type Output = Lin; fn neg(self) -> Lin { Lin(-self.0) } }
pub struct SubBad(pub Lin);
pub struct SubGood(pub Lin);
impl std::ops::Sub<Lin> for SubBad { type Output = Lin; fn sub(self, r: Lin) -> Lin { self.0 + r } }
impl std::ops::Sub<Lin> for SubGood { type Output = Lin; fn sub(self, r: Lin) -> Lin { self.0 + (-r) } }

// ---- normal form (sa.normalize): the same templates must give the same verdicts when the loop is an
// ---- iterator chain with closures, and when the code sits in a helper unknown to the rules
pub fn norm_loop_bad(m: &Msg) -> Vec<u64> {
    m.a.iter().filter(|x| **x != 7).map(|x| *x).collect()
}
pub fn norm_loop_good(m: &Msg) -> Vec<u64> {
    m.a.iter().map(|x| *x).collect()
}
pub fn norm_acc_bad(cs: &[f64], xs: &[f64]) -> f64 {
    cs.iter().zip(xs).fold(0.0, |s, (c, x)| s - c * x)
}
pub fn norm_acc_good(cs: &[f64], xs: &[f64]) -> f64 {
    cs.iter().zip(xs).map(|(c, x)| c * x).sum::<f64>()
}
pub fn norm_tryfold_bad(t: &HashMap<u64, f64>, ks: &[u64]) -> Result<f64, String> {
    ks.iter().try_fold(0.0, |acc, k| Ok(acc + t.get(k).copied().unwrap_or(0.0)))
}
pub fn norm_tryfold_good(t: &HashMap<u64, f64>, ks: &[u64]) -> Result<f64, String> {
    ks.iter().try_fold(0.0, |acc, k| Ok(acc + *t.get(k).ok_or_else(|| "missing".to_string())?))
}
fn xhelper_lookup_bad(t: &HashMap<u64, f64>, k: u64) -> Result<f64, String> {
    Ok(t.get(&k).copied().unwrap_or(0.0))
}
fn xhelper_lookup_good(t: &HashMap<u64, f64>, k: u64) -> Result<f64, String> {
    t.get(&k).copied().ok_or_else(|| "missing".to_string())
}
pub fn norm_helper_bad(t: &HashMap<u64, f64>, k: u64) -> Result<f64, String> {
    let v = xhelper_lookup_bad(t, k)?;
    Ok(v + 1.0)
}
pub fn norm_helper_good(t: &HashMap<u64, f64>, k: u64) -> Result<f64, String> {
    let v = xhelper_lookup_good(t, k)?;
    Ok(v + 1.0)
}
pub fn norm_collect_bad(t: &HashMap<u64, f64>, ks: &[u64]) -> Result<Vec<f64>, String> {
    ks.iter().map(|k| Ok(t.get(k).copied().unwrap_or(0.0))).collect()
}
pub fn norm_collect_good(t: &HashMap<u64, f64>, ks: &[u64]) -> Result<Vec<f64>, String> {
    ks.iter().map(|k| t.get(k).copied().ok_or_else(|| "missing".to_string())).collect()
}
