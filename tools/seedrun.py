#!/usr/bin/env python3
"""tools/seedrun.py [Cxx-n ...]  — regression over the kept sub-agent changes (seeded/<id>/patch.diff).

For each: apply to /repo (must be clean), run the property's own quick check, undo; require exit 1
and at least one VIOLATION line.  Updates meta.json["checks"][<prop>] and prints a table.  Nothing is
left applied; evidence/replay files go to a scratch directory."""
import sys, os, subprocess, json, re, glob, tempfile, shutil

V = os.path.dirname(os.path.dirname(os.path.abspath(__file__)))


def sh(cmd, cwd=None, env=None):
    e = dict(os.environ); e['CARGO_NET_OFFLINE'] = 'true'
    if env: e.update(env)
    r = subprocess.run(cmd, shell=True, cwd=cwd, env=e, stdout=subprocess.PIPE, stderr=subprocess.STDOUT, text=True)
    return r.returncode, r.stdout


def main():
    want = sys.argv[1:]
    dirs = sorted(d for d in glob.glob(V + '/seeded/C*-*') if os.path.isdir(d))
    if want: dirs = [d for d in dirs if os.path.basename(d) in want]
    if sh('git -C /repo status --porcelain')[1].strip():
        print('/repo is not clean, refusing'); sys.exit(2)
    scratch = tempfile.mkdtemp(prefix='seedrun-')
    missed = []
    try:
        for d in dirs:
            sid = os.path.basename(d); prop = sid.split('-')[0]
            mp = d + '/meta.json'; meta = json.load(open(mp))
            try:
                c, o = sh('git -C /repo apply %s/patch.diff' % d)
                if c != 0:
                    print('%s: patch does not apply: %s' % (sid, o.strip()[:200])); missed.append(sid); continue
                c, o = sh('./run check %s --tier quick' % prop, cwd=V,
                          env={'VERIF_EVIDENCE_DIR': scratch + '/ev', 'VERIF_OUT_DIR': scratch + '/out'})
            finally:
                sh('git -C /repo checkout -- .')
            rules = re.findall(r'^\s+rule=(\S+) fn=(.*?) site=(\S*) :: (.*)$', o, re.M)
            ids = sorted({r[0] for r in rules})
            if 'first_run' not in meta and prop in meta.get('checks', {}):
                meta['first_run'] = dict(exit=meta['checks'][prop].get('exit'), rules=meta['checks'][prop].get('rules', []))   # verdict when the seed arrived
            meta.setdefault('checks', {})[prop] = dict(exit=c, rules=ids, first=(rules[0][3][:200] if rules else ''))
            meta['detected_by_own_check'] = (c == 1 and bool(ids))
            json.dump(meta, open(mp, 'w'), indent=1)
            print('%-7s exit=%d %s' % (sid, c, ', '.join(ids[:4]) + (' …' if len(ids) > 4 else '')))
            if not (c == 1 and ids): missed.append(sid)
    finally:
        shutil.rmtree(scratch, ignore_errors=True)
    print('missed by own check:', missed or 'none')
    sys.exit(1 if missed else 0)


if __name__ == '__main__':
    main()
