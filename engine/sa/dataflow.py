"""Flow-insensitive backward slices over the mini-MIR (see DESIGN.md §2.2).

The slice over-approximates dependence: it follows every operand, ties `&mut` borrows to their
base, lets every argument of a call flow into `&mut`-like arguments and closures, treats a closure
value as depending on its whole body, and adds the return/out-parameter summary of local callees.
"""
import collections, re
from .facts import fields_of_place

MUTLIKE_RE = re.compile(r"&mut |\*mut |Mut<|Entry<|Drain<|\{closure@|closure#")


def mutlike(ty):
    return bool(MUTLIKE_RE.search(ty))


def node_of(pl):
    """slice node of a place: (local, first field) or the bare local"""
    for p in pl['p']:
        if isinstance(p, dict) and 'f' in p: return (pl['l'], p['f'])
    return pl['l']


class Graph:
    """Def-use graph, field-sensitive at the first field of every local.
    Nodes: int local (whole value) or (local, first_field).
    edges[dst_node] = list of edges; an edge is a tuple
         ('L', src_node, fields(list of (adt,field)), label)
         ('C', const_text, fnpath_or_None, label)
         ('F', callee_name, Call, label)       # value produced by / mutated by a call
         ('K', closure_path, None, label)      # closure value
    """
    def __init__(self, body):
        self.body = body
        self.edges = collections.defaultdict(list)
        self.field_nodes = collections.defaultdict(set)   # local -> {(local, f)}
        self._build()

    def _n(self, pl):
        n = node_of(pl)
        if isinstance(n, tuple): self.field_nodes[n[0]].add(n)
        return n

    def _add_op(self, dst, o, lab=None):
        if o['k'] in ('copy', 'move'):
            pl = o['pl']
            self.edges[dst].append(('L', self._n(pl), fields_of_place(pl), lab))
            for p in pl['p']:
                if isinstance(p, dict) and 'ix' in p:
                    self.edges[dst].append(('L', p['ix'], [], 'index'))
        elif o['k'] == 'const':
            self.edges[dst].append(('C', o['v'], o.get('fnp') or o.get('fn'), lab))

    def _build(self):
        b = self.body; E = self.edges; T = b.locals
        callmap = {c.bb: c for c in b.calls}
        for bi in sorted(b.live):
            blk = b.blocks[bi]
            for st in blk['st']:
                if 'dst' not in st: continue
                dpl = st['dst']; d = self._n(dpl); dl = dpl['l']; rv = st['rv']; k = rv['k']
                for p in dpl['p']:
                    if isinstance(p, dict) and 'ix' in p: E[d].append(('L', p['ix'], [], 'index'))
                if k in ('ref', 'rawptr', 'discr'):
                    pl = rv['pl']; src = self._n(pl)
                    E[d].append(('L', src, fields_of_place(pl), k))
                    for p in pl['p']:
                        if isinstance(p, dict) and 'ix' in p: E[d].append(('L', p['ix'], [], 'index'))
                    if k != 'discr' and (rv.get('mut') or k == 'rawptr'):
                        E[src].append(('L', d, [], 'mutref-back'))
                    continue
                ops = rv.get('ops', [])
                # aggregates assigned to a whole local define its field nodes one by one
                split_agg = k == 'agg' and not dpl['p'] and not rv['adt'].startswith('closure:') and rv['adt'] != 'array' and len(ops) > 0
                for i, o in enumerate(ops):
                    lab = k
                    dd = d
                    if k == 'agg':
                        fl = rv['fields']
                        fname = fl[i] if i < len(fl) else str(i)
                        lab = 'agg:%s:%s' % (rv['adt'], fname)
                        if split_agg:
                            dd = (dl, fname); self.field_nodes[dl].add(dd)
                    elif k == 'bin': lab = 'bin:' + rv['op']
                    elif k == 'un': lab = 'un:' + rv['op']
                    self._add_op(dd, o, lab)
                    # aliasing copies of &mut-like values: writes through the copy reach the source
                    if o['k'] in ('copy', 'move') and mutlike(T[dl]) and mutlike(T[o['pl']['l']]):
                        E[self._n(o['pl'])].append(('L', d, [], 'alias-back'))
                if k == 'cast' and rv['to'].startswith('*'):
                    for o in ops:
                        if o['k'] in ('copy', 'move'): E[self._n(o['pl'])].append(('L', d, [], 'rawptr-alias-back'))
                if k == 'agg' and rv['adt'].startswith('closure:'):
                    E[d].append(('K', rv['adt'][8:], None, None))
                    for o in ops:
                        if o['k'] in ('copy', 'move') and mutlike(T[o['pl']['l']]):
                            E[self._n(o['pl'])].append(('L', d, [], 'closure-capture-back'))
                if k == 'other':
                    E[d].append(('C', rv.get('dbg', '?'), None, 'other'))
            t = blk['term']
            if t['k'] == 'call':
                d = self._n(t['dst']); dl = t['dst']['l']; name = t['r'] or t['f']
                call = callmap.get(bi)
                for o in t['args']:
                    self._add_op(d, o, 'call:' + name)
                E[d].append(('F', name, call, None))
                for o in t['args']:
                    if o['k'] not in ('copy', 'move'): continue
                    l = o['pl']['l']
                    if not mutlike(T[l]): continue
                    n = self._n(o['pl'])
                    for o2 in t['args']:
                        if o2 is not o: self._add_op(n, o2, 'callarg:' + name)
                    E[n].append(('F', name, call, 'callarg'))
                    if mutlike(T[dl]):
                        E[n].append(('L', d, [], 'derived-back'))


class Slice:
    __slots__ = ('fields', 'root_fields', 'calls', 'call_objs', 'consts', 'params', 'locals', 'closures', 'fnconsts', 'nodes')

    def __init__(self):
        self.fields = set()        # (adt, field)
        self.root_fields = set()   # (param_index, adt, field): field projection taken directly on a parameter
        self.calls = set()         # rendered callee names
        self.call_objs = []        # Call objects (this body only)
        self.consts = set()
        self.fnconsts = set()
        self.params = set()
        self.locals = set()
        self.closures = set()
        self.nodes = set()

    def merge_summary(self, s):
        self.fields |= s.fields; self.calls |= s.calls; self.consts |= s.consts
        self.closures |= s.closures; self.fnconsts |= s.fnconsts

    def has_field(self, adt_suffix, field):
        return any(f == field and (a == adt_suffix or a.endswith('::' + adt_suffix)) for a, f in self.fields)

    def has_call(self, regex):
        return any(re.search(regex, c) for c in self.calls)

    def has_const(self, regex):
        return any(re.search(regex, c) for c in self.consts)


class Slicer:
    def __init__(self, facts, depth=4):
        self.F = facts; self.depth = depth
        self._graphs = {}; self._summ = {}; self._whole = {}

    def graph(self, body):
        g = self._graphs.get(body.name)
        if g is None:
            g = self._graphs[body.name] = Graph(body)
        return g

    def backslice(self, body, start_locals, depth=None, stop_locals=()):
        """start_locals: locals (ints) or nodes (local, field)"""
        depth = self.depth if depth is None else depth
        g = self.graph(body); E = g.edges; FN = g.field_nodes
        s = Slice()
        seen = set(); work = []
        def push(n):
            if n in seen: return
            l = (n[1] if n[0] == 'w' else n[0]) if isinstance(n, tuple) else n
            if l in stop_locals: return
            seen.add(n); work.append(n)
        for n in start_locals: push(n)
        while work:
            n = work.pop()
            if isinstance(n, tuple) and n[0] == 'w':
                l = n[1]; n = l               # definitions of the whole value only (no sibling fields)
            elif isinstance(n, tuple):
                l = n[0]
                push(('w', l))                # a write to the whole value reaches the field
            else:
                l = n
                for fn_ in FN.get(l, ()): push(fn_)   # the whole value contains every field
            if 1 <= l <= body.argc: s.params.add(l)
            for e in E.get(n, ()):
                k = e[0]
                if k == 'L':
                    src = e[1]; sl = src[0] if isinstance(src, tuple) else src
                    for af in e[2]:
                        s.fields.add(af)
                    if 1 <= sl <= body.argc:
                        for af in e[2][:1]:
                            s.root_fields.add((sl, af[0], af[1]))
                    push(src)
                elif k == 'C':
                    s.consts.add(e[1])
                    mm = re.search(r'::promoted\[(\d+)\]$', e[1])
                    if mm and depth > 0:
                        pn = e[1] if e[1] in self.F.bodies else '%s::promoted[%s]' % (body.name, mm.group(1))
                        s.merge_summary(self.whole_body(pn, depth - 1))
                    if e[2]:
                        s.fnconsts.add(e[2])
                        self._merge_callee(s, e[2], depth)
                elif k == 'F':
                    s.calls.add(e[1])
                    if e[2] is not None:
                        s.call_objs.append(e[2])
                        self._merge_callee(s, e[2].path, depth, e[2].name)
                elif k == 'K':
                    s.closures.add(e[1])
                    if depth > 0:
                        s.merge_summary(self.whole_body(e[1], depth - 1))
        s.locals = {((n[1] if n[0] == 'w' else n[0]) if isinstance(n, tuple) else n) for n in seen}
        s.nodes = seen
        uniq = {}
        for c in s.call_objs: uniq[id(c)] = c
        s.call_objs = list(uniq.values())
        return s

    def _merge_callee(self, s, path, depth, name=None):
        if depth <= 0: return
        cb = self.F.bodies.get(path) or (self.F.bodies.get(name) if name else None)
        if cb is None: return
        if (cb.hdr.get('trait') or '').split('::')[-1] in ('Clone', 'Default', 'Debug', 'PartialEq', 'Hash', 'Message'): return   # derived: value-preserving / irrelevant
        s.merge_summary(self.summary(cb, depth - 1))

    def summary(self, body, depth):
        """what the return value and the &mut-like parameters of `body` may depend on"""
        key = (body.name, depth)
        if key in self._summ: return self._summ[key]
        self._summ[key] = Slice()    # recursion guard
        starts = [0] + [i for i in range(1, body.argc + 1) if mutlike(body.locals[i])]
        s = self.backslice(body, starts, depth)
        self._summ[key] = s
        return s

    def whole_body(self, name, depth):
        """everything a closure body touches (fields, calls, constants), transitively"""
        key = (name, depth)
        if key in self._whole: return self._whole[key]
        s = Slice(); self._whole[key] = s
        b = self.F.bodies.get(name)
        if b is None: return s
        for bi, st in b.stmts():
            rv = st['rv']
            for af in fields_of_place(st['dst']): s.fields.add(af)
            if 'pl' in rv:
                for af in fields_of_place(rv['pl']): s.fields.add(af)
            for o in rv.get('ops', []):
                if o['k'] in ('copy', 'move'):
                    for af in fields_of_place(o['pl']): s.fields.add(af)
                elif o['k'] == 'const':
                    s.consts.add(o['v'])
                    if o.get('fnp'):
                        s.fnconsts.add(o['fnp'])
                        if depth > 0:
                            cb = self.F.bodies.get(o['fnp'])
                            if cb is not None: s.merge_summary(self.summary(cb, depth - 1))
            if rv['k'] == 'agg' and rv['adt'].startswith('closure:'):
                s.closures.add(rv['adt'][8:])
                if depth > 0: s.merge_summary(self.whole_body(rv['adt'][8:], depth - 1))
        for c in b.calls:
            s.calls.add(c.name)
            for a in c.args:
                if a['k'] in ('copy', 'move'):
                    for af in fields_of_place(a['pl']): s.fields.add(af)
                elif a['k'] == 'const':
                    s.consts.add(a['v'])
                    if a.get('fnp'):
                        s.fnconsts.add(a['fnp'])
                        if depth > 0:
                            cb = self.F.bodies.get(a['fnp'])
                            if cb is not None: s.merge_summary(self.summary(cb, depth - 1))
            if depth > 0:
                cb = self.F.bodies.get(c.path) or self.F.bodies.get(c.name)
                if cb is not None: s.merge_summary(self.summary(cb, depth - 1))
        return s

    # ---- helpers for rule code
    def slice_operand(self, body, operand, depth=None):
        s = Slice()
        if operand['k'] in ('copy', 'move'):
            s = self.backslice(body, [node_of(operand['pl'])], depth)
            for af in fields_of_place(operand['pl']): s.fields.add(af)
            l = operand['pl']['l']
            if 1 <= l <= body.argc:
                for af in fields_of_place(operand['pl'])[:1]: s.root_fields.add((l, af[0], af[1]))
        elif operand['k'] == 'const':
            s.consts.add(operand['v'])
            if operand.get('fnp'): s.fnconsts.add(operand['fnp'])
        return s


# ---------------------------------------------------------------------------------------------
# call-graph cones and field-access sets
# ---------------------------------------------------------------------------------------------
def callees_of(F, body):
    out = []
    for c in body.calls:
        cb = F.bodies.get(c.path) or F.bodies.get(c.name)
        if cb is not None: out.append(cb)
        for a in c.args:
            if a['k'] == 'const' and a.get('fnp'):
                cb = F.bodies.get(a['fnp'])
                if cb is not None: out.append(cb)
    for bi, st in body.stmts():
        rv = st['rv']
        for o in rv.get('ops', []):
            if o['k'] == 'const' and o.get('fnp'):
                cb = F.bodies.get(o['fnp'])
                if cb is not None: out.append(cb)
    for _, _, cl in body.closures_created():
        cb = F.bodies.get(cl)
        if cb is not None: out.append(cb)
    return out


def cone(F, root, maxdepth=4, stop=None):
    """bodies reachable from root through local calls / closures / fn items, depth-bounded"""
    seen = {root.name: root}; work = [(root, 0)]
    while work:
        b, d = work.pop()
        if maxdepth is not None and d >= maxdepth: continue
        for cb in callees_of(F, b):
            if cb.name in seen: continue
            if stop and stop(cb): continue
            seen[cb.name] = cb; work.append((cb, d + 1))
    return list(seen.values())


def field_access(bodies, writes_only=False, reads_only=False):
    """(adt, field) -> set of body names touching it"""
    acc = collections.defaultdict(set)
    for b in bodies:
        for bi in b.live:
            blk = b.blocks[bi]
            for st in blk['st']:
                if 'dst' not in st: continue
                if not reads_only:
                    for af in fields_of_place(st['dst']): acc[af].add(b.name)
                if writes_only: continue
                rv = st['rv']
                if 'pl' in rv:
                    for af in fields_of_place(rv['pl']): acc[af].add(b.name)
                for o in rv.get('ops', []):
                    if o['k'] in ('copy', 'move'):
                        for af in fields_of_place(o['pl']): acc[af].add(b.name)
            t = blk['term']
            if writes_only: continue
            if t['k'] == 'call':
                for o in t['args']:
                    if o['k'] in ('copy', 'move'):
                        for af in fields_of_place(o['pl']): acc[af].add(b.name)
            elif t['k'] == 'switch' and t['d']['k'] != 'const':
                for af in fields_of_place(t['d']['pl']): acc[af].add(b.name)
    return acc


def adt_fields_touched(acc, adt_suffix):
    return {f for (a, f) in acc if a == adt_suffix or a.endswith('::' + adt_suffix)}
