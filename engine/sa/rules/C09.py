"""C09 — penalty methods keep every constraint and build f + weighted squared violations (DESIGN §5 C09).

Written against the normal form (`VIEW = 'norm'`): `for` loops, `map/zip/fold/collect/extend` pipelines and
extracted helpers all look like explicit `next` loops.  The rules speak about *dataflow roles*, not about
the number of loops or constructors:

  constraint loop   a loop whose iterated sequence is `self.constraints` itself (walked through
                    order/completeness preserving adaptors only, see SEQ_ADAPTORS) – one pass or many
  R                 the vector that ends up in `removed_constraints`: starts as `self.removed_constraints`,
                    and some constraint loop pushes `RemovedConstraint{Some(item), ..}` on every path
  P                 (per-constraint) the vector that ends up in `parameters`: filled with exactly one
                    `Parameter{id: fresh + index, subscripts: [item.id]}` per iteration of a constraint loop
  pairing           wherever a weight multiplies g_c or is recorded as "parameter_id" of c, the weight is
                    the one created for c: built in the same iteration from the same item, or taken from
                    P zipped in lock-step with `self.constraints` (both walked in order)
"""
import re
from .common import *

VIEW = 'norm'

INST = 'v1::Instance'
CARRIED = ['description', 'decision_variables', 'sense', 'constraint_hints', 'decision_variable_dependency']

PARAM_TY = re.compile(r"^(&('\w+ )?(mut )?)?v1::Parameter$")
NEVER = re.compile(r'(?!x)x')
# value-preserving accessors followed when asking "which constraint is this function the function of"
FUNC_TRANSPARENT = re.compile(T.TRANSPARENT.pattern.replace('::(as_ref|', '::(function|as_ref|', 1))
# identity-preserving only (no clone): followed when asking "which object is this"
REF_TRANSPARENT = re.compile(r'::(as_ref|as_mut|as_deref|deref|deref_mut|borrow|borrow_mut)(::<.*>)?$')

# ---------------------------------------------------------------------------------------------------
# sequences: what does a loop iterate over, element by element?
# (trait suffix or None for inherent, item) -> (number of sequence arguments, keeps the order)
# every entry hands on *all* elements of its argument(s); `in_order` additionally says element i stays
# element i (needed only when two sequences are walked in lock-step)
SEQ_ADAPTORS = {
    ('IntoIterator', 'into_iter'): (1, True),    # `for x in v` / v.into_iter() / identity on an iterator
    (None, 'iter'): (1, True),                   # v.iter()
    (None, 'iter_mut'): (1, True),               # v.iter_mut()
    (None, 'as_slice'): (1, True),               # v.as_slice()
    (None, 'as_mut_slice'): (1, True),           # v.as_mut_slice()
    ('Deref', 'deref'): (1, True),               # &Vec<T> -> &[T]
    ('DerefMut', 'deref_mut'): (1, True),        # &mut Vec<T> -> &mut [T]
    ('Iterator', 'enumerate'): (1, True),        # (i, x): same elements, adds the position
    ('Iterator', 'zip'): (2, True),              # (a_i, b_i): lock-step over both arguments
    ('Iterator', 'by_ref'): (1, True),           # &mut it
    ('Iterator', 'peekable'): (1, True),         # look-ahead only
    ('Iterator', 'fuse'): (1, True),             # same elements
    ('Iterator', 'copied'): (1, True),           # element-wise copy
    ('Iterator', 'cloned'): (1, True),           # element-wise clone
    ('Iterator', 'rev'): (1, False),             # all elements, reversed: fine for a single pass, breaks lock-step
}
INHERENT_SEQ_OWNER = re.compile(r'slice::<impl \[|::Vec::<|::VecDeque::<')
EMPTY_VEC_CTOR = re.compile(r'::Vec::<.*>::(new|with_capacity)$|<std::vec::Vec<.*> as std::default::Default>::default$')
# calls through `&mut vec` that change which element sits at which position
VEC_REORDER = ('sort', 'sort_by', 'sort_by_key', 'sort_unstable', 'sort_unstable_by', 'sort_unstable_by_key', 'sort_by_cached_key',
               'reverse', 'swap', 'swap_remove', 'remove', 'insert', 'retain', 'retain_mut', 'dedup', 'dedup_by', 'dedup_by_key',
               'truncate', 'pop', 'drain', 'clear', 'rotate_left', 'rotate_right', 'split_off', 'append', 'extend', 'resize')
# the subset that keeps the multiset of elements (harmless unless the position matters)
VEC_PERMUTE = ('sort', 'sort_by', 'sort_by_key', 'sort_unstable', 'sort_unstable_by', 'sort_unstable_by_key', 'sort_by_cached_key',
               'reverse', 'swap', 'rotate_left', 'rotate_right')


def _callmap(body):
    m = getattr(body, '_c09_callmap', None)
    if m is None:
        m = body._c09_callmap = {c.bb: c for c in body.calls}
    return m


def _whole_defs(body, l):
    return [d for d in body.defs_of(l) if not (d[0] == 'stmt' and d[2]['dst']['p'])]


def seq_adaptor(c):
    tr = (c.trait or '').split('::')[-1] or None
    ent = SEQ_ADAPTORS.get((tr, c.item))
    if ent is None: return None
    if tr is None and not INHERENT_SEQ_OWNER.search(c.name): return None
    return ent


def seq_sources(body, op, in_order=True, crossed=None, acc=(), depth=24):
    """leaves of the sequence an iterator operand walks: list of (kind, key, in_order)
         ('field', (param, ((adt, f), ..)))   a field of a parameter, e.g. self.constraints
         ('vec', local)                        a local Vec created empty (filled by pushes)
         ('other', text)                       anything else (a call result, a restricted iterator, ..)
       `crossed` collects the items of the adaptors passed (e.g. 'enumerate')."""
    if crossed is None: crossed = set()
    if depth == 0 or op['k'] not in ('copy', 'move'): return [('other', 'unknown operand', in_order)]
    pl = op['pl']; l = pl['l']; fs = tuple(fields_of_place(pl)) + tuple(acc)
    if 1 <= l <= body.argc:
        return [('field', (l, fs), in_order)] if fs else [('other', 'parameter _%d' % l, in_order)]
    defs = _whole_defs(body, l)
    if len(defs) != 1: return [('other', 'local _%d has %d definitions' % (l, len(defs)), in_order)]
    k, bi, d = defs[0]
    if k == 'stmt':
        rv = d['rv']
        if rv['k'] == 'use' and rv['ops'][0]['k'] in ('copy', 'move'):
            return seq_sources(body, rv['ops'][0], in_order, crossed, fs, depth - 1)
        if rv['k'] == 'ref':
            return seq_sources(body, {'k': 'copy', 'pl': rv['pl']}, in_order, crossed, fs, depth - 1)
        return [('other', 'local _%d' % l, in_order)]
    c = _callmap(body)[bi]
    if fs: return [('other', 'projection of ' + c.item, in_order)]
    ent = seq_adaptor(c)
    if ent is not None:
        n, keeps = ent
        crossed.add(c.item)
        out = []
        for a in c.args[:n]:
            out += seq_sources(body, a, in_order and keeps, crossed, (), depth - 1)
        return out
    if EMPTY_VEC_CTOR.search(c.name): return [('vec', l, in_order)]
    return [('other', 'result of ' + c.name[:70], in_order)]


def is_constraints_leaf(leaf):
    k, key, _ = leaf
    return k == 'field' and key[0] == 1 and len(key[1]) == 1 and key[1][0][1] == 'constraints' and \
        (key[1][0][0] == INST or key[1][0][0].endswith('::' + INST))


class Loop:
    def __init__(self, body, lo):
        self.lo = lo; self.next, self.header, self.some_bb, self.none_bb, self.blocks = lo
        self.item = self.next.dst['l']
        self.crossed = set()
        self.leaves = seq_sources(body, self.next.args[0], True, self.crossed)
        self.over_constraints = any(is_constraints_leaf(x) for x in self.leaves)

    def site(self, body): return body.site(self.next.bb)


def innermost(loops, bb):
    best = None
    for L in loops:
        if bb in L.blocks and (best is None or len(L.blocks) < len(best.blocks)): best = L
    return best


def root_of(body, op, transparent=NEVER, depth=24, cross_proj=True):
    """(root local, fields crossed, transparent calls crossed): follows single-definition copies / refs and
    calls matching `transparent` backwards; stops at parameters, aggregates, other calls, multiply-defined locals"""
    fields = []; crossed = []
    if op is None or op['k'] not in ('copy', 'move'): return None, fields, crossed
    pl = op['pl']
    for _ in range(depth):
        fields = fields_of_place(pl) + fields
        l = pl['l']
        if 1 <= l <= body.argc: return l, fields, crossed
        defs = _whole_defs(body, l)
        if len(defs) != 1: return l, fields, crossed
        k, bi, d = defs[0]
        if k == 'stmt':
            rv = d['rv']
            if rv['k'] == 'use' and rv['ops'][0]['k'] in ('copy', 'move') and (cross_proj or not fields_of_place(rv['ops'][0]['pl'])):
                pl = rv['ops'][0]['pl']; continue
            if rv['k'] == 'ref' and (cross_proj or not fields_of_place(rv['pl'])): pl = rv['pl']; continue
            return l, fields, crossed
        nm = d['r'] or d['f']
        if transparent.search(T.strip_generics_tail(nm)) and d['args'] and d['args'][0]['k'] in ('copy', 'move'):
            crossed.append(nm); pl = d['args'][0]['pl']; continue
        return l, fields, crossed
    return None, fields, crossed


def agg_def(body, l, adt_suffix):
    """the statement `l = Adt { .. }` if that is l's only definition"""
    if l is None: return None
    defs = _whole_defs(body, l)
    if len(defs) == 1 and defs[0][0] == 'stmt':
        rv = defs[0][2]['rv']
        if rv['k'] == 'agg' and (rv['adt'] == adt_suffix or rv['adt'].endswith('::' + adt_suffix)): return defs[0][1], defs[0][2]
    return None


def recv_root(body, c):
    """the local collection a method call works on (a vector moved out of `self.field` is that local, not `self`)"""
    if not c.args: return None
    return root_of(body, c.args[0], REF_TRANSPARENT, cross_proj=False)[0]


def pushes_into(body, vec_local=None, elem_ty=None):
    out = []
    for c in body.calls:
        if c.item != 'push' or len(c.args) != 2 or '::Vec::<' not in c.name: continue
        r = recv_root(body, c)
        if r is None: continue
        if vec_local is not None and r != vec_local: continue
        if elem_ty is not None and not re.match(r'^std::vec::Vec<%s>$' % re.escape(elem_ty), body.locals[r].strip()): continue
        out.append(c)
    return out


def once_per_iteration(body, L, sites):
    """every path Some-arm -> header passes exactly one of the blocks in `sites`"""
    if not sites or not all(s in L.blocks for s in sites): return False, 'not inside the loop'
    if not T.must_pass(body, L.some_bb, {L.header}, set(sites)): return False, 'a path through the loop body skips it'
    for s in sites:
        seen = set(); w = [x for x in body.succ(s) if not body.blocks[x]['cleanup']]
        while w:
            x = w.pop()
            if x in seen or x == L.header or x not in L.blocks: continue
            seen.add(x)
            if x in sites: return False, 'a path through the loop body passes it twice'
            w += [y for y in body.succ(x) if not body.blocks[y]['cleanup']]
    return True, ''


def aligned_parameter_vec(ctx, body, loops, P, need_order=True, _guard=None):
    """is local Vec P filled with exactly one Parameter per element of self.constraints (need_order: and in
    the order of self.constraints, which matters only when P is later walked in lock-step with it)?
    returns (ok, why, fill loop, [(bb, Parameter aggregate stmt)])"""
    _guard = _guard or set()
    if P in _guard: return False, 'cyclic', None, []
    defs = _whole_defs(body, P)
    if len(defs) != 1 or defs[0][0] != 'call' or not EMPTY_VEC_CTOR.search(_callmap(body)[defs[0][1]].name):
        return False, '_%d is not a vector created empty and filled by push' % P, None, []
    sites = pushes_into(body, P)
    if not sites: return False, 'nothing is pushed into _%d' % P, None, []
    Ls = {id(innermost(loops, c.bb)): innermost(loops, c.bb) for c in sites}
    if len(Ls) != 1 or None in Ls.values(): return False, 'the pushes into _%d are not all inside one loop' % P, None, []
    L = list(Ls.values())[0]
    if not L.over_constraints: return False, 'the loop filling _%d (%s) does not walk self.constraints itself' % (P, L.site(body)), L, []
    for leaf in L.leaves:
        if is_constraints_leaf(leaf) and (leaf[2] or not need_order): continue
        if leaf[0] == 'vec' and leaf[2] and aligned_parameter_vec(ctx, body, loops, leaf[1], True, _guard | {P})[0]: continue
        return False, 'the loop filling _%d also depends on %s%s' % (P, leaf[1] if leaf[0] == 'other' else leaf[0], '' if leaf[2] else ' (order not kept)'), L, []
    ok, why = once_per_iteration(body, L, [c.bb for c in sites])
    if not ok: return False, 'push into _%d: %s' % (P, why), L, []
    # nothing reorders P afterwards / in between
    for c in body.calls:
        if c in sites or not c.args: continue
        if recv_root(body, c) != P: continue
        a0 = c.args[0]
        if a0['k'] not in ('copy', 'move') or '&mut' not in body.locals[a0['pl']['l']]: continue
        if c.item in VEC_REORDER and (need_order or c.item not in VEC_PERMUTE): return False, '_%d is reordered by `%s` (%s)' % (P, c.item, body.site(c.bb)), L, []
    aggs = []
    for c in sites:
        r = root_of(body, c.args[1])[0]
        a = agg_def(body, r, 'v1::Parameter')
        if a is None or a[0] not in L.blocks: return False, 'the value pushed into _%d is not a Parameter built in the same iteration' % P, L, []
        aggs.append(a)
    return True, '', L, aggs


def parameter_origin(ctx, body, loops, L, op, per_method_P):
    """Is the Parameter value `op`, used inside loop L, the weight of L's current constraint?
    returns (ok, how)"""
    r, fs, calls = root_of(body, op, REF_TRANSPARENT)
    if r is None: return False, 'origin of the parameter not traceable'
    a = agg_def(body, r, 'v1::Parameter')
    if a is not None:
        # built from the item in this very iteration
        if L is not None and a[0] in L.blocks and L.over_constraints: return True, 'built in the same iteration (%s)' % body.site(a[0])
        return False, 'parameter built at %s is used for a constraint of another loop / outside a constraint loop' % body.site(a[0])
    if L is not None and r == L.item:
        # lock-step: every sequence walked is self.constraints or a per-constraint parameter vector, all in order
        nvec = 0
        for leaf in L.leaves:
            if not leaf[2]: return False, 'lock-step loop walks a sequence out of order'
            if is_constraints_leaf(leaf): continue
            if leaf[0] == 'vec':
                ok, why, _, _ = aligned_parameter_vec(ctx, body, loops, leaf[1])
                if not ok: return False, 'zipped parameter vector is not index-aligned with self.constraints: ' + why
                nvec += 1; continue
            return False, 'lock-step loop walks %s, which is not self.constraints nor a per-constraint parameter vector' % (leaf[1],)
        if nvec and L.over_constraints: return True, 'zipped with the index-aligned parameter vector'
        return False, 'loop item carries a parameter but the loop does not zip self.constraints with a parameter vector'
    return False, 'parameter comes from _%d, which is neither built in this iteration nor the item of a lock-step loop' % r


def loop_counter_in(body, L, s):
    """does slice `s` contain a value that changes with every iteration of L?  (idioms, one per entry)"""
    # 1. `.enumerate()` on the loop's iterator and the slice reaches the loop item
    if 'enumerate' in L.crossed and L.item in s.locals: return 'enumerate index'
    # 2. `vec.len()` of a vector pushed once per iteration
    for c in s.call_objs:
        if c.item == 'len' and c.args:
            v = recv_root(body, c)
            if v is not None and any(p.bb in L.blocks for p in pushes_into(body, v)): return 'len of the vector being filled'
    # 3. a counter: integer local initialised outside the loop and updated from itself inside it
    for l in s.locals:
        if not re.fullmatch(r'[iu](8|16|32|64|128|size)', body.locals[l]): continue
        ds = _whole_defs(body, l)
        inside = [d for d in ds if d[1] in L.blocks]; outside = [d for d in ds if d[1] not in L.blocks]
        if inside and outside and any(d[0] == 'stmt' and l in _reads(body, d[2]) for d in inside): return 'counter'
    return None


def _reads(body, st, depth=4):
    """locals read (transitively through temporaries, a few steps) by a statement"""
    out = set(); work = []
    def ops_of(rv):
        r = []
        for o in rv.get('ops', []):
            if o['k'] in ('copy', 'move'): r.append(o['pl']['l'])
        if 'pl' in rv: r.append(rv['pl']['l'])
        return r
    work = [(x, depth) for x in ops_of(st['rv'])]
    while work:
        l, d = work.pop()
        if l in out: continue
        out.add(l)
        if d == 0: continue
        for k, bi, x in _whole_defs(body, l):
            if k == 'stmt': work += [(y, d - 1) for y in ops_of(x['rv'])]
    return out


def is_mul(c):
    return (c.trait or '').endswith('ops::Mul') and c.item == 'mul' and len(c.args) == 2


def from_constraint_function(s):
    return s.has_field('v1::Constraint', 'function') or s.has_call(r'impl v1::Constraint>::function')


def square_sites(ctx, body, so):
    """products whose two operands both derive from a constraint's function, in the objective's slice:
    in this body, or in a closure the slice goes through (a pipeline the normal form leaves alone,
    e.g. `.map(|c| g*g).sum::<Function>()`)"""
    out = []
    for c in so.call_objs:
        if is_mul(c) and all(from_constraint_function(ctx.S.slice_operand(body, a)) for a in c.args):
            out.append(body.site(c.bb))
    for cn in sorted(so.closures):
        cb = ctx.F.bodies.get(cn)
        if cb is None: continue
        for c in cb.calls:
            if is_mul(c) and all(from_constraint_function(ctx.S.slice_operand(cb, a)) for a in c.args):
                out.append(cb.site(c.bb))
    return out


def check_method(ctx, name, uniform):
    body = ctx.method('C09.anchor/' + name, INST, name)
    if body is None: return
    fn = body.name
    # ---- coverage of the input message
    cover(ctx, 'C09.cover/' + name, body, INST, exempt=('parameters',))
    aggs = find_aggregates(body, 'v1::ParametricInstance')
    if not aggs:
        ctx.bad('C09.carry/%s/aggregate' % name, 'ANCHOR', fn, 'no v1::ParametricInstance is built'); return
    loops = [Loop(body, lo) for lo in T.for_loops(body)]
    cloops = [L for L in loops if L.over_constraints]
    ctx.check(bool(cloops), 'C09.loop/%s' % name, 'T-LOOPMUST', fn, 'no loop walks self.constraints itself (found %d loops)' % len(loops), body.site(),
              loops=[L.site(body) for L in cloops])
    paggs = find_aggregates(body, 'v1::Parameter')
    ctx.check(bool(paggs), 'C09.parameters/%s/constructed' % name, 'T-CARRY', fn, 'no weight parameter (v1::Parameter literal) is built', body.site())

    for _, agg in aggs:
        for f in CARRIED:
            carry_field(ctx, 'C09.carry/%s/%s' % (name, f), body, agg, f, need_fields=[(INST, f)])
        # no active constraints in the result
        carry_field(ctx, 'C09.carry/%s/constraints' % name, body, agg, 'constraints', not_fields=[(INST, 'constraints'), (INST, 'removed_constraints')])
        # every constraint of the input — already removed ones included — is kept as removed
        carry_field(ctx, 'C09.carry/%s/removed_constraints' % name, body, agg, 'removed_constraints',
                    need_fields=[(INST, 'constraints'), (INST, 'removed_constraints')])
        # objective = old objective + parameter * g*g
        so = carry_field(ctx, 'C09.carry/%s/objective' % name, body, agg, 'objective',
                         need_fields=[(INST, 'objective'), (INST, 'constraints')],
                         need_calls=[r'ops::Add.* for v1::Function>::add|Function as std::ops::Add', r'ops::Mul'])
        if so is not None:
            # weighted products: a multiplication one operand of which is a Parameter
            wsites = [(c, a) for c in so.call_objs if is_mul(c) for a in c.args
                      if a['k'] in ('copy', 'move') and not a['pl']['p'] and PARAM_TY.match(body.locals[a['pl']['l']])]
            ctx.check(bool(wsites), 'C09.objective/%s/parameter' % name, 'T-CARRY', fn, 'objective does not depend on a product with a weight parameter', body.site())
            sq = square_sites(ctx, body, so)
            ctx.check(bool(sq), 'C09.objective/%s/square' % name, 'T-CARRY', fn,
                      'objective contains no product g*g of a constraint function with itself', body.site(), square_sites=sq)
            if not uniform:
                # weight_c multiplies g_c: the parameter and the function belong to the same constraint
                for c, a in wsites:
                    L = innermost(loops, c.bb)
                    ok, how = parameter_origin(ctx, body, loops, L, a, None)
                    if ok:
                        others = [x for x in c.args if x is not a]
                        so2 = ctx.S.slice_operand(body, others[0]) if others else None
                        if so2 is None or not (L.item in so2.locals and from_constraint_function(so2)):
                            ok, how = False, 'the weight does not multiply the function of the loop\'s current constraint'
                    ctx.check(ok, 'C09.pair/%s/objective' % name, 'T-CARRY', fn, 'weight and squared function of different constraints: ' + how, body.site(c.bb), how=how)
        # parameters of the result
        sp = carry_field(ctx, 'C09.carry/%s/parameters' % name, body, agg, 'parameters')
        if sp is not None and paggs:
            ctx.check(any(st['dst']['l'] in sp.locals for _, st in paggs), 'C09.parameters/%s/returned' % name, 'T-CARRY', fn,
                      'the weight parameter built here does not reach the result\'s `parameters`', body.site())
        if not uniform:
            # one weight per constraint: `parameters` is a vector filled once per iteration of a constraint loop
            P = root_of(body, agg_field_operand(agg, 'parameters'), cross_proj=False)[0]
            ok, why, PL, pushed = aligned_parameter_vec(ctx, body, loops, P, need_order=False) if P is not None else (False, 'not traceable', None, [])
            ctx.check(ok, 'C09.parameters/%s/per-constraint' % name, 'T-LOOPMUST', fn, '`parameters` does not hold exactly one weight per constraint: ' + why,
                      PL.site(body) if PL else body.site())

    for bi, st in paggs:
        fresh_id_rule(ctx, 'C09.fresh/%s' % name, body, agg_field_operand(st, 'id'), 'weight parameter id')
        L = innermost(loops, bi)
        if not uniform:
            ctx.check(L is not None and L.over_constraints, 'C09.parameters/%s/in-loop' % name, 'T-LOOPMUST', fn, 'parameter is not created inside a loop over self.constraints', body.site(bi))
            if L is None: continue
            ss = carry_field(ctx, 'C09.tags/%s/subscripts' % name, body, st, 'subscripts', need_fields=[('v1::Constraint', 'id')], site=body.site(bi))
            if ss is not None:
                ctx.check(L.item in ss.locals, 'C09.tags/%s/subscripts-of-item' % name, 'T-CARRY', fn, 'subscripts do not derive from the loop\'s current constraint', body.site(bi))
            # id differs per constraint: depends on a value that changes with every iteration
            sid = slice_op(ctx, body, agg_field_operand(st, 'id'))
            how = loop_counter_in(body, L, sid)
            ctx.check(how is not None, 'C09.fresh/%s/per-constraint-offset' % name, 'T-CARRY', fn, 'parameter id does not depend on the constraint index', body.site(bi), index=how)
        else:
            ctx.check(L is None, 'C09.parameters/%s/outside-loop' % name, 'T-LOOPMUST', fn, 'uniform parameter is created inside a loop', body.site(bi))

    # ---- each constraint wrapped unchanged and moved to `removed_constraints`, on every path through a constraint loop
    rpush = pushes_into(body, elem_ty='v1::RemovedConstraint')
    moving = [L for L in cloops if any(c.bb in L.blocks and innermost(loops, c.bb) is L for c in rpush)]
    ctx.check(bool(moving), 'C09.loop/%s/moves-constraints' % name, 'T-LOOPMUST', fn, 'no loop over self.constraints pushes onto a Vec<RemovedConstraint>', body.site())
    for L in moving:
        mine = [c for c in rpush if c.bb in L.blocks]
        loop_must(ctx, 'C09.loop/%s/push-removed' % name, body, L.lo, lambda c: c in mine, 'removed_constraints.push')
        for c in mine:
            a = agg_def(body, root_of(body, c.args[1])[0], 'v1::RemovedConstraint')
            ctx.check(a is not None and a[0] in L.blocks, 'C09.wrap/%s/built' % name, 'T-CARRY', fn, 'the value pushed is not a RemovedConstraint built in this iteration', body.site(c.bb))
            if a is None: continue
            bi, st = a
            # constraint: Some(item) — the item itself, moved, through no call
            op = agg_field_operand(st, 'constraint')
            some = agg_def(body, root_of(body, op)[0], 'Option::Some') if op is not None else None
            inner = some[1]['rv']['ops'][0] if some else None
            r, fs, calls = root_of(body, inner) if inner is not None else (None, [], [])
            ctx.check(r == L.item and not calls, 'C09.wrap/%s/unchanged' % name, 'T-CARRY', fn,
                      'RemovedConstraint.constraint is not the loop item itself', body.site(bi))
            # nothing writes into the loop item before it is wrapped
            writes = []
            for b2, st2 in body.stmts():
                if b2 in L.blocks and st2['dst']['p'] and any(a2.endswith('v1::Constraint') for a2, f in fields_of_place(st2['dst'])):
                    writes.append(body.site(b2))
            ctx.check(not writes, 'C09.wrap/%s/no-write' % name, 'T-CARRY', fn, 'the constraint is modified inside the loop at %s' % writes, body.site(bi))
            if not uniform:
                st_ = carry_field(ctx, 'C09.tags/%s/parameter_id' % name, body, st, 'removed_reason_parameters',
                                  need_fields=[('v1::Parameter', 'id')], need_consts=[r'"parameter_id"'], site=body.site(bi))
                # the recorded id is the id of this constraint's weight
                if st_ is not None:
                    cands = [l for l in sorted(st_.locals) if PARAM_TY.match(body.locals[l]) and any(b2 in L.blocks for _, b2, _ in body.defs_of(l))]
                    verdicts = [parameter_origin(ctx, body, loops, L, {'k': 'copy', 'pl': {'l': l, 'p': []}}, None) for l in cands]
                    ok = bool(verdicts) and all(v[0] for v in verdicts)
                    ctx.check(ok, 'C09.pair/%s/tag' % name, 'T-CARRY', fn, '"parameter_id" does not name the weight of this constraint: %s' %
                              ('; '.join(v[1] for v in verdicts if not v[0]) or 'no parameter value found'), body.site(bi), how=[v[1] for v in verdicts])


def check(ctx):
    check_method(ctx, 'penalty_method', False)
    check_method(ctx, 'uniform_penalty_method', True)
    ctx.floor('C09.cover', 16)
    ctx.floor('C09.carry', 18)
    ctx.floor('C09.fresh', 3)
    ctx.floor('C09.wrap', 6)
    ctx.floor('C09.loop', 8)
    ctx.floor('C09.pair', 2)
    ctx.floor('C09.parameters', 7)
    ctx.floor('C09.objective', 4)
    ctx.floor('C09.tags', 3)
