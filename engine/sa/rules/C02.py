"""C02 — function arithmetic for every operand mix (DESIGN §5 C02).

Written against the normal form (VIEW = 'norm'): extracted helpers are inlined and iterator chains with
closures are explicit loops, so a `for` loop and the equivalent adaptor chain are the same thing here.
The kernel / keys / branches rules are conditions on dataflow (which stores every path passes, what a
stored value is computed from in EVERY alternative, which loop nest an accumulation sits in) plus tables
of equivalent idioms; they do not count loops, calls or statements."""
import os, json
from .common import *
from ..dataflow import node_of

VIEW = 'norm'

OPS = ('Add', 'Sub', 'Mul', 'Neg')
CAP = {'f64': 0, 'v1::Linear': 1, '&v1::DecisionVariable': 1, '&v1::Parameter': 1, 'v1::Quadratic': 2, 'v1::Polynomial': 99, 'v1::Function': 99,
       '&v1::Linear': 1, '&v1::Quadratic': 2, '&v1::Polynomial': 99, '&v1::Function': 99}
FUNC_TYPES = set(CAP)
INF = 99


def fval(b, v):
    """numeric value of a constant operand: a literal, or a NAMED constant of the crate resolved through the constant
    table of the facts (`const MINUS_ONE: f64 = -1.0` used as `crate::macros::MINUS_ONE`), also through one level of
    `const A: f64 = B;`"""
    x = T.f64_const(v)
    if x is not None: return x
    F = getattr(b, 'facts', None)
    consts = getattr(F, 'consts', None) or getattr(getattr(F, 'raw', None), 'consts', None) or {}
    key = v.strip()
    if key.startswith('const '): key = key[6:]
    for _ in range(3):
        hit = consts.get(key) or next((cv for k, cv in consts.items() if k.endswith('::' + key) or key.endswith('::' + k)), None)
        if hit is None: return None
        x = T.f64_const(hit[1])
        if x is not None: return x
        key = hit[1].strip()
    return None


def norm_ty(t):
    return re.sub(r"&'\w+ ", '&', t)


def op_impls(ctx):
    out = []
    for i in ctx.F.impls:
        m = re.search(r'ops::(Add|Sub|Mul|Neg)$', i['impl'])
        if not m: continue
        op = m.group(1); lhs = norm_ty(i['self'])
        rhs = None if op == 'Neg' else norm_ty((i['targs'] or [i['self']])[0])
        if lhs not in FUNC_TYPES or (rhs is not None and rhs not in FUNC_TYPES): continue
        out.append(dict(op=op, lhs=lhs, rhs=rhs, output=norm_ty(i['assoc'].get('Output', '')), methods=i['methods'], span=i['span']))
    return out


def resolve_output(impls, ty, depth=0):
    """resolve `<A as Add<B>>::Output` projections through the local impl table"""
    ty = norm_ty(ty)
    m = re.fullmatch(r'<(.+?) as std::ops::(Add|Sub|Mul|Neg)(?:<(.+)>)?>::Output', ty)
    if not m or depth > 6: return ty
    l, op, r = m.group(1), m.group(2), m.group(3) or m.group(1)
    if op == 'Neg': r = None
    for i in impls:
        if i['op'] == op and i['lhs'] == l and i['rhs'] == r:
            return resolve_output(impls, i['output'], depth + 1)
    return ty


def table_rules(ctx, impls):
    R = 'C02.table'
    floor = json.load(open(os.path.join(os.path.dirname(__file__), 'tables', 'C02_impl_floor.json')))
    have = {(i['op'], i['lhs'], i['rhs']) for i in impls}
    missing = [tuple(x) for x in floor['impls'] if tuple(x) not in have]
    ctx.check(not missing, R + '/floor', 'T-IMPLTAB', 'impl table', 'operator impls of the pinned API are gone: %s' % missing[:6], floor=len(floor['impls']), present=len(have))
    for i in impls:
        out = resolve_output(impls, i['output'])
        cl = CAP.get(i['lhs']); cr = CAP.get(i['rhs']) if i['rhs'] else None; co = CAP.get(out)
        rid = ('%s/%s_%s_%s' % (R, i['lhs'], i['op'], i['rhs'] or '')).replace(' ', '')
        if co is None:
            ctx.bad(rid, 'T-IMPLTAB', 'impl %s<%s> for %s' % (i['op'], i['rhs'], i['lhs']), 'Output type %s is not a function type' % out, '%s:%d' % (i['span']['file'], i['span']['lo'])); continue
        if i['op'] == 'Mul': need = min(INF, cl + cr)
        elif i['op'] == 'Neg': need = cl
        else: need = max(cl, cr)
        ctx.check(co >= need, rid, 'T-IMPLTAB', 'impl %s<%s> for %s' % (i['op'], i['rhs'], i['lhs']),
                  'Output %s cannot hold every term of the result (degree capacity %s < %s)' % (out, co, need), '%s:%d' % (i['span']['file'], i['span']['lo']), output=out)
    ctx.floor(R, len(floor['impls']))


# what a delegating impl of each operator must call (T-DELEG)
DELEGATES_TO = {'Add': ('Add',), 'Mul': ('Mul',), 'Sub': ('Add',), 'Neg': ('Mul', 'Neg')}
# hand-written kernels whose operator call on the payload legitimately sits in one branch only; C02.branches decides each path
BRANCH_KERNELS = [('v1::Quadratic', 'Add', 'v1::Linear'), ('v1::Quadratic', 'Add', 'f64'), ('v1::Quadratic', 'Mul', 'f64'), ('v1::Quadratic', 'Add', 'v1::Quadratic')]


# hand-written (non-delegating) operator impls of the pinned tree and the rule family that decides each; every other impl of
# the table is a delegation (macro generated).  When a delegation is REPLACED by a hand-written body the impl is a new kernel:
# it is handed to the kernel rules that fit its shape (NEW_KERNEL_SHAPES) or decided by the weaker generic condition.
PINNED_KERNELS = {
    ('v1::Linear', 'Add', 'v1::Linear'): 'C02.kernel', ('v1::Linear', 'Add', 'f64'): 'C02.deleg (trivial aggregate)',
    ('v1::Polynomial', 'Add', 'v1::Polynomial'): 'C02.kernel', ('v1::Quadratic', 'Add', 'v1::Quadratic'): 'C02.branches + C02.kernel',
    ('v1::Quadratic', 'Add', 'v1::Linear'): 'C02.branches', ('v1::Quadratic', 'Add', 'f64'): 'C02.branches',
    ('v1::Function', 'Add', 'v1::Function'): 'C02.dispatch', ('v1::Linear', 'Mul', 'f64'): 'C02.kernel',
    ('v1::Linear', 'Mul', 'v1::Linear'): 'C02.keys', ('v1::Polynomial', 'Mul', 'v1::Polynomial'): 'C02.keys',
    ('v1::Polynomial', 'Mul', 'f64'): 'C02.kernel', ('v1::Quadratic', 'Mul', 'v1::Quadratic'): 'C02.keys',
    ('v1::Quadratic', 'Mul', 'f64'): 'C02.branches + C02.kernel', ('v1::Function', 'Mul', 'v1::Function'): 'C02.dispatch',
}
# shapes for which C02.branches has a generic rule: Quadratic (+|-) {Linear, f64, Quadratic} -- the optional linear part
NEW_KERNEL_SHAPES = [('v1::Quadratic', op, rhs) for op in ('Add', 'Sub') for rhs in ('v1::Linear', 'f64', 'v1::Quadratic')]


def is_pure_delegation(b):
    """straight-line body made of conversions and operator calls only (what the delegation macros generate)"""
    if any(b.blocks[bi]['term']['k'] == 'switch' for bi in b.live): return False
    opcalls = [c for c in b.calls if is_ops_call(c)]
    if not opcalls or any(not is_ops_call(c) and not conv_call(c) for c in b.calls): return False
    return not any(st['rv']['k'] == 'bin' and st['rv'].get('ty') == 'f64' for bi, st in b.stmts())


def impl_body(ctx, i):
    b = ctx.F.bodies.get(i['methods'][0]) if i['methods'] else None
    if b is None:
        bs = ctx.F.method(i['lhs'], i['op'].lower(), trait=i['op'], targs=[i['rhs']] if i['rhs'] else None)
        b = bs[0] if len(bs) == 1 else None
    return b


def new_kernels(ctx, impls):
    """impls with a hand-written body that are not kernels of the pinned tree (a delegation was replaced)"""
    out = []
    for i in impls:
        t = (i['lhs'], i['op'], i['rhs'])
        if t in PINNED_KERNELS: continue
        b = impl_body(ctx, i)
        if b is not None and not is_pure_delegation(b) and not (i['op'] == 'Neg' and not any(is_ops_call(c) for c in b.calls)): out.append((t, b))
    return out


def negated(ctx, b, e, p):
    """the tree applies a negation to something that depends on parameter p.  Idioms: `-x` (Neg::neg or the built-in),
    `x * -1.0` / `-1.0 * x`, `0 - x` / `zero() - x` (a subtraction whose minuend does not depend on p)"""
    for x in T.expr_walk(e):
        if x[0] == 'un' and x[1] == 'Neg' and p in expr_params(ctx, b, x[2]): return True
        if x[0] == 'call' and ops_kind(x[2]) == 'Neg' and x[1] == 'neg' and x[3] and p in expr_params(ctx, b, x[3][0]): return True
        two = None
        if x[0] == 'call' and x[1] in ('mul', 'sub') and ops_kind(x[2]) in ('Mul', 'Sub') and len(x[3]) == 2: two = (ops_kind(x[2]), x[3][0], x[3][1])
        if x[0] == 'bin' and x[1] in ('Mul', 'Sub'): two = (x[1], x[2], x[3])
        if two:
            k, a0, a1 = two
            if k == 'Mul':
                for c, o in ((a0, a1), (a1, a0)):
                    c = T.strip_wrappers(c)
                    if c[0] == 'const' and fval(b, c[1]) == -1.0 and p in expr_params(ctx, b, o): return True
            elif p in expr_params(ctx, b, a1) and p not in expr_params(ctx, b, a0): return True
    return False


def is_ops_call(c):
    return bool(re.search(r'ops::(Add|Sub|Mul|Neg)$', c.trait or '')) and c.item in ('add', 'sub', 'mul', 'neg')


def conv_call(c):
    return c.item in ('from', 'into', 'clone', 'to_owned', 'into_owned', 'borrow', 'deref') or 'convert::' in (c.trait or '') or (c.trait or '').endswith('Clone')


def conversion_problems(ctx, fb, adt):
    """`From<&DecisionVariable | &Parameter>`: EVERY alternative of the returned value is the monomial of the id
       Linear::from(x.id)  |  Linear::single_term(x.id, 1.0)  |  Linear::from(x) (the conversion to Linear), possibly
       wrapped by conversions between function types (`.into()`),
    and no other field of the operand flows into the result (kind, bound, substituted_value, name ... do not change
    which polynomial the operand stands for)."""
    probs = []
    alts, complete = expr_alts(fb, local_op(0))
    if not complete or not alts: probs.append('too many / no alternatives for the result')
    def is_id(t):
        t = T.strip_wrappers(t)
        return t[0] == 'place' and t[1] == 1 and [(f) for a, f in t[2]] == ['id'] and _adt_is(t[2][0][0], adt)
    def is_operand(t):
        t = T.strip_wrappers(t)
        return t[0] == 'place' and t[1] == 1 and not t[2]
    for e in alts:
        t = e
        while t[0] == 'call' and t[1] in ('into', 'from') and len(t[3]) == 1 and t[3][0][0] == 'call': t = t[3][0]
        ok = False
        if t[0] == 'call' and t[1] == 'from' and re.search(r'From<u64> for v1::Linear', t[2]) and is_id(t[3][0]): ok = True
        elif t[0] == 'call' and t[1] == 'single_term' and len(t[3]) == 2 and is_id(t[3][0]) and t[3][1][0] == 'const' and fval(fb, t[3][1][1]) == 1.0: ok = True
        elif t[0] == 'call' and t[1] == 'from' and re.search(r"From<&('\w+ )?%s> for v1::Linear" % re.escape(adt), t[2]) and is_operand(t[3][0]): ok = True
        if not ok: probs.append('a path returns %s' % T.expr_str(e, 3))
    rs = ctx.S.backslice(fb, [0], depth=0)
    other = sorted({f for a, f in rs.fields if _adt_is(a, adt) and f != 'id'})
    if other: probs.append('the result depends on the operand\'s field(s) %s' % other)
    return probs


def deleg_rules(ctx, impls):
    R = 'C02.deleg'
    decided = 0
    for i in impls:
        if not i['methods']: continue
        b = ctx.F.bodies.get(i['methods'][0])
        if b is None:
            bs = ctx.F.method(i['lhs'], i['op'].lower(), trait=i['op'], targs=[i['rhs']] if i['rhs'] else None)
            b = bs[0] if len(bs) == 1 else None
        if b is None:
            ctx.undecided(R, 'T-DELEG', '', 'body of %s %s %s not found' % (i['lhs'], i['op'], i['rhs'])); continue
        ctx.fn(b)
        has_switch = any(b.blocks[bi]['term']['k'] == 'switch' for bi in b.live)
        opcalls = [c for c in b.calls if is_ops_call(c)]
        others = [c for c in b.calls if not is_ops_call(c) and not conv_call(c)]
        f64ops = [(bi, st) for bi, st in b.stmts() if st['rv']['k'] in ('bin', 'un') and st['rv'].get('ty') == 'f64' or (st['rv']['k'] == 'un' and st['rv']['op'] == 'Neg')]
        rid = ('%s/%s_%s_%s' % (R, i['lhs'], i['op'], i['rhs'] or '')).replace(' ', '')
        if i['op'] == 'Neg' and not opcalls and not has_switch and not any(st['rv']['k'] == 'un' and st['rv']['op'] == 'Neg' for bi, st in f64ops) and not any(c.item in ('neg',) for c in others):
            decided += 1
            ctx.bad(rid, 'T-DELEG', b.name, 'Neg performs no negation at all (only conversions)', b.site()); continue
        if has_switch or others or not opcalls or any(st['rv']['k'] == 'bin' for bi, st in f64ops):
            # Not a straight-line delegation.  An impl that DOES delegate (it contains the operator call of the right
            # kind on both operands) must do so on every path: the result of an operator may depend on nothing but the
            # algebra of its operands, so a path that returns around the delegated call (a shortcut keyed on an id, a
            # kind, a flag ...) computes something else.  The kernels whose operator call legitimately sits in one
            # branch only (BRANCH_KERNELS) are decided path by path in C02.branches instead.
            want = DELEGATES_TO[i['op']]; need = {1} if i['op'] == 'Neg' else {1, 2}
            valid = [c for c in opcalls if ops_kind(c.trait) in want and need <= set().union(*[ctx.S.slice_operand(b, a).params for a in c.args])]
            # the built-in operator on f64 payloads (the Constant/Constant arm of Function) is the same operation
            fbin = {bi for bi, st in b.stmts() if st['rv']['k'] == 'bin' and st['rv'].get('ty') == 'f64' and st['rv']['op'] in want
                    and need <= set().union(*[ctx.S.slice_operand(b, o).params for o in st['rv']['ops']])}
            if valid and (i['lhs'], i['op'], i['rhs']) not in BRANCH_KERNELS and (i['lhs'], i['op'], i['rhs']) not in NEW_KERNEL_SHAPES:
                if not T.must_pass(b, 0, return_blocks(b), {c.bb for c in valid} | fbin):
                    decided += 1
                    ctx.bad(rid, 'T-DELEG', b.name, 'the impl delegates to `%s` of its operands, but not on every path: a path returns without it (the result of an operator may not depend on anything but the algebra of its operands)' % '/'.join(want), b.site(valid[0].bb)); continue
                weakly(ctx, rid, 'T-DELEG', b, 'not a straight-line delegation; every path returns through the operator applied to both operands'); continue
            t3 = (i['lhs'], i['op'], i['rhs'])
            if t3 not in PINNED_KERNELS and (opcalls or others or has_switch):
                # a delegation of the pinned tree was replaced by a hand-written body
                if t3 in NEW_KERNEL_SHAPES:
                    ctx.undecided(rid, 'T-DELEG', b.site(), 'hand-written body in place of a delegation: decided by the kernel rules of C02.branches'); continue
                rs0 = ctx.S.backslice(b, [0])
                neg_ok = i['op'] not in ('Sub', 'Neg') or any(ops_kind(c.trait) in ('Sub', 'Neg') for c in opcalls) or \
                    any(st['rv']['k'] == 'un' and st['rv']['op'] == 'Neg' or st['rv']['k'] == 'bin' and st['rv']['op'] == 'Sub' and st['rv'].get('ty') == 'f64' for bi, st in b.stmts()) or any(fval(b, cv) == -1.0 for cv in rs0.consts)
                if need <= rs0.params and neg_ok:
                    weakly(ctx, rid, 'T-DELEG', b, 'hand-written body in place of a delegation, no kernel rule for this shape; the result depends on %s%s' % ('both operands' if len(need) == 2 else 'the operand', ' and a negation / subtraction is applied' if i['op'] in ('Sub', 'Neg') else '')); continue
                decided += 1
                ctx.bad(rid, 'T-DELEG', b.name, 'hand-written body in place of a delegation: the result does not depend on both operands%s' % (' or nothing is negated / subtracted' if i['op'] in ('Sub', 'Neg') else ''), b.site()); continue
            ctx.undecided(rid, 'T-DELEG', b.site(), 'hand-written kernel (not a pure delegation)'); continue
        decided += 1
        kinds = [re.search(r'ops::(Add|Sub|Mul|Neg)$', c.trait).group(1) for c in opcalls]
        probs = []
        op = i['op']
        last = opcalls[-1]
        # the value returned is the result of the last operator call
        rs = ctx.S.backslice(b, [0])
        if last not in rs.call_objs: probs.append('result of the delegated operation is not returned')
        if op in ('Add', 'Mul'):
            if any(k != op for k in kinds): probs.append('%s delegates to %s' % (op, kinds))
            if len(opcalls) != 1: probs.append('more than one operator call')
            need = {1, 2}
            if not need <= ctx.S.slice_operand(b, last.args[0]).params | ctx.S.slice_operand(b, last.args[1]).params: probs.append('an operand is ignored')
            a0 = ctx.S.slice_operand(b, last.args[0]).params; a1 = ctx.S.slice_operand(b, last.args[1]).params
            if a0 == a1 and len(a0) == 1: probs.append('both operands of the delegated call derive from the same parameter')
        elif op == 'Sub':
            adds = [c for c in opcalls if c.trait.endswith('ops::Add')]; negs = [c for c in opcalls if c.trait.endswith('ops::Neg')]
            negf = [(bi, st) for bi, st in b.stmts() if st['rv']['k'] == 'un' and st['rv']['op'] == 'Neg']
            if len(adds) != 1 or (len(negs) + len(negf)) != 1 or len(opcalls) != len(adds) + len(negs): probs.append('Sub must be lhs + (-rhs); found calls %s' % kinds)
            else:
                # the negation is applied to something derived from rhs only, and that negated value is the second operand of the Add
                if negs:
                    ns = ctx.S.slice_operand(b, negs[0].args[0]).params
                    neg_dst = negs[0].dst['l']
                else:
                    ns = ctx.S.slice_operand(b, negf[0][1]['rv']['ops'][0]).params
                    neg_dst = negf[0][1]['dst']['l']
                if ns != {2}: probs.append('the negation is applied to %s, not to the right operand' % sorted(ns))
                a0 = ctx.S.slice_operand(b, adds[0].args[0]); a1 = ctx.S.slice_operand(b, adds[0].args[1])
                if not (1 in a0.params and 2 not in a0.params and neg_dst in a1.locals): probs.append('Add is not applied to (lhs, -rhs)')
        elif op == 'Neg':
            muls = [c for c in opcalls if c.trait.endswith('ops::Mul')]; negs = [c for c in opcalls if c.trait.endswith('ops::Neg')]
            if len(muls) == 1 and not negs:
                cs = [fval(b, a['v']) for a in muls[0].args if a['k'] == 'const']
                if cs != [-1.0]: probs.append('Neg multiplies by %s, not by -1' % cs)
                if 1 not in (ctx.S.slice_operand(b, muls[0].args[0]).params | ctx.S.slice_operand(b, muls[0].args[1]).params): probs.append('self is ignored')
            elif len(negs) == 1 and not muls:
                if 1 not in ctx.S.slice_operand(b, negs[0].args[0]).params: probs.append('self is ignored')
            else:
                probs.append('Neg is neither `self * -1` nor `-(converted self)`; calls %s' % kinds)
        ctx.check(not probs, rid, 'T-DELEG', b.name, '; '.join(probs), b.site(), calls=kinds)
    ctx.floor(R, 100)
    # conversions used by the delegations keep the id
    # conversions used by the delegations: a variable / parameter is the monomial 1.0 * x_id, whatever else it carries
    for ty in ('&v1::Parameter', '&v1::DecisionVariable'):
        adt = ty.lstrip('&')
        for target in ('v1::Linear', 'v1::Quadratic', 'v1::Polynomial', 'v1::Function'):
            fb = ctx.F.one(target, 'from', trait='From', targs=[ty])
            rid = 'C02.from/' + ty + ('' if target == 'v1::Linear' else '->' + target.split('::')[-1])
            if fb is None:
                ctx.lost(rid, 'From<%s> for %s' % (ty, target)); continue
            ctx.fn(fb)
            probs = conversion_problems(ctx, fb, adt)
            ctx.check(not probs, rid, 'T-CARRY', fb.name, '%s::from(%s) is not the single term 1.0 * x_id on every path, built from the id alone: %s' % (target.split('::')[-1], ty, '; '.join(probs)), fb.site())
    fb = ctx.F.one('v1::Linear', 'from', trait='From', targs=['u64'])
    if fb is not None:
        ex = [c for c in fb.calls if c.item == 'single_term']
        ok = len(ex) == 1 and T.strip_wrappers(T.expr(fb, ex[0].args[0])) == ('place', 1, []) and (ex[0].args[1]['k'] == 'const' and fval(fb, ex[0].args[1]['v']) == 1.0)
        ctx.check(ok, 'C02.from/u64', 'T-CONST', fb.name, 'Linear::from(id) is not single_term(id, 1.0)', fb.site())


# =============================================================================== shared helpers
# Everything below is formulated on dataflow (what a value is computed from, which store every path
# passes) and on tables of equivalent idioms; nothing counts loops, calls or statements.

SCALARS = ('f64', 'u64', 'i64', 'usize', 'bool', 'i32', 'u32')
MAP_RE = re.compile(r'BTreeMap|HashMap|btree_map::|hash_map::')
RESTRICT_RE = re.compile(r'Iterator>::(take|skip|filter|step_by|take_while|skip_while|filter_map|nth|map_while|rev_take)\b')


def whole_defs(b, l):
    return [d for d in b.defs_of(l) if not (d[0] == 'stmt' and d[2]['dst']['p'])]


def callmap(b):
    return {c.bb: c for c in b.calls}


def memo(ctx, kind):
    """per-check cache (kept on the context, so the release twin / another slicer never sees it)"""
    return ctx.__dict__.setdefault('_c02_' + kind, {})


# ---- Option / Result combinators with closures ------------------------------------------------
# each is a `match` on the receiver (one comment per entry); arm 0 = Some/Ok, arm 1 = None/Err:
COMBINATORS = {
    'map':            'Some(x) => Some(f(x)),  None => None          (Result: Ok(x) => Ok(f(x)), Err(e) => Err(e))',
    'and_then':       'Some(x) => f(x),        None => None',
    'map_or':         'Some(x) => f(x),        None => default       (args: receiver, default, f)',
    'map_or_else':    'Some(x) => f(x),        None => g()           (args: receiver, g, f)',
    'unwrap_or_else': 'Some(x) => x,           None => g()',
    'or_else':        'Some(x) => Some(x),     None => g()',
}
SOME = 'std::option::Option::Some'; NONE = 'std::option::Option::None'; OK_ = 'std::result::Result::Ok'


def combinator_of(c):
    if c.item not in COMBINATORS: return None
    m = re.match(r'std::(option::Option|result::Result)::<', c.name)
    return (c.item, 'opt' if 'Option' in m.group(1) else 'res') if m else None


def _attach(base, fs):
    if not fs: return base
    if base[0] == 'place': return ('place', base[1], base[2] + fs) + tuple(base[3:4])
    if base[0] == 'proj': return ('proj', base[1], base[2] + fs)
    return ('proj', base, fs)


def closure_value(b, clo_operand, arg_trees, sub):
    """the value a closure returns, as an expression tree over the CALLER's values: the closure body's
    result with its parameters replaced by arg_trees and its captured variables by what was captured.
    None if the operand is not a closure created here or its result is not a single expression."""
    o = clo_operand
    for _ in range(6):
        if o['k'] not in ('copy', 'move') or o['pl']['p']: return None
        ds = whole_defs(b, o['pl']['l'])
        if len(ds) != 1 or ds[0][0] != 'stmt': return None
        rv = ds[0][2]['rv']
        if rv['k'] == 'use': o = rv['ops'][0]; continue
        if rv['k'] == 'agg' and rv['adt'].startswith('closure:'): break
        return None
    else:
        return None
    F = getattr(b, 'facts', None)
    cb = F.bodies.get(rv['adt'][8:]) if F is not None else None
    if cb is None or cb.argc - 1 != len(arg_trees): return None
    alts, complete = expr_alts(cb, local_op(0), cap=4)
    if not complete or len(alts) != 1: return None
    caps = [sub(x) for x in rv['ops']]

    def subst(e):
        k = e[0]
        if k == 'place':
            l, fs = e[1], list(e[2])
            if l == 1:
                if fs and fs[0][1].isdigit() and int(fs[0][1]) < len(caps): return _attach(caps[int(fs[0][1])], fs[1:])
                return ('local', -1)
            if 2 <= l <= cb.argc: return _attach(arg_trees[l - 2], fs)
            return ('local', -1)
        if k == 'local': return ('local', -1)            # a value internal to the closure: opaque
        if k == 'call': return ('call', e[1], e[2], [subst(a) for a in e[3]], -1)
        if k == 'proj': return _attach(subst(e[1]), list(e[2]))
        if k == 'bin': return ('bin', e[1], subst(e[2]), subst(e[3]))
        if k in ('un', 'cast'): return (k, e[1], subst(e[2]))
        if k == 'agg': return ('agg', e[1], [subst(a) for a in e[2]])
        if k == 'discr': return ('discr', subst(e[1]))
        return e
    return subst(alts[0])


def combinator_arms(b, c, sub):
    """[tree of the Some/Ok arm, tree of the None/Err arm] of an Option/Result combinator call, or None"""
    item, kind = combinator_of(c)
    recv = sub(c.args[0])
    payload = _attach(recv, [(SOME if kind == 'opt' else OK_, '0')])
    none = ('agg', NONE, []) if kind == 'opt' else recv
    wrap = (lambda t: ('agg', SOME if kind == 'opt' else OK_, [t]))
    def cl(i, args):
        return closure_value(b, c.args[i], args, sub) if i < len(c.args) else None
    if item == 'map':
        v = cl(1, [payload]); return None if v is None else [wrap(v), none]
    if item == 'and_then':
        v = cl(1, [payload]); return None if v is None else [v, none]
    if item == 'map_or':
        v = cl(2, [payload]); return None if v is None else [v, sub(c.args[1])]
    if item == 'map_or_else':
        v = cl(2, [payload]); g = cl(1, []); return None if v is None or g is None else [v, g]
    if item == 'unwrap_or_else':
        g = cl(1, []) if kind == 'opt' else None; return None if g is None else [payload, g]
    if item == 'or_else':
        g = cl(1, []) if kind == 'opt' else None; return None if g is None else [recv, g]
    return None


def _expr_env(b, operand, env, multi, depth, stack):
    """T.expr with one difference: a local with several whole-value definitions (the value of an
    `if` / `match` expression, a `let x; if .. {x = a} else {x = b}`) is resolved by `env`
    (local -> index of the chosen definition); unresolved ones are reported in `multi`.
    Leaves that are places carry the original place as 4th element (for precise slicing)."""
    if operand['k'] == 'const': return T.expr(b, operand, min(depth, 6))
    if operand['k'] not in ('copy', 'move'): return ('local', -1)
    pl = operand['pl']; fs = fields_of_place(pl); l = pl['l']
    def leaf(): return ('place', l, fs, pl) if fs else ('local', l)
    if depth <= 0: return leaf()
    if 1 <= l <= b.argc: return ('place', l, fs, pl)
    if l in T._mut_borrowed(b) and b.locals[l] in SCALARS: return leaf()
    defs = whole_defs(b, l)
    if len(defs) != 1:
        if len(defs) < 2 or l in stack: return leaf()
        if l not in env:
            multi.add(l); return leaf()
        defs = [defs[env[l] % len(defs)]]
    k, bi, d = defs[0]
    st2 = stack | {l}
    def sub(o): return _expr_env(b, o, env, multi, depth - 1, st2)
    if k == 'call':
        c = next((x for x in b.calls if x.bb == bi), None)
        if c is None: return leaf()
        if combinator_of(c) and depth > 3:
            # `opt.map(f)` & co. are a `match` written with a closure: fork like one (choice 0 = Some/Ok arm, 1 = the other)
            arms = combinator_arms(b, c, sub)
            if arms is not None:
                key = ('comb', bi)
                if key not in env:
                    multi.add(key); return leaf()
                node = arms[env[key] % 2]
                return _attach(node, fs)
        node = ('call', c.item, c.name, [sub(a) for a in d['args']], bi)
        return ('proj', node, fs) if fs else node
    rv = d['rv']; kk = rv['k']
    if kk == 'use': inner = sub(rv['ops'][0])
    elif kk == 'ref': inner = sub({'k': 'copy', 'pl': rv['pl']})
    elif kk == 'bin': inner = ('bin', rv['op'], sub(rv['ops'][0]), sub(rv['ops'][1]))
    elif kk == 'un': inner = ('un', rv['op'], sub(rv['ops'][0]))
    elif kk == 'cast': inner = ('cast', rv['to'], sub(rv['ops'][0]))
    elif kk == 'agg': inner = ('agg', rv['adt'], [sub(o) for o in rv['ops']])
    elif kk == 'discr': inner = ('discr', sub({'k': 'copy', 'pl': rv['pl']}))
    else: inner = ('local', l)
    if fs:
        while fs and inner[0] == 'agg' and inner[1] == 'tuple' and fs[0][0] == 'tuple' and fs[0][1].isdigit() and int(fs[0][1]) < len(inner[2]):
            inner = inner[2][int(fs[0][1])]; fs = fs[1:]
        if not fs: return inner
        if inner[0] == 'place': return ('place', inner[1], inner[2] + fs) + tuple(inner[3:4])
        if inner[0] == 'proj': return ('proj', inner[1], inner[2] + fs)
        return ('proj', inner, fs)
    return inner


def expr_alts_env(b, operand, cap=16):
    """[(tree, env)] and completeness: like expr_alts, with the choices that lead to each tree
    (env: multiply-defined local -> index of the chosen definition; ('comb', bb) -> 0 Some/Ok arm, 1 other arm)"""
    out = []; work = [{}]; complete = True
    while work:
        if len(out) >= cap: complete = False; break
        env = work.pop()
        multi = set()
        e = _expr_env(b, operand, env, multi, 24, frozenset())
        if not multi: out.append((e, env)); continue
        l = min(multi, key=str)
        for i in range(2 if isinstance(l, tuple) else len(whole_defs(b, l))): work.append({**env, l: i})
    return out, complete


def expr_alts(b, operand, cap=16):
    """every way `operand` can be computed: one expression tree per consistent choice among the
    definitions of the multiply-defined locals it goes through (choices are correlated: a local used
    twice gets the same definition both times).  Returns (trees, complete)."""
    out, complete = expr_alts_env(b, operand, cap)
    return [e for e, env in out], complete


def local_op(l):
    return {'k': 'copy', 'pl': {'l': l, 'p': []}}


# product iterators: every item is a tuple (x, y) with x from the first and y from the second iterator, every combination once
#   a.cartesian_product(b)      (itertools; also what `iproduct!(a, b)` expands to)
# (`a.flat_map(|x| b.map(move |y| (x, y)))` is turned into the loop nest by the normal form)
PRODUCT_ITEMS = ('cartesian_product',)


def product_args(tree):
    """[left iterator tree, right iterator tree] if the iterator tree is a product iterator (looked at through into_iter /
    by_ref / references), else None"""
    t = tree
    for _ in range(6):
        t = T.strip_wrappers(t)
        if t[0] != 'call' or not t[3]: return None
        if t[1] in PRODUCT_ITEMS and len(t[3]) == 2: return [t[3][0], t[3][1]]
        if t[1] in ('into_iter', 'by_ref', 'iter'): t = t[3][0]; continue
        return None
    return None


def expr_params(ctx, b, e):
    """parameters the leaves of an expression tree derive from.  Component k of an item of a product iterator derives from
    the k-th factor only."""
    k = e[0]
    if k == 'place':
        if 1 <= e[1] <= b.argc: return {e[1]}
        return set(ctx.S.backslice(b, [node_of(e[3])] if len(e) > 3 else [e[1]]).params)
    if k == 'local': return set(ctx.S.backslice(b, [e[1]]).params) if e[1] >= 0 else set()
    if k == 'proj':
        inner = e[1]
        if inner[0] == 'call' and inner[1] == 'next' and inner[3]:
            pa = product_args(inner[3][0])
            tf = [f for a, f in e[2] if a == 'tuple']
            if pa and tf and tf[0].isdigit() and int(tf[0]) < 2: return expr_params(ctx, b, pa[int(tf[0])])
        return expr_params(ctx, b, inner)
    ps = set()
    for x in e[1:]:
        if isinstance(x, tuple) and x and isinstance(x[0], str): ps |= expr_params(ctx, b, x)
        elif isinstance(x, list):
            for y in x:
                if isinstance(y, tuple) and y and isinstance(y[0], str): ps |= expr_params(ctx, b, y)
    return ps


def expr_has_field(e, adt, field):
    return any(f == field and (a == adt or a.endswith('::' + adt)) for a, f in T.expr_fields(e))


def ops_kind(name_or_trait):
    m = re.search(r'ops::(Add|Sub|Mul|Neg)\b', name_or_trait or '')
    return m.group(1) if m else None


def ops_calls_in(e, kind):
    """operator-trait call nodes of an expression tree"""
    return [x for x in T.expr_calls(e) if x[1] == kind.lower() and ops_kind(x[2]) == kind]


# ---- stores to a field ----------------------------------------------------------------------
# equivalent ways of giving `x.field` a value (one comment per idiom):
#   x.field = v                      assignment statement
#   X { field: v, .. }               aggregate of the ADT
#   x.field.insert(v) / replace(v) / get_or_insert(v) / get_or_insert_with(..)   Option in-place setters
OPTION_SETTERS = ('insert', 'replace', 'get_or_insert', 'get_or_insert_with')


def _adt_is(a, adt):
    return a == adt or a.endswith('::' + adt)


def field_stores(b, adt, field):
    """[(bb, value operand or None, rvalue or None)] for every store to adt.field in body b"""
    out = []
    for bi, st in b.stmts():
        fs = fields_of_place(st['dst'])
        if st['dst']['p'] and fs and fs[-1][1] == field and _adt_is(fs[-1][0], adt):
            rv = st['rv']
            out.append((bi, rv['ops'][0] if rv['k'] == 'use' else None, rv))
        rv = st['rv']
        if rv['k'] == 'agg' and _adt_is(rv['adt'], adt) and field in rv['fields']:
            out.append((bi, rv['ops'][rv['fields'].index(field)], None))
    for c in b.calls:
        if c.item in OPTION_SETTERS and 'Option' in c.name and len(c.args) >= 2:
            fs = T.access_path(b, c.args[0])[0]
            if fs and fs[-1][1] == field and _adt_is(fs[-1][0], adt): out.append((c.bb, c.args[1], None))
    return out


def live_stores(b, stores):
    """stores whose value can still be there at a return: not overwritten by another store on every path to a return
    (temporaries built with `X { linear: None, ..x }` and then replaced by `out.linear = ..` do not count)"""
    rets = return_blocks(b); out = []
    for x in stores:
        others = {y[0] for y in stores if y is not x and y[0] != x[0]}
        if others and all(T.must_pass(b, n, rets, others) for n in b.succ(x[0])): continue
        out.append(x)
    return out


def store_alts(b, store):
    bi, op, rv = store
    if op is not None: return expr_alts(b, op)
    return [T._rv_expr(b, rv)], True


def return_blocks(b):
    return set(b.return_blocks())


# ---- merging into a map ---------------------------------------------------------------------
# equivalent ways of `map[key] += v` (one comment per idiom):
#   *map.entry(k).or_default() += v / .or_insert(0.0) / .or_insert_with(..)      in-place add through the entry
#   match map.entry(k) { Occupied(e) => *e.get_mut() += v, Vacant(e) => e.insert(v) }
#   if let Some(x) = map.get_mut(&k) { *x += v } else { map.insert(k, v) }       get + insert
#   map.insert(k, map.get(&k).copied().unwrap_or(0.0) + v)                        insert of old + v
#   map.entry(k).and_modify(|x| *x += v).or_insert(v)
# An add site is an f64 `+` / `+=` whose one operand is read through a lookup in the map; an insert site
# counts only where a lookup in a map decides that the key is absent.
LOOKUP_ITEMS = ('entry', 'get', 'get_mut', 'contains_key', 'get_key_value')


def _lookup_nodes(e):
    """calls of the map's own lookup methods (not of an Entry / OccupiedEntry object)"""
    return [x for x in T.expr_calls(e) if x[1] in LOOKUP_ITEMS and re.search(r'(BTreeMap|HashMap)::<', x[2]) and 'Entry' not in x[2].split('::<')[0]]


def _closure_has_f64_add(ctx, cname):
    cb = ctx.F.bodies.get(cname)
    if cb is None: return False
    return any(st['rv']['k'] == 'bin' and st['rv']['op'] == 'Add' and st['rv'].get('ty') == 'f64' for bi, st in cb.stmts()) or \
           any(T.ASSIGN_CALL.match(c.name) and 'AddAssign' in c.name for c in cb.calls)


def accum_sites(ctx, b):
    """sites where a value is merged into / put into a map.
    [dict(bb, kind, key=operand, val=operand, map=root local)] with kind
      'add'        the value is added to what the map holds for the key (in place, or as `old + v` that is inserted)
      'insert'     plain insert where a lookup has just decided that the key is absent
      'sum-insert' insert of a sum `old + v` (its 'add' site is where the sum is computed)
      'overwrite'  plain insert not guarded by a lookup: an existing entry for the key is lost"""
    cache = memo(ctx, 'accum')
    if b.name in cache: return cache[b.name]
    cache[b.name] = []                      # recursion guard (helper calls are followed)
    sites = []
    cm = callmap(b)

    def from_lookup(ptr_operand):
        e = T.expr(b, ptr_operand)
        ls = _lookup_nodes(e)
        if not ls: return None
        c = cm[ls[0][4]]
        return c

    def site(bb, kind, look_call, val, key=None, mp=None):
        if look_call is not None:
            key = look_call.args[1] if len(look_call.args) > 1 else None
            mp = T.access_path(b, look_call.args[0], transparent=T.TRANSPARENT_NOCLONE)[1]
        sites.append(dict(bb=bb, kind=kind, key=key, val=val, map=mp))

    for bi, st in b.stmts():
        rv = st['rv']
        if rv['k'] == 'bin' and rv['op'] == 'Add' and rv.get('ty') == 'f64' and st['dst']['p']:
            others = [o for o in rv['ops'] if not (o['k'] in ('copy', 'move') and o['pl'] == st['dst'])]
            if len(others) != 1: continue
            c = from_lookup(local_op(st['dst']['l']))
            if c is not None: site(bi, 'add', c, others[0])
    for c in b.calls:
        if T.ASSIGN_CALL.match(c.name) and 'AddAssign' in c.name:
            lc = from_lookup(c.args[0])
            if lc is not None: site(c.bb, 'add', lc, c.args[1])
        elif c.item == 'insert' and (MAP_RE.search(c.name) or 'VacantEntry' in c.name):
            val = c.args[-1]
            if 'VacantEntry' in c.name:
                lc = from_lookup(c.args[0]); key = lc.args[1] if lc is not None and len(lc.args) > 1 else None
                mp = T.access_path(b, lc.args[0], transparent=T.TRANSPARENT_NOCLONE)[1] if lc is not None else None
            else:
                key = c.args[1] if len(c.args) == 3 else None
                mp = T.access_path(b, c.args[0], transparent=T.TRANSPARENT_NOCLONE)[1]
            # insert(k, old + v) with `old` read from the map: the merging happens where the sum is computed
            # (the insert itself may be skipped for a sum that cancels — the documented dropping of ~0 coefficients)
            ve = T.arith(T.expr(b, val))
            if ve[0] == 'bin' and ve[1] == 'Add' and any(_lookup_nodes(x) for x in (ve[2], ve[3])):
                vs = ctx.S.slice_operand(b, val)
                for bi, st in b.stmts():
                    rv = st['rv']
                    if rv['k'] == 'bin' and rv['op'] == 'Add' and rv.get('ty') == 'f64' and not st['dst']['p'] and st['dst']['l'] in vs.locals:
                        looked = [o for o in rv['ops'] if _lookup_nodes(T.expr(b, o))]
                        others = [o for o in rv['ops'] if not _lookup_nodes(T.expr(b, o))]
                        if len(looked) == 1 and len(others) == 1: site(bi, 'add', from_lookup(looked[0]), others[0])
                sites.append(dict(bb=c.bb, kind='sum-insert', key=key, val=val, map=mp))
                continue
            # guarded by a lookup: a switch dominating the insert whose discriminant comes from a lookup in a map
            guarded = False
            for sb in b.dom.get(c.bb, ()):
                t = b.blocks[sb]['term']
                if t['k'] == 'switch' and t['d']['k'] != 'const' and _lookup_nodes(T.expr(b, t['d'])):
                    guarded = True
            if 'VacantEntry' in c.name: guarded = True          # a vacant entry exists only for an absent key
            sites.append(dict(bb=c.bb, kind='insert' if guarded else 'overwrite', key=key, val=val, map=mp))
        elif c.item in ('or_insert', 'or_insert_with') and MAP_RE.search(c.name) and len(c.args) == 2:
            # .and_modify(|x| *x += v).or_insert(v)
            e = T.expr(b, c.args[0])
            am = [x for x in T.expr_calls(e) if x[1] == 'and_modify']
            if am and any(_closure_has_f64_add(ctx, cl) for cl in ctx.S.slice_operand(b, cm[am[0][4]].args[1]).closures):
                lc = from_lookup(c.args[0])
                if lc is not None: site(c.bb, 'add', lc, c.args[1])
    # a call of a helper that does the merging (a crate function the normal form did not inline because it
    # exists on the pinned tree, or a local closure used as a helper): `for t in terms { add_into(&mut map, t) }`
    for c in b.calls:
        cb = helper_body(ctx, b, c)
        if cb is None or cb.name == b.name: continue
        inner = accum_sites(ctx, cb)
        adds = [x for x in inner if x['kind'] == 'add']
        if not adds or any(x['kind'] == 'overwrite' for x in inner): continue
        via = {x['bb'] for x in inner if x['kind'] in ('add', 'insert')}
        if not T.must_pass(cb, 0, return_blocks(cb), via): continue      # merges on every path through the helper
        maps = [l for a in c.args for l in ctx.S.slice_operand(b, a).locals if MAP_RE.search(b.locals[l]) and not b.locals[l].lstrip().startswith('&')]
        sites.append(dict(bb=c.bb, kind='add', key=None, val=None, map=maps[0] if maps else None, inner=(cb, adds), args=c.args))
    cache[b.name] = sites
    return sites


def helper_body(ctx, b, c):
    """body run by a call that may be a merging helper: a crate fn, or a closure created in this body and called directly"""
    if c.item in ('call', 'call_mut', 'call_once') and re.search(r'ops::Fn(Mut|Once)?\b', c.trait or '') and c.args:
        cls = ctx.S.slice_operand(b, c.args[0]).closures
        if len(cls) == 1: return ctx.F.bodies.get(next(iter(cls)))
        return None
    cb = ctx.F.bodies.get(c.path) or ctx.F.bodies.get(c.name)
    return cb if cb is not None and cb.kind in ('fn', 'closure') else None     # a direct closure call is resolved to the closure body


def site_reads(ctx, b, s, which, adt, field):
    """the key / value merged at an add site is built from adt.field — seen at the site, or, for a helper call,
    inside the helper or in the arguments handed to it"""
    if s.get('inner'):
        cb, adds = s['inner']
        if any(x[which] is not None and ctx.S.slice_operand(cb, x[which]).has_field(adt, field) for x in adds): return True
        return any(ctx.S.slice_operand(b, a).has_field(adt, field) for a in s['args'])
    return s[which] is not None and ctx.S.slice_operand(b, s[which]).has_field(adt, field)


def loops_of(ctx, b):
    """`for`-style loops with what their iterator derives from: [dict(lo, call, header, some, none, blocks, it=Slice)]"""
    cache = memo(ctx, 'loops')
    if b.name in cache: return cache[b.name]
    out = []
    for lo in T.for_loops(b):
        c, header, some_bb, none_bb, blocks = lo
        out.append(dict(lo=lo, call=c, header=header, some=some_bb, none=none_bb, blocks=blocks, it=ctx.S.slice_operand(b, c.args[0])))
    cache[b.name] = out
    return out


def innermost_loop(loops, bb):
    best = None
    for L in loops:
        if bb in L['blocks'] and (best is None or len(L['blocks']) < len(best['blocks'])): best = L
    return best


def restricted(it_slice):
    """element-dropping adaptors applied in THIS body to the iterator (callee summaries are not consulted:
    `IntoIterator for &Linear` legitimately filters zero coefficients)"""
    return sorted({m.group(1) for c in it_slice.call_objs for m in [RESTRICT_RE.search(c.name)] if m})


EPS = 2.220446049250313e-16


def _negligible_cmp(body, st):
    """+1 / -1 if the f64 comparison statement is `|x| <= EPSILON` (true = negligible) / `|x| > EPSILON` (false = negligible), else 0"""
    rv = st['rv']
    if rv['k'] != 'bin' or rv['op'] not in ('Le', 'Lt', 'Gt', 'Ge') or rv.get('ty') != 'f64': return 0
    a, c = rv['ops']
    def eps(o): return o['k'] == 'const' and fval(body, o['v']) is not None and 0 < fval(body, o['v']) <= 1e-9
    def absv(o): return any(x[1] == 'abs' for x in T.expr_calls(T.expr(body, o)))
    if eps(c) and absv(a): return 1 if rv['op'] in ('Le', 'Lt') else -1
    if eps(a) and absv(c): return 1 if rv['op'] in ('Ge', 'Gt') else -1
    return 0


def negligible_targets(b):
    """blocks entered only when a coefficient is negligible (|x| <= EPSILON): the documented dropping of coefficients below
    machine epsilon.  The test may be written in place or in a closure / helper that returns it (`let negligible = |v| ..`)."""
    out = set()
    for bi, st in b.stmts():
        pol = _negligible_cmp(b, st)
        if pol:
            for g in T.guards_from_local(b, st['dst']['l'], bi):
                t = g.true_bb if pol > 0 else g.false_bb
                if t is not None: out.add(t)
    F = getattr(b, 'facts', None)
    for c in b.calls:
        cb = F.bodies.get(c.path) if F is not None else None
        if cb is None or cb.locals[0] != 'bool': continue
        pols = {_negligible_cmp(cb, st) for bi, st in cb.stmts()} - {0}
        if len(pols) != 1 or any(bl['term']['k'] == 'switch' for bl in cb.blocks): continue
        for g in T.guards_from_call(b, c):
            t = g.true_bb if next(iter(pols)) > 0 else g.false_bb
            if t is not None: out.add(t)
    return out


def loop_merges(b, L, sites):
    """every pass through the body of loop L goes through an add site or a lookup-guarded insert of the map -- or leaves
    the item out because its coefficient is negligible (documented dropping)"""
    via = {s['bb'] for s in sites if s['bb'] in L['blocks'] and s['kind'] in ('add', 'insert')}
    via |= {t for t in negligible_targets(b) if t in L['blocks']}
    adds = [s for s in sites if s['bb'] in L['blocks'] and s['kind'] == 'add']
    return bool(adds) and T.must_pass(b, L['some'], {L['header']}, via), adds


def weakly(ctx, rid, template, b, why):
    """the precise shape was not recognised, but the weaker necessary condition of the same clause was
    checked and holds: the precise instance is undecided, the weaker one is a decided instance"""
    ctx.undecided(rid, template, b.site(), why)
    ctx.ok(rid + '/weaker', template, b.site(), why=why)


def crate_callees(ctx, c):
    """crate bodies a call may run: the resolved callee, or — for `it.collect::<T>()` / `T::from_iter(it)` with
    a crate type T — every `FromIterator` impl of T (the item type is not visible at the call)"""
    cb = ctx.F.bodies.get(c.path) or ctx.F.bodies.get(c.name)
    if cb is not None: return [cb] if cb.kind == 'fn' else []
    if c.item in ('collect', 'from_iter') and c.gargs:
        ty = c.gargs[-1] if c.item == 'collect' else c.gargs[0]
        return [x for x in ctx.F.method(ty, 'from_iter', trait='FromIterator') if x.kind == 'fn']
    # `x.into()` / `x.try_into()` are std's blanket impls over the crate's `From<T> for U` / `TryFrom<T> for U`
    if c.item in ('into', 'try_into') and (c.trait or '').endswith(('convert::Into', 'convert::TryInto')) and len(c.gargs) >= 2:
        src, dst = c.gargs[0], c.gargs[1]
        tr, it = ('From', 'from') if c.item == 'into' else ('TryFrom', 'try_from')
        return [x for x in ctx.F.method(dst, it, trait=tr, targs=[src]) if x.kind == 'fn']
    return []


def cone_plus(ctx, b, depth=4):
    """call-graph cone of b, also through the calls the fact driver leaves at std's generic entry points
    (`.into()`, `.collect::<T>()`, `T::from_iter`): crate_callees resolves them to the crate's impls"""
    seen = {}; work = [(b, 0)]
    while work:
        x, d = work.pop()
        for cb in cone_of(ctx, x):
            if cb.name in seen: continue
            seen[cb.name] = cb
            if d >= depth: continue
            for c in cb.calls:
                if ctx.F.bodies.get(c.path) is not None or ctx.F.bodies.get(c.name) is not None: continue     # already in the cone
                for y in crate_callees(ctx, c):
                    if y.name not in seen: work.append((y, d + 1))
    return list(seen.values())


def call_sink_params(ctx, c, _depth=0):
    """parameters of call c whose iterator is merged item by item by every body the call may run"""
    cbs = crate_callees(ctx, c)
    if not cbs: return set()
    out = None
    for cb in cbs:
        ps = merge_sink_params(ctx, cb, _depth)
        out = ps if out is None else out & ps
    return out or set()


# ---- merging the neighbours of a sorted vector ------------------------------------------------
# `v.sort*(); v.dedup_by(|a, b| ..)`: std calls the closure with a = the element that is REMOVED when it returns true and
# b = the previous element, which is RETAINED.  Equal keys are merged correctly only by adding the removed element into
# the retained one (`b.1 += a.1; true`); `a.1 += b.1` accumulates into the element that is thrown away.
# dedup() / dedup_by_key() never accumulate: the coefficients of repeated keys are lost.
def closure_body_of(ctx, b, o):
    """body of the closure an operand holds (the closure aggregate is found through plain moves / copies)"""
    for _ in range(6):
        if o['k'] not in ('copy', 'move') or o['pl']['p']: return None
        ds = whole_defs(b, o['pl']['l'])
        if len(ds) != 1 or ds[0][0] != 'stmt': return None
        rv = ds[0][2]['rv']
        if rv['k'] == 'use': o = rv['ops'][0]; continue
        if rv['k'] == 'ref': o = {'k': 'copy', 'pl': rv['pl']}; continue
        if rv['k'] == 'agg' and rv['adt'].startswith('closure:'): return ctx.F.bodies.get(rv['adt'][8:])
        return None
    return None


def dedup_calls(ctx, b):
    """[(call, verdict, why)] for the dedup* calls on vectors in body b; verdict 'merge' = sorted before and the removed
    element is added into the retained one, 'loss' otherwise"""
    out = []
    for c in b.calls:
        if c.item not in ('dedup', 'dedup_by', 'dedup_by_key') or 'Vec' not in c.name or not c.args: continue
        if c.item != 'dedup_by' or len(c.args) < 2:
            out.append((c, 'loss', '%s keeps the first of equal neighbours and drops the others' % c.item)); continue
        cb = closure_body_of(ctx, b, c.args[1])
        if cb is None or cb.argc != 3:
            out.append((c, 'loss', 'dedup_by with a function that cannot be inspected')); continue
        def root(o):
            return T.access_path(cb, o, transparent=T.TRANSPARENT_NOCLONE)[1] if o['k'] in ('copy', 'move') else None
        adds = []       # (root of the element added to, root of the element added)
        for bi, st in cb.stmts():
            rv = st['rv']
            if rv['k'] == 'bin' and rv['op'] == 'Add' and rv.get('ty') == 'f64' and st['dst']['p']:
                others = [o for o in rv['ops'] if not (o['k'] in ('copy', 'move') and o['pl'] == st['dst'])]
                if len(others) == 1: adds.append((root({'k': 'copy', 'pl': st['dst']}), root(others[0])))
        for x in cb.calls:
            if T.ASSIGN_CALL.match(x.name) and 'AddAssign' in x.name and len(x.args) == 2: adds.append((root(x.args[0]), root(x.args[1])))
        root_b = T.access_path(b, c.args[0], transparent=T.TRANSPARENT_NOCLONE)[1]
        sorts = [x for x in b.calls if SORT_ITEMS.match(x.item) and x.args and x.args[0]['k'] in ('copy', 'move')
                 and T.access_path(b, x.args[0], transparent=T.TRANSPARENT_NOCLONE)[1] == root_b and root_b is not None]
        if (3, 2) in adds and not any(t == 2 for t, f in adds):
            if sorts and T.must_pass(b, 0, {c.bb}, {x.bb for x in sorts}): out.append((c, 'merge', ''))
            else: out.append((c, 'loss', 'the vector is not sorted on every path before dedup_by: equal keys need not be neighbours'))
        elif any(t == 2 for t, f in adds):
            out.append((c, 'loss', 'dedup_by accumulates into its FIRST closure argument, the element that is removed: the sum is thrown away'))
        else:
            out.append((c, 'loss', 'dedup_by does not add the removed element into the retained one'))
    return out


def dedup_merge_params(ctx, body):
    """parameters whose items are collected into a vector that is sorted and merged by a correct dedup_by, the result
    being built from that vector"""
    rs = ctx.S.backslice(body, [0]); out = set()
    for c, verdict, why in dedup_calls(ctx, body):
        if verdict != 'merge': continue
        sl = ctx.S.slice_operand(body, c.args[0])
        if len(sl.params) == 1 and not restricted(sl) and (sl.locals & rs.locals): out |= sl.params
    return out


def merge_sink_params(ctx, body, _depth=0):
    """parameters i of a crate function such that every item of the iterator passed as parameter i is
    merged into a map by `map[item key] += item value`, and the result is built from that map
    (Linear::new, the FromIterator impls of Linear / Quadratic / Polynomial on the pinned tree — decided
    from the body, not from the name)."""
    cache = memo(ctx, 'sinks')
    if body.name in cache: return cache[body.name]
    cache[body.name] = set()
    out = set()
    sites = accum_sites(ctx, body)
    rs = ctx.S.backslice(body, [0])
    for L in loops_of(ctx, body):
        ps = L['it'].params
        if len(ps) != 1 or restricted(L['it']): continue
        ok, adds = loop_merges(body, L, sites)
        if not ok: continue
        if any(s['kind'] == 'overwrite' and s['bb'] in L['blocks'] for s in sites): continue
        if not all(s['map'] is not None and s['map'] in rs.locals for s in adds): continue
        out |= ps
    if _depth < 3:
        # the result is the result of another sink fed with the parameter (from_iter -> new)
        for c in body.calls:
            if c not in rs.call_objs: continue
            if body in crate_callees(ctx, c): continue
            for j in call_sink_params(ctx, c, _depth + 1):
                if j - 1 < len(c.args):
                    s = ctx.S.slice_operand(body, c.args[j - 1])
                    if len(s.params) == 1 and not restricted(s): out |= s.params
    dd = dedup_calls(ctx, body)
    out |= dedup_merge_params(ctx, body)
    for c, verdict, why in dd:
        if verdict == 'loss':
            sl = ctx.S.slice_operand(body, c.args[0])
            if sl.locals & rs.locals: out -= sl.params           # what is merged is thinned out again without accumulation
    cache[body.name] = out
    return out


def result_field_source(ctx, body, adt, field, _depth=0):
    """how field adt.field of the value returned by a crate function is produced:
    ('param', j) if it is parameter j verbatim, ('expr', tree) otherwise, None if not recognised"""
    alts, complete = expr_alts(body, local_op(0))
    if not complete or len(alts) != 1: return None
    e = T.strip_wrappers(alts[0])
    if e[0] == 'agg' and _adt_is(e[1], adt):
        for bi, st in find_aggregates(body, adt):
            if field in st['rv']['fields']:
                v = T.arith(T.expr(body, st['rv']['ops'][st['rv']['fields'].index(field)]))
                if v[0] == 'place' and not v[2] and 1 <= v[1] <= body.argc: return ('param', v[1])
                return ('expr', v)
    return None


# ---- optional parts: probing the Some / None cases ---------------------------------------------
# An absent optional linear part means zero, so an operator must carry each operand's linear part into the result in
# every case where it is present.  The rules probe the presence cases one by one: the CFG is walked with every test of
# the presence of an operand's `linear` resolved for the case, and of the alternatives of a stored value only those
# are kept whose definitions lie on such a path / whose combinator arm is the one taken in the case.
# How presence propagates through Option values (one comment per entry):
PRESENCE_SAME = ('take', 'as_ref', 'as_mut', 'as_deref', 'as_deref_mut', 'cloned', 'copied', 'clone', 'map', 'inspect')   # Some iff the receiver is
PRESENCE_BOTH = ('zip', 'and')            # Some iff both are  (zip: the pair; and: the second)
PRESENCE_EITHER = ('or',)                 # Some iff one of them is
#   xor: exactly one;  filter / and_then: None if the receiver is None, else unknown;  Some(..) / None literals


def linear_param(tree):
    """p if the tree is the Option `linear` field of parameter p itself (not its payload)"""
    t = T.strip_wrappers(tree)
    if t[0] == 'place' and t[2] and t[2][-1][1] == 'linear' and _adt_is(t[2][-1][0], 'v1::Quadratic') and 1 <= t[1] <= 2: return t[1]
    return None


def presence(tree, case):
    """'some' | 'none' | None (unknown) of an Option-valued tree when operand p's linear part is case[p]"""
    p = linear_param(tree)
    if p is not None: return case.get(p)
    t = tree
    if t[0] == 'agg':
        if t[1].endswith('Option::Some'): return 'some'
        if t[1].endswith('Option::None'): return 'none'
        return None
    if t[0] == 'call' and 'option::Option' in t[2] and t[3]:
        a = presence(t[3][0], case)
        if t[1] in PRESENCE_SAME: return a
        if t[1] in PRESENCE_BOTH or t[1] in PRESENCE_EITHER or t[1] == 'xor':
            c = presence(t[3][1], case) if len(t[3]) > 1 else None
            if t[1] in PRESENCE_BOTH: return 'none' if 'none' in (a, c) else ('some' if a == c == 'some' else None)
            if t[1] in PRESENCE_EITHER: return 'some' if 'some' in (a, c) else ('none' if a == c == 'none' else None)
            return None if None in (a, c) else ('some' if a != c else 'none')
        if t[1] in ('filter', 'and_then'): return 'none' if a == 'none' else None
    return None


def case_succ(b, bi, case):
    """successors of block bi when the presence of the operands' linear parts is `case`"""
    t = b.blocks[bi]['term']
    if t['k'] != 'switch' or t['d']['k'] == 'const': return b.succ(bi)
    e = _expr_env(b, t['d'], {}, set(), 16, frozenset())
    m = {v: tg for v, tg in t['ts']}
    if e[0] == 'discr':
        pr = presence(e[1], case)
        if pr is not None: return [m.get(1 if pr == 'some' else 0, t['else'])]
    neg = False
    while e[0] == 'un' and e[1] == 'Not': e = e[2]; neg = not neg
    if e[0] == 'call' and e[1] in ('is_some', 'is_none') and 'option::Option' in e[2] and e[3]:
        pr = presence(e[3][0], case)
        if pr is not None:
            val = (pr == 'some') == (e[1] == 'is_some')
            if neg: val = not val
            return [m.get(1 if val else 0, t['else'])]
    return b.succ(bi)


def case_reach(b, case, start=0, stop=()):
    seen = set(); w = [start]
    while w:
        x = w.pop()
        if x in seen or x in stop or b.blocks[x]['cleanup']: continue
        seen.add(x)
        w += case_succ(b, x, case)
    return seen


def case_must_pass(b, case, targets, via):
    """every path from the entry to a target block that is possible in the case passes a block of `via`"""
    return not (case_reach(b, case, 0, stop=set(via)) & set(targets))


def feasible_alts(b, operand, case, reach):
    """alternatives of `operand` that can occur in the case: definitions chosen lie on a case path, combinator arms
    chosen are the ones the receiver's presence selects"""
    out = []
    alts, complete = expr_alts_env(b, operand)
    for e, env in alts:
        ok = True
        for k, i in env.items():
            if isinstance(k, tuple):
                c = next((x for x in b.calls if x.bb == k[1]), None)
                pr = presence(_expr_env(b, c.args[0], env, set(), 24, frozenset()), case) if c is not None else None
                if (pr == 'none' and i % 2 == 0) or (pr == 'some' and i % 2 == 1): ok = False
            else:
                ds = whole_defs(b, k)
                if ds[i % len(ds)][1] not in reach: ok = False
        if ok: out.append(e)
    return out, complete


def carries_linear(ctx, b, e, p):
    """the tree contains operand p's linear part (the Option itself or its payload)"""
    return any(x[0] == 'place' and x[1] == p and any(f == 'linear' and _adt_is(a, 'v1::Quadratic') for a, f in x[2]) for x in T.expr_walk(e))


def probe_stores(ctx, b, stores, case):
    """(feasible alternatives of the values stored into `.linear` in the case, every case path to a return passes a store)"""
    reach = case_reach(b, case)
    alts = []
    live = [s for s in stores if s[0] in reach]
    for s in live:
        if s[1] is not None: alts += feasible_alts(b, s[1], case, reach)[0]
        else: alts.append(T._rv_expr(b, s[2]))
    return alts, bool(live) and case_must_pass(b, case, return_blocks(b), {s[0] for s in live})


# =============================================================================== C02.dispatch
def payload_sources(ctx, b, operand, depth=0):
    """{(side, variant)} the operand may come from: side 0 = payload of self's oneof, 1 = of rhs's.
    The side is decided by dataflow (which parameter the matched enum value derives from), so
    `match (lhs, rhs)`, nested matches and matches on references look the same."""
    out = set()
    if operand['k'] not in ('copy', 'move') or depth > 4: return out
    pl = operand['pl']
    base = []; var = None
    for p in pl['p']:
        if isinstance(p, dict) and 'dc' in p:
            var = p['dc']; break
        base.append(p)
    if var is not None and any('function::Function::' in a for a, f in fields_of_place(pl)):
        ps = ctx.S.backslice(b, [node_of({'l': pl['l'], 'p': base})]).params
        if len(ps) == 1: return {(min(ps) - 1, var)}
        return out
    for k, bi, d in b.defs_of(pl['l']):
        if k == 'stmt' and d['rv']['k'] in ('use', 'ref') and not d['dst']['p']:
            out |= payload_sources(ctx, b, d['rv']['ops'][0] if d['rv']['k'] == 'use' else {'k': 'copy', 'pl': d['rv']['pl']}, depth + 1)
    return out


PASS_THROUGH = re.compile(r'::(expect|unwrap|unwrap_or_else|unwrap_unchecked|clone|cloned|copied|as_ref|as_mut|as_deref|borrow|deref|deref_mut|to_owned|take|into_inner)(::<.*>)?$')


def dispatch_walk(b, op, vs, vr, discr_of):
    """Execute the dispatch for ONE pair of kinds: self holds variant vs, rhs holds variant vr.  The body is walked from the
    entry with the values that matter tracked concretely -- which operand an enum value / a payload belongs to, tuples of
    them, small integers computed from the discriminants (a `kind_rank`), comparisons of those -- so every switch on the
    kinds is resolved and exactly one path remains, whatever the shape of the match (one tuple match, nested matches,
    operands ordered first, or-patterns).  Returns (verdict, detail, site bb):
      'ok'      the path reaches the operator `op` (trait call, or the built-in f64 operator) applied to the payload of self
                and the payload of rhs
      'bad'     it reaches another operator / other operands first, returns without, or panics
      None      a switch on something that is not tracked: undecided by this walk"""
    UNK = ('?',)
    env = {1: ('fn', 0), 2: ('fn', 1)}
    case = {0: vs, 1: vr}

    def place(pl):
        v = env.get(pl['l'], UNK)
        for pr in pl['p']:
            if pr == '*': continue
            if isinstance(pr, dict) and 'dc' in pr:
                if v[0] == 'enum': v = ('variant', v[1], pr['dc'])
                elif v[0] == 'optenum' and pr['dc'] == 'Some': v = ('somewrap', v[1])
                else: v = UNK
            elif isinstance(pr, dict) and 'f' in pr:
                if v[0] == 'fn' and pr['f'] == 'function': v = ('optenum', v[1])
                elif v[0] == 'tuple' and pr['f'].isdigit() and int(pr['f']) < len(v[1]): v = v[1][int(pr['f'])]
                elif v[0] == 'variant': v = ('payload', v[1], v[2]) if case[v[1]] == v[2] else UNK
                elif v[0] == 'somewrap': v = ('enum', v[1])
                else: v = UNK
            else: v = UNK
        return v

    def operand(o):
        if o['k'] in ('copy', 'move'): return place(o['pl'])
        if o['k'] == 'const':
            m = re.match(r'^(?:const )?(-?\d+)_?[iu](?:8|16|32|64|128|size)$', o['v'].strip())
            if m: return ('int', int(m.group(1)))
            if o['v'].strip() in ('true', 'false'): return ('int', 1 if o['v'].strip() == 'true' else 0)
        return UNK

    CMP = {'Lt': lambda x, y: x < y, 'Le': lambda x, y: x <= y, 'Gt': lambda x, y: x > y, 'Ge': lambda x, y: x >= y, 'Eq': lambda x, y: x == y, 'Ne': lambda x, y: x != y}
    budget = [6000, 48]          # steps, forks

    def run(bi, env_, forked):
        """outcomes [(verdict, detail, bb)] of all paths from block bi; a switch on an untracked value (a branch on the DATA of
        the operands: degree(), is_zero(), a flag ...) forks, and every branch must still end in the operator on both payloads"""
        nonlocal env
        env = env_
        while True:
            budget[0] -= 1
            if budget[0] <= 0: return [(None, 'walk did not terminate', bi)]
            blk = b.blocks[bi]
            for st in blk['st']:
                if 'dst' not in st: continue
                rv = st['rv']; k = rv['k']; val = UNK
                if k == 'use': val = operand(rv['ops'][0])
                elif k == 'ref': val = place(rv['pl'])
                elif k == 'agg' and rv['adt'] == 'tuple': val = ('tuple', [operand(o) for o in rv['ops']])
                elif k == 'discr':
                    x = place(rv['pl'])
                    if x[0] == 'enum': val = ('int', discr_of[case[x[1]]])
                    elif x[0] == 'optenum': val = ('int', 1)                      # an operand of a defined kind: the oneof is set
                elif k == 'bin':
                    a0, a1 = operand(rv['ops'][0]), operand(rv['ops'][1])
                    if a0[0] == a1[0] == 'int' and rv['op'] in CMP: val = ('int', 1 if CMP[rv['op']](a0[1], a1[1]) else 0)
                    elif rv.get('ty') == 'f64' and a0[0] == a1[0] == 'payload':
                        sides = {a0[1], a1[1]}
                        if rv['op'] == op and sides == {0, 1}: return [('ok', '', bi)]
                        return [('bad', 'the arm computes %s of %s' % (rv['op'], [a0, a1]), bi)]
                elif k == 'un' and rv['op'] == 'Not':
                    x = operand(rv['ops'][0])
                    if x[0] == 'int': val = ('int', 0 if x[1] else 1)
                elif k == 'cast':
                    x = operand(rv['ops'][0])
                    if x[0] == 'int': val = x
                if st['dst']['p']: continue           # partial writes are not tracked
                env[st['dst']['l']] = val
            t = blk['term']; tk = t['k']
            if tk in ('goto', 'drop', 'assert'): bi = t['t']; continue
            if tk == 'return':
                return [('bad', 'returns without applying the operator to the two payloads' + (' (on a branch taken under a condition on the operands\' data, before / beside the dispatch on their kinds)' if forked else ''), bi)]
            if tk == 'switch':
                d = operand(t['d'])
                if d[0] == 'int':
                    m = {v: tg for v, tg in t['ts']}
                    bi = m.get(d[1], t['else']); continue
                targets = []
                for tg in [x[1] for x in t['ts']] + [t['else']]:
                    if tg not in targets and b.blocks[tg]['term']['k'] != 'unreachable': targets.append(tg)
                budget[1] -= len(targets)
                if budget[1] < 0: return [(None, 'too many branches on untracked values', bi)]
                out = []
                saved = env
                for tg in targets: out += run(tg, dict(saved), True)
                return out
            if tk == 'call':
                name = t['r'] or t['f']
                args = [operand(a) for a in t['args']]
                kind = ops_kind((t.get('ri') or {}).get('trait') or '')
                if kind and (t.get('ri') or {}).get('item') in ('add', 'sub', 'mul', 'neg') and any(a[0] == 'payload' for a in args):
                    sides = {a[1] for a in args if a[0] == 'payload'}
                    if kind == op and len(args) == 2 and all(a[0] == 'payload' for a in args) and sides == {0, 1}: return [('ok', '', bi)]
                    return [('bad', 'the arm applies %s to %s' % (kind, args), bi)]
                if t['t'] < 0:
                    # a panic on a branch that depends on untracked data (assertion, "Empty Function") is not a wrong result
                    return [('panic', name, bi)] if forked else [('bad', 'panics (%s)' % name.split('::')[-1][:40], bi)]
                val = UNK
                if args and PASS_THROUGH.search(T.strip_generics_tail(name)):
                    val = ('enum', args[0][1]) if args[0][0] == 'optenum' and re.search(r'::(expect|unwrap\w*|take)$', T.strip_generics_tail(name)) else args[0]
                if not t['dst']['p']: env[t['dst']['l']] = val
                bi = t['t']; continue
            return [(None, 'unexpected terminator %s' % tk, bi)]

    outs = run(0, env, False)
    bad = [o for o in outs if o[0] == 'bad']
    if bad: return bad[0]
    und = [o for o in outs if o[0] is None]
    if und: return und[0]
    oks = [o for o in outs if o[0] == 'ok']
    if oks: return oks[0]
    return None, 'every path panics', 0


def dispatch_rules(ctx):
    """Function (+|*) Function: for EVERY ordered pair of kinds the arm that is actually taken applies the operator to the
    payload of self and the payload of rhs (dispatch_walk), and its result is returned.  Instances are keyed by the pair of
    kinds, not by source position."""
    R = 'C02.dispatch'
    en = ctx.F.adt('v1::function::Function')
    variants = [v['name'] for v in en['variants']] if en else []
    discr_of = {v['name']: v.get('discr', k) for k, v in enumerate(en['variants'])} if en else {}
    for op in ('Add', 'Mul'):
        b = ctx.F.one('v1::Function', op.lower(), trait=op, targs=['v1::Function'])
        if b is None:
            bs = [x for x in ctx.F.method('v1::Function', op.lower(), trait=op) if not x.hdr.get('targs') or x.hdr['targs'] == ['v1::Function']]
            b = bs[0] if len(bs) == 1 else None
        if b is None:
            ctx.lost(R + '/' + op, '%s for Function' % op); continue
        ctx.fn(b)
        calls = [c for c in b.calls if is_ops_call(c)]
        wrong = [c for c in calls if not c.trait.endswith('ops::' + op)]
        ctx.check(not wrong, R + '/%s/same-operation' % op, 'T-CARRY', b.name, 'an arm of %s uses another operator: %s' % (op, [c.name[:50] for c in wrong]), b.site())
        rs = ctx.S.backslice(b, [0])
        cm = callmap(b)
        # the static view (which payloads each operator call may combine), used where the walk cannot decide
        covered = set()
        for c in calls:
            if not c.trait.endswith('ops::' + op): continue
            s0 = payload_sources(ctx, b, c.args[0]); s1 = payload_sources(ctx, b, c.args[1])
            for x in s0:
                for y in s1:
                    if x[0] != y[0]:
                        p = tuple(sorted([x, y])); covered.add((p[0][1], p[1][1]))
        for bi, st in b.stmts():
            if st['rv']['k'] == 'bin' and st['rv'].get('ty') == 'f64' and st['rv']['op'] == op:
                s0 = payload_sources(ctx, b, st['rv']['ops'][0]); s1 = payload_sources(ctx, b, st['rv']['ops'][1])
                for x in s0:
                    for y in s1:
                        if x[0] != y[0]:
                            p = tuple(sorted([x, y])); covered.add((p[0][1], p[1][1]))
        for vs in variants:
            for vr in variants:
                rid = '%s/%s/%s_%s' % (R, op, vs, vr)
                verdict, why, bb = dispatch_walk(b, op, vs, vr, discr_of)
                if verdict == 'ok':
                    c = cm.get(bb)
                    returned = (c in rs.call_objs) if c is not None and is_ops_call(c) else any(st['dst']['l'] in rs.locals for st in b.blocks[bb]['st'] if 'dst' in st and st['rv']['k'] == 'bin')
                    ctx.check(returned, rid, 'T-BRANCHFX', b.name, 'the result of the arm taken for (%s, %s) is not returned' % (vs, vr), b.site(bb))
                elif verdict == 'bad':
                    ctx.bad(rid, 'T-BRANCHFX', b.name, 'for self = %s, rhs = %s: %s' % (vs, vr, why), b.site(bb))
                elif (vs, vr) in covered:
                    weakly(ctx, rid, 'T-BRANCHFX', b, 'the arm taken could not be followed (%s); an operator call combining a %s payload of self with a %s payload of rhs exists' % (why, vs, vr))
                else:
                    ctx.bad(rid, 'T-BRANCHFX', b.name, 'no arm found that combines a %s payload of self with a %s payload of rhs (%s)' % (vs, vr, why), b.site())
    ctx.floor(R, 34)


# =============================================================================== C02.branches
def _linear_part_rule(ctx, b, rid, op='Add'):
    """`Quadratic + X` (X = Linear | f64): in every case the right operand ends up in the linear part of
    the result, and an existing linear part is added to (not replaced).
    Formulated on the stores to `.linear`: whatever way the stored value is computed (one store per
    branch, one store of a `match` value, Option setters), EVERY alternative depends on rhs, and one
    alternative is `old linear + rhs`."""
    stores = live_stores(b, field_stores(b, 'v1::Quadratic', 'linear'))
    probs = []; weak = []
    alts = []
    for s in stores:
        a, complete = store_alts(b, s)
        if not complete: weak.append('too many alternatives for the value stored at %s' % b.site(s[0]))
        alts += [(s, e) for e in a]
    for s, e in alts:
        if 2 not in expr_params(ctx, b, e):
            probs.append('the value stored into the linear part at %s does not depend on the right operand (%s)' % (b.site(s[0]), T.expr_str(e, 4)))
    opsym = '+' if op == 'Add' else '-'
    def combines(e):
        """`old linear part + rhs`;  for a subtraction `old - rhs` (in this order) or `old + (negated rhs)`"""
        for x in ops_calls_in(e, 'Add') + (ops_calls_in(e, 'Sub') if op == 'Sub' else []):
            a0, a1 = x[3][0], x[3][1]
            for l, r in (((a0, a1),) if ops_kind(x[2]) == 'Sub' else ((a0, a1), (a1, a0))):
                if expr_has_field(l, 'v1::Quadratic', 'linear') and 1 in expr_params(ctx, b, l) and 2 in expr_params(ctx, b, r):
                    if op == 'Add' or ops_kind(x[2]) == 'Sub' or negated(ctx, b, r, 2): return True
        return False
    if not any(combines(e) for s, e in alts):
        # the same on slices (covers in-place idioms the store table does not know)
        addc = [c for c in b.calls if is_ops_call(c) and ops_kind(c.trait) == op]
        def side(o, p, fld): s_ = ctx.S.slice_operand(b, o); return p in s_.params and (not fld or s_.has_field('v1::Quadratic', 'linear'))
        if any((side(c.args[0], 1, True) and side(c.args[1], 2, False)) or (op == 'Add' and side(c.args[1], 1, True) and side(c.args[0], 2, False)) for c in addc):
            weak.append('`old linear part %s rhs` exists but is not the value of a recognised store' % opsym)
        else:
            probs.append('an existing linear part is not combined with the right operand by `%s`' % opsym)
    if not stores or not T.must_pass(b, 0, return_blocks(b), {s[0] for s in stores}):
        # some path returns without a recognised store: decide on the slice of the returned value's linear part
        rs = ctx.S.backslice(b, [(0, 'linear')])
        if {1, 2} <= rs.params: weak.append('a path returns without a recognised store to the linear part; the returned linear part depends on both operands')
        else: probs.append('a path returns without storing the right operand into the linear part')
    if probs:
        ctx.bad(rid, 'T-BRANCHFX', b.name, 'with and without an existing linear part the right operand must end up in the result\'s linear part: ' + '; '.join(probs), b.site())
    elif weak:
        weakly(ctx, rid, 'T-BRANCHFX', b, '; '.join(weak))
        for name in ('lhs_some', 'lhs_none'): weakly(ctx, rid + '/case/' + name, 'T-BRANCHFX', b, 'stores not recognised: the presence cases cannot be probed')
    else:
        ctx.ok(rid, 'T-BRANCHFX', b.site(), stores=len(stores), alternatives=len(alts))
        # the two presence cases of self's linear part
        for pres in ('some', 'none'):
            calts, passes = probe_stores(ctx, b, stores, {1: pres})
            cp = []
            if not passes: cp.append('a path returns without storing a linear part')
            if pres == 'some':
                lost = [e for e in calts if not combines(e)]
                if lost: cp.append('the result\'s linear part can be %s, which is not `existing linear part %s rhs`' % (T.expr_str(lost[0], 3), opsym))
            else:
                lost = [e for e in calts if 2 not in expr_params(ctx, b, e)]
                if lost: cp.append('the result\'s linear part can be %s, which drops the right operand' % T.expr_str(lost[0], 3))
                if op == 'Sub':
                    # 0 - rhs: the absent linear part is zero, so the right operand is stored NEGATED
                    lost = [e for e in calts if not negated(ctx, b, e, 2)]
                    if lost: cp.append('the result\'s linear part can be %s, which is the right operand without negation (q - l = q + l when q has no linear part)' % T.expr_str(lost[0], 3))
            ctx.check(not cp, rid + '/case/lhs_' + pres, 'T-BRANCHFX', b.name, 'linear part of self %s: %s' % ('present' if pres == 'some' else 'absent', '; '.join(cp)), b.site(), alternatives=len(calts))


def scale_sites(ctx, b):
    """f64 multiplications by the scalar parameter (param 2): [(bb, other operand)].
    Idioms: `x *= rhs` (MulAssign call or in-place `x = x * rhs`), `x * rhs` / `rhs * x` as a value."""
    out = []
    def is_rhs(o):
        return T.strip_wrappers(T.expr(b, o))[:3] == ('place', 2, [])
    for bi, st in b.stmts():
        rv = st['rv']
        if rv['k'] == 'bin' and rv['op'] == 'Mul' and rv.get('ty') == 'f64':
            a, c = rv['ops']
            if is_rhs(c): out.append((bi, a))
            elif is_rhs(a): out.append((bi, c))
    for c in b.calls:
        m = T.ASSIGN_CALL.match(c.name)
        if m and m.group(1) == 'Mul' and is_rhs(c.args[1]): out.append((c.bb, c.args[0]))
        m = T.ARITH_CALL.match(c.name)
        if m and m.group(2) == 'Mul' and len(c.args) == 2:
            if is_rhs(c.args[1]): out.append((c.bb, c.args[0]))
            elif is_rhs(c.args[0]): out.append((c.bb, c.args[1]))
    return out


def scaled_in_loop(ctx, b, adt, field):
    """loops over param 1's data in which every pass multiplies adt.field (of the item / element) by rhs: [loop]"""
    res = []
    loops = loops_of(ctx, b)
    for bb, other in scale_sites(ctx, b):
        L = innermost_loop(loops, bb)
        if L is None or 1 not in L['it'].params or restricted(L['it']): continue
        s = ctx.S.slice_operand(b, other)
        if not s.has_field(adt, field): continue
        via = {bb2 for bb2, o2 in scale_sites(ctx, b) if bb2 in L['blocks'] and ctx.S.slice_operand(b, o2).has_field(adt, field)}
        if T.must_pass(b, L['some'], {L['header']}, via) and L not in res: res.append(L)
    return res


def branches_rules(ctx, impls=()):
    R = 'C02.branches'
    # the kernels of the pinned tree, plus impls of the same shapes whose delegation was replaced by a hand-written body
    todo = list(BRANCH_KERNELS) + [t for t, nb in new_kernels(ctx, impls) if t in NEW_KERNEL_SHAPES and t not in BRANCH_KERNELS]
    for lhs, op, rhs in todo:
        b = ctx.F.one(lhs, op.lower(), trait=op, targs=[rhs])
        if b is None:
            ctx.lost(R + '/%s_%s_%s' % (lhs, op, rhs), 'impl'); continue
        ctx.fn(b)
        rid = R + '/%s_%s_%s' % (lhs.split('::')[-1], op, rhs.split('::')[-1])
        stores = live_stores(b, field_stores(b, 'v1::Quadratic', 'linear'))
        if (lhs, op, rhs) == ('v1::Quadratic', 'Mul', 'f64'):
            # Some(l) => Some(l * rhs); None stays None; values scaled by rhs
            okv = bool(scaled_in_loop(ctx, b, 'v1::Quadratic', 'values'))
            okl = False
            for s in stores:
                for e in store_alts(b, s)[0]:
                    for x in ops_calls_in(e, 'Mul'):
                        a0, a1 = x[3][0], x[3][1]
                        for l, r in ((a0, a1), (a1, a0)):
                            if expr_has_field(l, 'v1::Quadratic', 'linear') and 1 in expr_params(ctx, b, l) and T.strip_wrappers(r)[:3] == ('place', 2, []): okl = True
            if okv and not okl:
                # not the value of a recognised store (in-place update through `&mut`, ...): the weaker condition on slices
                def lin(o): s_ = ctx.S.slice_operand(b, o); return 1 in s_.params and s_.has_field('v1::Quadratic', 'linear')
                def rhs_(o): return T.strip_wrappers(T.expr(b, o))[:3] == ('place', 2, [])
                if any(is_ops_call(c) and ops_kind(c.trait) == 'Mul' and len(c.args) == 2 and ((lin(c.args[0]) and rhs_(c.args[1])) or (lin(c.args[1]) and rhs_(c.args[0]))) for c in b.calls):
                    weakly(ctx, rid, 'T-BRANCHFX', b, '`old linear part * rhs` exists but is not the value of a recognised store to the linear part')
                    weakly(ctx, rid + '/case/lhs_some', 'T-BRANCHFX', b, 'stores not recognised: the presence case cannot be probed'); continue
            ctx.check(okv and okl, rid, 'T-BRANCHFX', b.name, 'scalar multiplication does not scale both the quadratic values and the linear part', b.site())
            if okv and okl:
                # a present linear part is scaled on every path that scales the values (the exact-zero shortcut aside)
                case = {1: 'some'}
                reach = case_reach(b, case)
                live = [x for x in stores if x[0] in reach]
                zt, _ = exact_zero_targets(b)
                cp = []
                if not live or not case_must_pass(b, case, return_blocks(b), {x[0] for x in live} | zt): cp.append('a path returns without storing the scaled linear part')
                def scaled(e):
                    return any((carries_linear(ctx, b, x[3][0], 1) and T.strip_wrappers(x[3][1])[:3] == ('place', 2, [])) or (carries_linear(ctx, b, x[3][1], 1) and T.strip_wrappers(x[3][0])[:3] == ('place', 2, [])) for x in ops_calls_in(e, 'Mul') if len(x[3]) == 2)
                calts = [e for x in live if x[1] is not None for e in feasible_alts(b, x[1], case, reach)[0]]
                lost = [e for e in calts if not scaled(e)]
                if lost: cp.append('the result\'s linear part can be %s, which is not `linear part * rhs`' % T.expr_str(lost[0], 3))
                ctx.check(not cp, rid + '/case/lhs_some', 'T-BRANCHFX', b.name, 'linear part of self present: %s' % '; '.join(cp), b.site(), alternatives=len(calts))
            continue
        if rhs == 'v1::Quadratic' and op in ('Add', 'Sub'):
            # result.linear is built from both operands' linear parts; where both exist they are added
            both = False; roots = set()
            for s in stores:
                if s[1] is not None: roots |= {(p, f) for p, a, f in ctx.S.slice_operand(b, s[1]).root_fields}
                for e in store_alts(b, s)[0]:
                    for x in ops_calls_in(e, 'Add') + (ops_calls_in(e, 'Sub') if op == 'Sub' else []):
                        ps = [expr_params(ctx, b, a) for a in x[3][:2]]
                        fl = [expr_has_field(a, 'v1::Quadratic', 'linear') for a in x[3][:2]]
                        if all(fl) and ((1 in ps[0] and 2 in ps[1]) or (2 in ps[0] and 1 in ps[1] and ops_kind(x[2]) == 'Add')): both = True
            ok = both and {(1, 'linear'), (2, 'linear')} <= roots and bool(stores) and T.must_pass(b, 0, return_blocks(b), {s[0] for s in stores})
            ctx.check(ok, rid, 'T-BRANCHFX', b.name, 'the linear part of the sum does not combine both operands\' linear parts', b.site())
            # the four presence cases: an absent linear part is zero, so a present one must reach the result whatever the other is
            for case, who in (({1: 'some', 2: 'none'}, (1,)), ({1: 'none', 2: 'some'}, (2,)), ({1: 'some', 2: 'some'}, (1, 2))):
                alts, passes = probe_stores(ctx, b, stores, case)
                name = '-'.join('%s_%s' % ('lhs' if p == 1 else 'rhs', case[p]) for p in (1, 2))
                probs = []
                if not passes: probs.append('a path returns without storing a linear part')
                if len(who) == 1:
                    lost = [e for e in alts if not carries_linear(ctx, b, e, who[0])]
                    if lost: probs.append('the result\'s linear part can be %s, which drops the linear part of the %s operand' % (T.expr_str(lost[0], 3), 'left' if who[0] == 1 else 'right'))
                    if op == 'Sub' and who[0] == 2:
                        lost = [e for e in alts if not negated(ctx, b, e, 2)]
                        if lost: probs.append('the result\'s linear part can be %s, which is the right operand\'s linear part without negation' % T.expr_str(lost[0], 3))
                else:
                    def adds_both(e):
                        if op == 'Sub':
                            return any(carries_linear(ctx, b, x[3][0], 1) and carries_linear(ctx, b, x[3][1], 2) for x in ops_calls_in(e, 'Sub') if len(x[3]) == 2) or \
                                   any(carries_linear(ctx, b, x[3][0], 1) and carries_linear(ctx, b, x[3][1], 2) and negated(ctx, b, x[3][1], 2) for x in ops_calls_in(e, 'Add') if len(x[3]) == 2)
                        return any(carries_linear(ctx, b, x[3][0], 1) and carries_linear(ctx, b, x[3][1], 2) or carries_linear(ctx, b, x[3][0], 2) and carries_linear(ctx, b, x[3][1], 1) for x in ops_calls_in(e, 'Add') if len(x[3]) == 2)
                    if not any(adds_both(e) for e in alts): probs.append('the two linear parts are not added')
                    lost = [e for e in alts if not (e[0] == 'agg' and e[1].endswith('Option::None')) and not (carries_linear(ctx, b, e, 1) and carries_linear(ctx, b, e, 2))]
                    if lost: probs.append('the result\'s linear part can be %s, which does not contain both linear parts' % T.expr_str(lost[0], 3))
                ctx.check(not probs, rid + '/case/' + name, 'T-BRANCHFX', b.name, 'linear part present in %s: %s' % (name, '; '.join(probs)), b.site(), alternatives=len(alts))
            continue
        _linear_part_rule(ctx, b, rid, op)
    ctx.floor(R, 12)


def iter_rules(ctx):
    R = 'C02.iter'
    for ty, need in (('&v1::Linear', [('v1::linear::Term', 'id'), ('v1::linear::Term', 'coefficient'), ('v1::Linear', 'constant'), ('v1::Linear', 'terms')]),
                     ('&v1::Quadratic', [('v1::Quadratic', 'rows'), ('v1::Quadratic', 'columns'), ('v1::Quadratic', 'values'), ('v1::Quadratic', 'linear')]),
                     ('&v1::Polynomial', [('v1::Polynomial', 'terms'), ('v1::Monomial', 'ids'), ('v1::Monomial', 'coefficient')])):
        b = ctx.F.one(ty, 'into_iter', trait='IntoIterator')
        if b is None:
            ctx.lost(R + '/' + ty, 'IntoIterator for ' + ty); continue
        ctx.fn(b)
        bodies = cone_of(ctx, b)
        acc = field_access(bodies)
        rs = ctx.S.backslice(b, [0])
        for a, f in need:
            read = (a, f) in acc or any(x[1] == f and x[0].endswith(a) for x in acc)
            ctx.check(read and rs.has_field(a, f), R + '/%s/%s' % (ty.lstrip('&').split('::')[-1], f), 'T-COVER', b.name,
                      'term iterator never reads %s.%s' % (a, f) if not read else 'the returned term iterator does not depend on %s.%s (it is only read on the side)' % (a, f), b.site())
        if ty != '&v1::Linear':
            # the ids this iterator yields are SortedIds built, in its cone, by constructions that sort (C02.sorted)
            probs, n = cone_constructions(ctx, b)
            ctx.check(n > 0 and not probs, R + '/%s/sorted-ids' % ty.lstrip('&').split('::')[-1], 'T-CARRY', b.name,
                      'the term iterator does not yield sorted ids however the operand is stored: %s' % ('; '.join(probs) or 'no SortedIds construction in its cone'), b.site())
        if ty == '&v1::Quadratic':
            # the linear part is enumerated whenever it is present (not only read somewhere)
            case = {1: 'some'}
            calts, complete = feasible_alts(b, local_op(0), case, case_reach(b, case))
            lost = [e for e in calts if not carries_linear(ctx, b, e, 1)]
            ctx.check(bool(calts) and not lost, R + '/Quadratic/linear-when-present', 'T-BRANCHFX', b.name,
                      'with a linear part present the iterator can be %s, which does not enumerate it' % (T.expr_str(T.strip_wrappers(lost[0]), 2)[:80] if lost else 'nothing recognised'), b.site())
        restr = sorted({x.item for x in rs.call_objs if x.item in ('take', 'skip', 'step_by', 'take_while', 'skip_while', 'nth')})
        ctx.check(not restr, R + '/%s/all-terms' % ty.lstrip('&').split('::')[-1], 'T-LOOPMUST', b.name, 'iterator drops terms: %s' % restr, b.site())
        # every stored term is yielded: no keyed container filled without accumulation, no dedup, nothing taken out of the
        # operand's vectors between the stored terms and the yielded items (a non-normalised operand may repeat a monomial)
        lost = overwriting_loads(ctx, b, (1,))
        ctx.check(not lost, R + '/%s/every-term-yielded' % ty.lstrip('&').split('::')[-1], 'T-BRANCHFX', b.name, 'a stored term may not be yielded: %s' % '; '.join(sorted({w for bb, w in lost})), b.site(lost[0][0]) if lost else b.site())
    b = ctx.F.one('&v1::Function', 'into_iter', trait='IntoIterator')
    if b is None: ctx.lost(R + '/Function', 'IntoIterator for &Function')
    else:
        ctx.fn(b)
        got = sorted({re.search(r'for &v1::(\w+)>::into_iter', c.name).group(1) for c in b.calls if re.search(r'IntoIterator for &v1::(\w+)>::into_iter', c.name)})
        ctx.check(got == ['Linear', 'Polynomial', 'Quadratic'], R + '/Function/arms', 'T-BRANCHFX', b.name, 'payload iterators used: %s' % got, b.site())
        once = [c for c in b.calls if c.item == 'once']; empty = [c for c in b.calls if c.item == 'empty' and 'iter' in c.name]
        okc = False
        for c in once:
            ex = T.expr(b, c.args[0])
            okc = any('Constant' in a for a, f in T.expr_fields(ex)) and any(x[0] == 'call' and x[1] == 'empty' for x in T.expr_walk(ex))
        ctx.check(okc and len(empty) == 1, R + '/Function/constant-and-unset', 'T-BRANCHFX', b.name, 'Constant must yield ((), c) once and an unset oneof nothing', b.site())
    # Linear's iterator drops only zero coefficients; ids of linear terms become singleton id lists in Function / Quadratic iterators
    ctx.floor(R, 22)


# =============================================================================== C02.keys
# equivalent ways of writing the ordered pair of two ids a, b (one comment per idiom):
#   if a < b { (a, b) } else { (b, a) }      (any of < <= > >=, either arm order)
#   (a.min(b), a.max(b)) / (min(a, b), max(a, b))
#   (a, b) unordered, when the consumer orders it (FromIterator<((u64,u64),f64)> for Quadratic does, and is checked)
def _minmax(e):
    e = T.strip_wrappers(e)
    if e[0] == 'call' and e[1] in ('min', 'max') and re.search(r'cmp::(Ord|min|max)|Ord>::(min|max)', e[2]) and len(e[3]) == 2:
        return e[1], e[3]
    return None, None


def pair_alts(b, key_operand):
    """the alternatives of a 2-tuple key: [(component0, component1)] as expression trees, or None"""
    alts, complete = expr_alts(b, key_operand)
    out = []
    for e in alts:
        e = T.strip_wrappers(e)
        if e[0] != 'agg' or e[1] != 'tuple' or len(e[2]) != 2: return None
        out.append((e[2][0], e[2][1]))
    return out if complete and out else None


def ordered_pair(b, alts, ident):
    """'ordered' | 'unordered' (both ids, one per component, but not ordered here) | 'bad: why'.
    ident(tree) names what a component is (which operand's id / which component of the incoming key)."""
    kinds = set()
    for e0, e1 in alts:
        k0, a0 = _minmax(e0); k1, a1 = _minmax(e1)
        if k0 or k1:
            if not (k0 and k1 and {k0, k1} == {'min', 'max'}): return 'bad: %s / %s' % (T.expr_str(e0, 3), T.expr_str(e1, 3))
            i0 = {ident(x) for x in a0}; i1 = {ident(x) for x in a1}
            if i0 != i1 or len(i0) != 2 or None in i0: return 'bad: min/max of %s and %s' % (sorted(map(str, i0)), sorted(map(str, i1)))
            kinds.add(('mm', frozenset(i0)))
        else:
            x, y = ident(e0), ident(e1)
            if x is None or y is None or x == y: return 'bad: components are %s, %s' % (T.expr_str(e0, 3), T.expr_str(e1, 3))
            kinds.add(('pp', (x, y)))
    mm = {k[1] for k in kinds if k[0] == 'mm'}; pp = {k[1] for k in kinds if k[0] == 'pp'}
    if mm and not pp and len(mm) == 1: return 'ordered'
    if pp and not mm:
        ids = {frozenset(p) for p in pp}
        if len(ids) != 1: return 'bad: alternatives use different ids'
        if len(pp) == 2:
            # both orders exist: the choice must be made by comparing the two ids
            A = next(iter(ids))
            for bi, st in b.stmts():
                rv = st['rv']
                if rv['k'] == 'bin' and rv['op'] in ('Lt', 'Le', 'Gt', 'Ge') and rv.get('ty') in ('u64', None):
                    es = [_expr_env(b, o, {}, set(), 12, frozenset()) for o in rv['ops']]
                    if {ident(es[0]), ident(es[1])} == set(A): return 'ordered'
            return 'bad: both orders occur but no comparison of the two ids chooses between them'
        return 'unordered'
    return 'bad: mixed'


def feeds_canonicalising_consumer(ctx, b, map_local):
    """the map is turned into a Quadratic by FromIterator / collect (which orders and merges the keys)"""
    for c in b.calls:
        if c.item in ('collect', 'from_iter') and ('v1::Quadratic' in c.name or any('v1::Quadratic' == g for g in c.gargs)) and c.args:
            if map_local in ctx.S.slice_operand(b, c.args[0]).locals: return True
    return False


# ---- which component of the map entries a vector holds ------------------------------------------
# equivalent ways of splitting `map: {(a, b) -> v}` into vectors (one comment per idiom):
#   for ((a, b), v) in map { xs.push(a); ys.push(b); vs.push(v) }          loop with pushes (also what the normal form
#                                                                          makes of `map.iter().map(|..| ..).collect()`)
#   let (ks, vs) = map.into_iter().unzip(); let (xs, ys) = ks.into_iter().unzip()     unzip: component k of every item
#   map.keys() / into_keys() = component 0, map.values() / into_values() = component 1, `.collect()` of those
ITEM_PREFIX = {'keys': ('0',), 'into_keys': ('0',), 'values': ('1',), 'into_values': ('1',), 'values_mut': ('1',)}


def element_sig(ctx, b, operand, _depth=0):
    """tuple-component path, relative to the entries of the map they come from, of the elements of the collection
    `operand` (('0','1') = second component of the key, ('1',) = the value); None if not recognised"""
    if _depth > 6 or operand['k'] not in ('copy', 'move'): return None
    root = T.access_path(b, operand, transparent=T.TRANSPARENT_NOCLONE)[1]
    pushes = [c for c in b.calls if c.item in ('push', 'push_back') and c.args and T.access_path(b, c.args[0], transparent=T.TRANSPARENT_NOCLONE)[1] == root and root is not None]
    if pushes:
        sigs = set()
        for c in pushes:
            path = tuple(f for a, f in T.expr_fields(T.expr(b, c.args[1], depth=10)) if a == 'tuple')
            L = innermost_loop(loops_of(ctx, b), c.bb)
            pre = ()
            if L is not None:
                for x in L['it'].call_objs:
                    if x.item in ITEM_PREFIX and MAP_RE.search(x.name): pre = ITEM_PREFIX[x.item]
            sigs.add(pre + path)
        return sigs.pop() if len(sigs) == 1 else None
    return _sig_tree(ctx, b, _expr_env(b, operand, {}, set(), 24, frozenset()))


def _sig_tree(ctx, b, t, _depth=0):
    if _depth > 8: return None
    t = T.strip_wrappers(t)
    if t[0] == 'proj' and t[1][0] == 'call' and t[1][1] == 'unzip' and t[2] and t[2][0][0] == 'tuple' and t[1][3]:
        base = _sig_iter(ctx, b, t[1][3][0], _depth + 1)
        return None if base is None else base + (t[2][0][1],)
    if t[0] == 'call' and t[1] in ('collect', 'from_iter') and t[3]: return _sig_iter(ctx, b, t[3][0], _depth + 1)
    return None


def _sig_iter(ctx, b, t, _depth):
    """component path of the ITEMS of an iterator tree"""
    t = T.strip_wrappers(t)
    if t[0] != 'call' or not t[3]: return None
    if t[1] in ITEM_PREFIX and MAP_RE.search(t[2]): return ITEM_PREFIX[t[1]]
    if t[1] in ('cloned', 'copied', 'rev', 'by_ref'): return _sig_iter(ctx, b, t[3][0], _depth + 1)
    if t[1] in ('into_iter', 'iter', 'iter_mut', 'drain'):
        if MAP_RE.search(t[2]): return ()                      # the entries of the map themselves
        return _sig_tree(ctx, b, t[3][0], _depth + 1)          # the elements of another collection
    return None


def every_pair(ctx, b, sites):
    """the add sites lie in a loop nest over both operands: inner loop merges every item, and every pass
    through the outer loop's body runs the inner loop; neither iterator is restricted"""
    loops = loops_of(ctx, b)
    for s in sites:
        if s['kind'] != 'add': continue
        Li = innermost_loop(loops, s['bb'])
        if Li is None: continue
        # one loop over a product iterator of both operands' terms is the loop nest
        pa = product_args(_expr_env(b, Li['call'].args[0], {}, set(), 24, frozenset()))
        if pa and not restricted(Li['it']):
            p0, p1 = expr_params(ctx, b, pa[0]), expr_params(ctx, b, pa[1])
            if (p0, p1) in (({1}, {2}), ({2}, {1})) and loop_merges(b, Li, sites)[0]: return True
        outer = [L for L in loops if L is not Li and Li['blocks'] < L['blocks']]
        for Lo in outer:
            pi = Li['it'].params; po = Lo['it'].params
            # the inner iterator may also depend on the outer item (flat_map/map capturing it)
            if not ((1 in po and 2 in pi) or (2 in po and 1 in pi)): continue
            if restricted(Li['it']) or restricted(Lo['it']): continue
            ok_in, _ = loop_merges(b, Li, sites)
            if not ok_in: continue
            if not T.must_pass(b, Lo['some'], {Lo['header']}, {Li['header']}): continue
            return True
    return False


def keys_rules(ctx):
    R = 'C02.keys'
    # Linear * Linear: key = the pair of the two ids; value += a.c * b.c
    b = ctx.F.one('v1::Linear', 'mul', trait='Mul', targs=['v1::Linear'])
    if b is None: ctx.lost(R + '/Linear*Linear', 'Mul for Linear')
    else:
        ctx.fn(b)
        sites = [s for s in accum_sites(ctx, b) if s['kind'] == 'add' and s['key'] is not None]
        def ident(e):
            """'L' / 'R': the id of a term of self / of rhs"""
            e = T.strip_wrappers(e)
            if not expr_has_field(e, 'v1::linear::Term', 'id'): return None
            ps = expr_params(ctx, b, e)
            return {frozenset([1]): 'L', frozenset([2]): 'R'}.get(frozenset(ps))
        why = 'no `map[key] += ..` found'; ok = False
        for s in sites:
            alts = pair_alts(b, s['key'])
            if alts is None: why = 'the key is not a pair'; ok = False; break
            v = ordered_pair(b, alts, ident)
            if v == 'ordered' or (v == 'unordered' and s['map'] is not None and feeds_canonicalising_consumer(ctx, b, s['map'])): ok = True
            else: ok = False; why = v; break
        ctx.check(ok, R + '/Linear*Linear/canonical-pair', 'T-CARRY', b.name, 'product keys are not the ordered pair of the two ids (%s)' % why, b.site())
        # cross terms: c*rhs + r*self - r*c
        okl = False
        for st_ in field_stores(b, 'v1::Quadratic', 'linear'):
            if st_[1] is None: continue
            s = ctx.S.slice_operand(b, st_[1])
            kinds = {ops_kind(c.trait) for c in s.call_objs if is_ops_call(c)}
            negf = any(st['rv']['k'] == 'un' and st['rv']['op'] == 'Neg' and st['dst']['l'] in s.locals for bi, st in b.stmts())
            consts = {(p, f) for p, a, f in s.root_fields}
            okl = {1, 2} <= s.params and {'Add', 'Mul'} <= kinds and ('Sub' in kinds or 'Neg' in kinds or negf) and {(1, 'constant'), (2, 'constant')} <= consts
        ctx.check(okl, R + '/Linear*Linear/cross-terms', 'T-CARRY', b.name, 'linear part of the product is not self*r + c*rhs - r*c', b.site())
        # every pair of terms
        ctx.check(every_pair(ctx, b, accum_sites(ctx, b)), R + '/Linear*Linear/every-pair', 'T-LOOPMUST', b.name, 'not every pair of terms contributes', b.site())
    # FromIterator<((u64,u64),f64)> for Quadratic
    b = ctx.F.one('v1::Quadratic', 'from_iter', trait='FromIterator', targs=['((u64, u64), f64)'])
    if b is None: ctx.lost(R + '/Quadratic::from_iter', 'FromIterator for Quadratic')
    else:
        ctx.fn(b)
        sites = [s for s in accum_sites(ctx, b) if s['kind'] == 'add' and s['key'] is not None]
        def ident2(e):
            """which component of the incoming key: the tuple-field path below the loop item"""
            e = T.strip_wrappers(e)
            if e[0] not in ('place', 'proj'): return None
            fs = tuple(f for a, f in e[2] if a == 'tuple')
            return fs if fs and 1 in expr_params(ctx, b, e) else None
        ok = bool(sites) and 1 in merge_sink_params(ctx, b); why = 'items are not merged by `map[key] += value` for every item'
        for s in sites:
            alts = pair_alts(b, s['key'])
            v = ordered_pair(b, alts, ident2) if alts else 'bad: the key is not a pair'
            if v != 'ordered': ok = False; why = v
        ctx.check(ok, R + '/Quadratic::from_iter/canonical-and-merged', 'T-CARRY', b.name, 'entries are not keyed by the ordered pair and merged by addition (%s)' % why, b.site())
        aggs = find_aggregates(b, 'v1::Quadratic')
        okp = bool(aggs); whyp = 'no Quadratic is built'
        for bi, st in aggs:
            d = dict(zip(st['rv']['fields'], st['rv']['ops']))
            sig = {f: element_sig(ctx, b, d[f]) for f in ('rows', 'columns', 'values')}
            good = None not in sig.values() and {sig['rows'][:2], sig['columns'][:2]} == {('0', '0'), ('0', '1')} and sig['values'][:1] == ('1',)
            if not good: okp = False; whyp = 'components of the map entries: %s' % {f: ('.'.join(v) if v is not None else '?') for f, v in sig.items()}
        ctx.check(okp, R + '/Quadratic::from_iter/rows-columns', 'T-CARRY', b.name, 'rows and columns are not filled from the two components of the key, values from the merged value (%s)' % whyp, b.site())
    # Quadratic*Quadratic and Polynomial*Polynomial: ids = id_r + id_l, value_l*value_r, every pair
    for ty in ('v1::Quadratic', 'v1::Polynomial'):
        b = ctx.F.one(ty, 'mul', trait='Mul', targs=[ty])
        if b is None: ctx.lost(R + '/%s*%s' % (ty, ty), 'Mul'); continue
        ctx.fn(b)
        sites = [s for s in accum_sites(ctx, b) if s['kind'] == 'add' and s['key'] is not None]
        ok = okv = bool(sites)
        for s in sites:
            ks = ctx.S.slice_operand(b, s['key'])
            ok = ok and {1, 2} <= ks.params and ks.has_call(r'SortedIds as std::ops::Add>::add')
            okv = okv and product_of_both(ctx, b, s['val'])
        short = ty.split('::')[-1]
        ctx.check(ok and okv, R + '/%s*%s/keys-and-values' % (short, short), 'T-CARRY', b.name, 'product terms are not (ids_l + ids_r, c_l * c_r)', b.site())
        ctx.check(every_pair(ctx, b, accum_sites(ctx, b)), R + '/%s*%s/every-pair' % (short, short), 'T-LOOPMUST', b.name, 'not every pair of terms contributes', b.site())
    # SortedIds::add keeps both operands' ids sorted
    b = ctx.F.one('sorted_ids::SortedIds', 'add', trait='Add')
    if b is not None:
        ctx.fn(b)
        rs = ctx.S.backslice(b, [0])
        ctx.check({1, 2} <= rs.params and (rs.has_call(r'sort') or rs.has_call(r'SortedIds::new') or rs.has_call('merge')), R + '/SortedIds::add', 'T-CARRY', b.name, 'concatenated ids are not re-sorted / do not contain both operands', b.site())
    ctx.floor(R, 10)


def product_of_both(ctx, b, val_operand):
    """the merged value is `c_l * c_r`: an f64 product with one factor from each operand.  The product may
    stand in this body or in a closure of an adaptor that was not spliced (then: a factor captured from the
    environment times a factor of the closure's item)."""
    vs = ctx.S.slice_operand(b, val_operand)
    if not {1, 2} <= vs.params: return False
    for bi, st in b.stmts():
        rv = st['rv']
        if rv['k'] == 'bin' and rv['op'] == 'Mul' and rv.get('ty') == 'f64' and st['dst']['l'] in vs.locals:
            s0 = ctx.S.slice_operand(b, rv['ops'][0]).params; s1 = ctx.S.slice_operand(b, rv['ops'][1]).params
            if (1 in s0 and 2 in s1) or (2 in s0 and 1 in s1): return True
    for cl in vs.closures:
        cb = ctx.F.bodies.get(cl)
        if cb is None: continue
        for bi, st in cb.stmts():
            rv = st['rv']
            if rv['k'] == 'bin' and rv['op'] == 'Mul' and rv.get('ty') == 'f64':
                s0 = ctx.S.slice_operand(cb, rv['ops'][0]).params; s1 = ctx.S.slice_operand(cb, rv['ops'][1]).params
                # param 1 of a closure body = its environment (captures), param 2 = the item
                if (1 in s0 and 2 in s1) or (2 in s0 and 1 in s1): return True
    return False


# =============================================================================== C02.kernel
def merge_rule(ctx, b, rid, ty, term_adt, keyf, valf):
    """same-type addition: every term of BOTH operands is merged into the result by `map[key] += coefficient`.
    Either the body has the merging loop(s) itself, or it hands an iterator over both operands' terms to a
    crate function that merges every item (Linear::new, FromIterator — decided from that function's body)."""
    short = ty.split('::')[-1]
    sites = accum_sites(ctx, b)
    loops = loops_of(ctx, b)
    rs = ctx.S.backslice(b, [0])
    probs = []; covered = set()
    for L in loops:
        ps = L['it'].params & {1, 2}
        if not ps or not L['it'].has_field(ty, 'terms'): continue
        touching = [s for s in sites if s['bb'] in L['blocks'] and innermost_loop(loops, s['bb']) is L]
        if not touching: continue                      # a loop that does not put anything into a map
        if any(s['map'] is not None and s['map'] not in rs.locals for s in touching): continue   # a map that does not reach the result
        ok, adds = loop_merges(b, L, sites)
        if restricted(L['it']): probs.append('the loop over the terms is restricted by %s' % restricted(L['it']))
        if not ok or any(s['kind'] == 'overwrite' for s in touching):
            probs.append('terms of operand %s are put into the map without `+=` (duplicates are lost)' % sorted(ps)); continue
        good = True
        for s in adds:
            if not site_reads(ctx, b, s, 'key', term_adt, keyf) or not site_reads(ctx, b, s, 'val', term_adt, valf): good = False
        if not good: probs.append('the merged entry is not (term.%s -> term.%s)' % (keyf, valf)); continue
        covered |= ps
    # delegation to a merging constructor
    for c in b.calls:
        if c not in rs.call_objs: continue
        for j in call_sink_params(ctx, c):
            if j - 1 >= len(c.args): continue
            s = ctx.S.slice_operand(b, c.args[j - 1])
            ps = {p for p, a, f in s.root_fields if f == 'terms'} & {1, 2}
            if not ps: continue
            if restricted(s): probs.append('the iterator handed to %s is restricted by %s' % (c.item, restricted(s))); continue
            if not (s.has_field(term_adt, keyf) and s.has_field(term_adt, valf)): probs.append('the items handed to %s are not (term.%s, term.%s)' % (c.item, keyf, valf)); continue
            covered |= ps
    if not probs and covered != {1, 2}: probs.append('terms of operand(s) %s never reach a merging `+=`' % sorted({1, 2} - covered))
    ctx.check(not probs, rid, 'T-BRANCHFX', b.name, 'terms of both operands are not merged by `map[key] += coefficient` for every term: ' + '; '.join(probs), b.site())


def key_is_raw(b, key_operand):
    """the key is the position as stored (possibly with its components in another FIXED order): one alternative, every
    component a plain projection of the item -- no min/max/sort/comparison-dependent choice.  Such a key map is
    injective; anything else may send two stored positions to the same key."""
    if key_operand is None: return False
    alts, complete = expr_alts(b, key_operand)
    if not complete or len(alts) != 1: return False
    t = T.strip_wrappers(alts[0])
    comps = t[2] if (t[0] == 'agg' and t[1] == 'tuple') else [t]
    paths = []
    for c in comps:
        c = T.strip_wrappers(c)
        if c[0] not in ('place', 'proj'): return False
        paths.append(tuple(f for a, f in c[2] if a == 'tuple'))
    return len(set(paths)) == len(paths)


def quad_merge_rule(ctx, b, rid):
    """Quadratic + Quadratic: the (row, column) entries of both operands reach the map the result is built from.
    One operand may be LOADED without accumulation (collect / insert), but only under keys that cannot collide -- the
    positions as stored (no duplicated positions in a valid operand); as soon as the key is transformed by a map that is
    not injective (ordering by min/max, a conditional swap, sorting) two stored positions (i,j), (j,i) can meet and every
    insertion must be an accumulating one.  The other operand is merged by `+=` on every iteration."""
    sites = accum_sites(ctx, b); loops = loops_of(ctx, b); rs = ctx.S.backslice(b, [0])
    probs = []; merged = set(); loaded = set()
    for L in loops:
        ps = L['it'].params & {1, 2}
        if not ps: continue
        touching = [x for x in sites if x['bb'] in L['blocks'] and innermost_loop(loops, x['bb']) is L]
        if not touching or any(x['map'] is not None and x['map'] not in rs.locals for x in touching): continue
        if restricted(L['it']): probs.append('the loop over the entries is restricted by %s' % restricted(L['it']))
        ok, adds = loop_merges(b, L, sites)
        over = [x for x in touching if x['kind'] == 'overwrite']
        if ok and not over: merged |= ps; continue
        if over and len(over) == len(touching):
            if all(key_is_raw(b, x['key']) for x in over): loaded |= ps
            else: probs.append('entries of operand %s are inserted without accumulation under a transformed key (ordered / swapped by comparison): two stored positions that collide overwrite each other' % sorted(ps))
            continue
        probs.append('entries of operand %s are put into the map without `+=`' % sorted(ps))
    for c in b.calls:
        # a whole iterator handed to collect / from_iter / extend of a map: loaded without accumulation
        if c.item not in ('collect', 'from_iter', 'extend') or not c.args: continue
        if c.item == 'extend': into = b.locals[c.args[0]['pl']['l']] if c.args[0]['k'] in ('copy', 'move') else ''
        else: into = b.locals[c.dst['l']]
        if not re.match(r'(&mut )?std::collections::(BTreeMap|HashMap)<', into.strip()): continue        # the destination is a map
        it = ctx.S.slice_operand(b, c.args[-1])
        ps = it.params & {1, 2}
        if not ps: continue
        hidden = sorted({x.item for x in it.call_objs if x.item in ('map', 'filter_map', 'flat_map', 'scan') and 'Iterator' in (x.trait or '')})
        if hidden: probs.append('entries of operand %s go through %s before a non-accumulating %s: the key cannot be seen' % (sorted(ps), hidden, c.item))
        else: loaded |= ps
    if not probs:
        if (merged | loaded) != {1, 2}: probs.append('entries of operand(s) %s never reach the map' % sorted({1, 2} - merged - loaded))
        elif len(loaded - merged) > 1: probs.append('both operands are loaded without accumulation: equal positions of the two operands are not added')
    ctx.check(not probs, rid, 'T-BRANCHFX', b.name, 'the quadratic entries of both operands are not merged exactly: ' + '; '.join(probs), b.site(), merged=sorted(merged), loaded=sorted(loaded))


def overwriting_loads(ctx, b, params=(1,)):
    """ways in which terms of an operand can be LOST on their way to the result because they pass through a keyed
    container filled without accumulation (two terms with the same key: the later one replaces the earlier one):
      * a plain insert / the insert the normal form makes of `.map(..).collect::<Map>()` / `extend`, not guarded by a
        lookup and not an `old + v` sum (accum_sites kind 'overwrite'),
      * a whole iterator handed to collect / from_iter / extend of a map,
      * dedup / dedup_by(_key) of a vector of terms.
    An accumulating merge (`+=` through entry / get_mut, lookup-guarded insert) is not a loss."""
    out = []
    rs = ctx.S.backslice(b, [0])
    loops = loops_of(ctx, b)
    for x in accum_sites(ctx, b):
        if x['kind'] != 'overwrite' or (x['map'] is not None and x['map'] not in rs.locals): continue
        L = innermost_loop(loops, x['bb'])
        src = L['it'].params if L is not None else ctx.S.slice_operand(b, x['val']).params
        if set(params) & src: out.append((x['bb'], 'terms are inserted into a map without accumulation: terms with the same key overwrite each other'))
    for c in b.calls:
        if c.item in ('collect', 'from_iter', 'extend') and c.args:
            if c.item == 'extend': into = b.locals[c.args[0]['pl']['l']] if c.args[0]['k'] in ('copy', 'move') else ''
            else: into = b.locals[c.dst['l']]
            if not re.match(r'(&mut )?std::collections::(BTreeMap|HashMap)<', into.strip()): continue
            if c.item != 'extend' and c.dst['l'] not in rs.locals: continue
            if set(params) & ctx.S.slice_operand(b, c.args[-1]).params:
                out.append((c.bb, 'terms are collected into a map (%s): terms with the same key overwrite each other' % c.item))
    for c, verdict, why in dedup_calls(ctx, b):
        if verdict == 'merge' or c.args[0]['k'] not in ('copy', 'move'): continue
        sl = ctx.S.slice_operand(b, c.args[0])
        if set(params) & sl.params and (sl.locals & rs.locals): out.append((c.bb, 'terms are removed by %s (%s)' % (c.item, why)))
    # elements taken out of a vector of the OPERAND itself (`self.terms.retain(..)`, remove, drain, truncate, clear, pop ...):
    # whatever is put back afterwards, a non-normalised operand may hold more such terms than the code accounts for
    for c in b.calls:
        if c.item not in REMOVERS or not re.search(r'\b(Vec|VecDeque)::<', c.name) or not c.args or c.args[0]['k'] not in ('copy', 'move'): continue
        fs, root, _ = T.access_path(b, c.args[0], transparent=T.TRANSPARENT_NOCLONE)
        if root in params and fs:
            out.append((c.bb, 'terms are taken out of the operand\'s %s by %s' % ('.'.join(f for a, f in fs) or 'vector', c.item)))
    return out


REMOVERS = ('retain', 'retain_mut', 'remove', 'swap_remove', 'drain', 'truncate', 'clear', 'pop', 'split_off', 'extract_if')


# ---- the threshold below which a coefficient is dropped -----------------------------------------
# The sum is exact coefficient by coefficient up to the documented dropping of coefficients below MACHINE EPSILON: a fixed,
# tiny bound.  A bound computed from the operands (`scale * EPSILON` with scale = the largest coefficient, a relative
# tolerance, a user-supplied epsilon) makes one coefficient's survival depend on unrelated terms of the same sum.
def const_value(ctx, body, e, _depth=0):
    """numeric value of an expression tree that is a constant: a literal / named constant, simple arithmetic of constants,
    or -- inside a closure -- a captured variable that is such a constant in the enclosing function; None otherwise"""
    e = T.strip_wrappers(e)
    if e[0] == 'const': return fval(body, e[1])
    if e[0] == 'bin' and _depth < 4:
        x, y = const_value(ctx, body, e[2], _depth + 1), const_value(ctx, body, e[3], _depth + 1)
        if x is None or y is None: return None
        try: return {'Mul': x * y, 'Add': x + y, 'Sub': x - y, 'Div': x / y}.get(e[1])
        except ZeroDivisionError: return None
    if e[0] == 'un' and e[1] == 'Neg' and _depth < 4:
        x = const_value(ctx, body, e[2], _depth + 1); return None if x is None else -x
    if e[0] == 'place' and e[1] == 1 and body.kind == 'closure' and e[2] and e[2][0][1].isdigit() and _depth < 3:
        # captured variable: look at what was captured where the closure is created
        parent = ctx.F.bodies.get(body.parent)
        for pb in ([parent] if parent is not None else []) + [x for x in ctx.F.bodies.values() if x.kind == 'closure' and x.parent == body.parent and x is not body]:
            for bi, st, cl in pb.closures_created():
                if cl == body.name and int(e[2][0][1]) < len(st['rv']['ops']):
                    return const_value(ctx, pb, T.expr(pb, st['rv']['ops'][int(e[2][0][1])]), _depth + 1)
    return None


def drop_threshold_problems(ctx, b):
    """magnitude tests `|x| (<|<=|>|>=) t` in body b and the closures created in it whose bound t is not a constant in
    (0, 1e-9]: [(site, description)]"""
    out = []
    bodies = [b] + [cb for cb in ctx.F.bodies.values() if cb.kind == 'closure' and cb.parent == (b.parent if b.kind != 'fn' else b.name)]
    for body in bodies:
        for bi, st in float_cmp_sites(body, ('Lt', 'Le', 'Gt', 'Ge')):
            es = [T.expr(body, o) for o in st['rv']['ops']]
            def is_mag(e):
                e = T.strip_wrappers(e); return e[0] == 'call' and e[1] == 'abs'
            mags = [is_mag(e) for e in es]                       # `|x|` itself on one side, the bound on the other
            if mags[0] == mags[1]: continue                       # not a magnitude-against-bound test
            bound = es[1] if mags[0] else es[0]
            v = const_value(ctx, body, bound)
            if v is None: out.append((body.site(bi), 'the bound %s is computed, not a constant' % T.expr_str(T.strip_wrappers(bound), 3)))
            elif not (0 < v <= 1e-9): out.append((body.site(bi), 'the bound %g is not a machine-epsilon sized constant' % v))
    return out


def constant_rule(ctx, b, rid):
    """constant of Linear + Linear is self.constant + rhs.constant — in the aggregate built here, or
    handed to a constructor that stores its parameter verbatim"""
    def is_sum(ex):
        ex = T.arith(ex)
        return ex[0] == 'bin' and ex[1] == 'Add' and {T.expr_str(ex[2]), T.expr_str(ex[3])} == {'_1.constant', '_2.constant'}
    verdict = None
    aggs = find_aggregates(b, 'v1::Linear')
    for bi, st in aggs:
        verdict = (verdict is not False) and is_sum(T.expr(b, agg_field_operand(st, 'constant')))
    if verdict is None:
        rs = ctx.S.backslice(b, [0])
        for c in b.calls:
            if c.dst['l'] != 0 and c not in rs.call_objs: continue
            cb = ctx.F.bodies.get(c.path) or ctx.F.bodies.get(c.name)
            if cb is None or cb.kind != 'fn' or not cb.locals[0].endswith('v1::Linear'): continue
            src = result_field_source(ctx, cb, 'v1::Linear', 'constant')
            if src and src[0] == 'param' and src[1] - 1 < len(c.args):
                verdict = is_sum(T.expr(b, c.args[src[1] - 1]))
    if verdict is None:
        # `out.constant = c1 + c2` on a value built elsewhere (field assignment instead of the aggregate)
        stores = [x for x in field_stores(b, 'v1::Linear', 'constant') if x[1] is not None]
        if stores and T.must_pass(b, 0, return_blocks(b), {x[0] for x in stores}):
            verdict = all(is_sum(e) for x in stores for e in store_alts(b, x)[0])
    if verdict is None:
        # not recognised: the weaker condition on the slice of the result's constant
        s = ctx.S.backslice(b, [(0, 'constant')])
        roots = {(p, f) for p, a, f in s.root_fields}
        adds = any(st['rv']['k'] == 'bin' and st['rv']['op'] == 'Add' and st['rv'].get('ty') == 'f64' and st['dst']['l'] in s.locals for bi, st in b.stmts())
        if {(1, 'constant'), (2, 'constant')} <= roots and adds:
            weakly(ctx, rid, 'T-BRANCHFX', b, 'the constant of the result is not built in a recognised way; it depends on both constants through an f64 addition'); return
        verdict = False
    ctx.check(verdict, rid, 'T-BRANCHFX', b.name, 'constant of the sum is not self.constant + rhs.constant', b.site())


def exact_zero_targets(b):
    """blocks entered only when the scalar (param 2) is exactly zero.  Idioms: `rhs.is_zero()`,
    `rhs == 0.0` / `0.0 == rhs`, `rhs != 0.0` (other side)."""
    out = set(); other = []
    def is_rhs(o): return T.strip_wrappers(T.expr(b, o))[:3] == ('place', 2, [])
    for c in b.calls:
        if c.item == 'is_zero' and c.args and is_rhs(c.args[0]):
            for g in T.guards_from_call(b, c):
                if g.true_bb is not None: out.add(g.true_bb)
    for bi, st in float_cmp_sites(b, ('Eq', 'Ne', 'Lt', 'Le', 'Gt', 'Ge')):
        rv = st['rv']
        cs = [fval(b, o['v']) for o in rv['ops'] if o['k'] == 'const']
        exact = rv['op'] in ('Eq', 'Ne') and cs == [0.0] and any(o['k'] != 'const' and is_rhs(o) for o in rv['ops'])
        for g in T.guards_from_local(b, st['dst']['l'], bi):
            if exact:
                t = g.true_bb if rv['op'] == 'Eq' else g.false_bb
                if t is not None: out.add(t)
            else:
                other.append('cmp %s %s' % (rv['op'], [o['v'] for o in rv['ops'] if o['k'] == 'const']))
    return out, other


def kernel_rules(ctx, impls=()):
    """hand-written kernels: same-type additions merge every term of both operands; scalar multiplication
    scales every coefficient and has no shortcut except for a scalar that is exactly zero"""
    R = 'C02.kernel'
    for ty, term_adt, keyf, valf in (('v1::Linear', 'v1::linear::Term', 'id', 'coefficient'), ('v1::Polynomial', 'v1::Monomial', 'ids', 'coefficient')):
        b = ctx.F.one(ty, 'add', trait='Add', targs=[ty])
        if b is None: ctx.lost(R + '/%s+%s' % (ty, ty), 'Add'); continue
        ctx.fn(b)
        short = ty.split('::')[-1]
        merge_rule(ctx, b, R + '/%s+%s/merge' % (short, short), ty, term_adt, keyf, valf)
        if ty == 'v1::Linear':
            constant_rule(ctx, b, R + '/Linear+Linear/constant')
    b = ctx.F.one('v1::Quadratic', 'add', trait='Add', targs=['v1::Quadratic'])
    if b is None: ctx.lost(R + '/Quadratic+Quadratic', 'Add')
    else:
        ctx.fn(b); quad_merge_rule(ctx, b, R + '/Quadratic+Quadratic/merge')
    # `X + scalar` keeps every term of X (only the constant changes); the same for any hand-written body that replaced a delegation
    todo = [('v1::Linear', 'Add', 'f64'), ('v1::Quadratic', 'Add', 'f64')] + [t for t, nb in new_kernels(ctx, impls)]
    for lhs, op, rhs in todo:
        b = ctx.F.one(lhs, op.lower(), trait=op, targs=[rhs] if rhs else None)
        if b is None: continue
        ctx.fn(b)
        ps = tuple(p for p, ty in ((1, lhs), (2, rhs)) if ty and ty != 'f64')
        lost = overwriting_loads(ctx, b, ps)
        rid = R + '/%s%s%s/every-term-kept' % (lhs.split('::')[-1], {'Add': '+', 'Sub': '-', 'Mul': '*', 'Neg': '-'}[op], (rhs or '').split('::')[-1])
        ctx.check(not lost, rid.replace('&', 'ref-'), 'T-BRANCHFX', b.name, 'a term of an operand can be lost: %s' % '; '.join(sorted({w for bb, w in lost})), b.site(lost[0][0]) if lost else b.site())
    # what is dropped from a sum is dropped under a fixed machine-epsilon sized bound, never one derived from the operands
    for ty in ('v1::Linear', 'v1::Polynomial', 'v1::Quadratic'):
        b = ctx.F.one(ty, 'add', trait='Add', targs=[ty])
        if b is None: continue                       # lost anchors are reported above
        short = ty.split('::')[-1]
        pr = drop_threshold_problems(ctx, b)
        ctx.check(not pr, R + '/%s+%s/drop-threshold' % (short, short), 'T-CONST', b.name, 'a coefficient of the sum is dropped under a bound that is not the fixed epsilon: %s' % '; '.join(w for s_, w in pr), pr[0][0] if pr else b.site())
    # the merge constructors themselves (everything that builds a function from (key, coefficient) pairs goes through them:
    # conversions between kinds, mixed-kind + and *, the products): items with equal keys are merged by ADDING -- through a
    # keyed container with `+=` (the add-site table), or sort + dedup_by adding the removed neighbour into the retained one
    for label, self_ty, item, trait, targs in (('Linear::new', 'v1::Linear', 'new', None, None),
                                               ('Linear::from_iter<(u64,f64)>', 'v1::Linear', 'from_iter', 'FromIterator', ['(u64, f64)']),
                                               ('Linear::from_iter<(Option<u64>,f64)>', 'v1::Linear', 'from_iter', 'FromIterator', ['(std::option::Option<u64>, f64)']),
                                               ('Quadratic::from_iter', 'v1::Quadratic', 'from_iter', 'FromIterator', ['((u64, u64), f64)']),
                                               ('Polynomial::from_iter', 'v1::Polynomial', 'from_iter', 'FromIterator', ['(sorted_ids::SortedIds, f64)'])):
        b = ctx.F.one(self_ty, item, trait=trait, targs=targs)
        rid = R + '/merge-constructor/' + label
        if b is None:
            ctx.lost(rid, label); continue
        ctx.fn(b)
        ok = 1 in merge_sink_params(ctx, b)
        why = [w for c, v, w in dedup_calls(ctx, b) if v == 'loss']
        ctx.check(ok, rid, 'T-BRANCHFX', b.name, 'items with equal keys are not merged by adding their coefficients for every item%s' % (': ' + '; '.join(why) if why else ''), b.site())
        pr = drop_threshold_problems(ctx, b)
        ctx.check(not pr, rid + '/drop-threshold', 'T-CONST', b.name, 'a merged coefficient is dropped under a bound that is not the fixed epsilon: %s' % '; '.join(w for s_, w in pr), pr[0][0] if pr else b.site())
    for ty, adt, fld in (('v1::Linear', 'v1::linear::Term', 'coefficient'), ('v1::Polynomial', 'v1::Monomial', 'coefficient'), ('v1::Quadratic', 'v1::Quadratic', 'values')):
        b = ctx.F.one(ty, 'mul', trait='Mul', targs=['f64'])
        if b is None: ctx.lost(R + '/%s*f64' % ty, 'Mul<f64>'); continue
        ctx.fn(b)
        short = ty.split('::')[-1]
        # scaling: every coefficient (and the constant of a Linear) is multiplied by rhs
        Ls = scaled_in_loop(ctx, b, adt, fld)
        ok = bool(Ls)
        if ty == 'v1::Linear':
            ok = ok and any(ctx.S.slice_operand(b, o).has_field('v1::Linear', 'constant') and innermost_loop(loops_of(ctx, b), bb) is None for bb, o in scale_sites(ctx, b))
        ctx.check(ok, R + '/%s*f64/scales' % short, 'T-BRANCHFX', b.name, 'coefficients are not multiplied by the scalar', b.site())
        # every term of the operand yields one term of the result: no keyed container in between that merges by overwrite
        # (a non-normalised operand may repeat an id / a monomial; x1 + x1 scaled by -1 is -2 x1, not -x1)
        lost = overwriting_loads(ctx, b, (1,))
        ctx.check(not lost, R + '/%s*f64/every-term-kept' % short, 'T-BRANCHFX', b.name, 'a scaled term can be lost: %s' % '; '.join(sorted({w for bb, w in lost})), b.site(lost[0][0]) if lost else b.site())
        # the only way around the scaling loop is a scalar that is exactly zero (a tiny non-zero scalar must still scale)
        zt, other = exact_zero_targets(b)
        via = {L['header'] for L in Ls} | zt
        okz = bool(Ls) and T.must_pass(b, 0, return_blocks(b), via)
        ctx.check(okz, R + '/%s*f64/only-exact-zero-shortcut' % short, 'T-GUARD', b.name,
                  'the function is returned without scaling under %s, not only for a scalar that is exactly 0' % (other or 'some condition'), b.site())
    ctx.floor(R, 28)


# =============================================================================== C02.sorted
# The term iterators yield SORTED ids however the operand is stored, and every map keyed by SortedIds relies on it
# (equal monomials must be equal keys).  `SortedIds` is a tuple struct around Vec<u64>; the invariant holds iff EVERY
# place that builds one (the aggregate `SortedIds(v)`) gets a sorted `v`.  Ways of having a sorted vector (one comment
# per entry):
#   v.sort() / sort_unstable() / sort_by(..) / sort_by_key(..) on every path to the aggregate, nothing appended afterwards
#   it.sorted() / sorted_unstable() .. collect()                       (itertools)
#   collected from a BTreeSet / BTreeMap iteration                     (ordered containers)
#   Vec::new() / vec![] / Vec::with_capacity(..) never written to      (empty)
#   the inner vector of an existing SortedIds, not written to          (already sorted)
#   at most one element: vec![x], vec![], one push onto an empty Vec   (nothing to order)
SORT_ITEMS = re.compile(r'^(sort|sort_unstable|sort_by|sort_by_key|sort_unstable_by|sort_unstable_by_key|sort_by_cached_key)$')
SORTED_ADAPTORS = re.compile(r'^(sorted|sorted_unstable|sorted_by|sorted_by_key|sorted_unstable_by|sorted_unstable_by_key|sorted_by_cached_key)$')
SORTED_IDS = 'sorted_ids::SortedIds'


def array_len(e):
    """N if the tree is a Vec made from an array literal of N elements (`vec![a, b]` in its lowerings:
    box_assume_init_into_vec_unsafe::<T, N>(Box::<[T; N]>::new_uninit()) or <[T]>::into_vec(Box::new([..])))"""
    for x in T.expr_walk(e):
        if x[0] == 'agg' and x[1] == 'array': return len(x[2])
        if x[0] == 'call':
            m = re.search(r'box_assume_init_into_vec_unsafe::<.*,\s*(\d+)>$', x[2]) or re.search(r'Box::<\[[^\]]*;\s*(\d+)\]>', x[2]) or \
                (re.search(r'\[[^\]]*;\s*(\d+)\]', x[2]) if x[1] in ('into_vec', 'from') else None)
            if m: return int(m.group(1))
    return None


def unsorted_constructions(ctx, b):
    """[(bb, why)] for every aggregate `SortedIds(v)` in body b whose `v` is not sorted by construction; second result:
    number of such aggregates looked at"""
    bad = []; n = 0
    for bi, st in find_aggregates(b, SORTED_IDS):
        if not st['rv']['ops']: continue
        n += 1
        v = st['rv']['ops'][0]
        fs, root, _ = T.access_path(b, v, transparent=T.TRANSPARENT_NOCLONE)
        # sorts and other writes applied to the same vector
        sorts = []; writes = []
        for c in b.calls:
            if not c.args or c.args[0]['k'] not in ('copy', 'move'): continue
            r = T.access_path(b, c.args[0], transparent=T.TRANSPARENT_NOCLONE)[1]
            if r != root or root is None: continue
            if SORT_ITEMS.match(c.item) and re.search(r'slice|Vec', c.name): sorts.append(c)
            elif T.MUT_CALL.search(c.name) and '&mut' in b.locals[c.args[0]['pl']['l']]: writes.append(c)
        if sorts:
            if not T.must_pass(b, 0, {bi}, {c.bb for c in sorts}):
                bad.append((bi, 'a path reaches the construction without sorting the ids')); continue
            late = [w for w in writes if w.target >= 0 and not T.must_pass(b, w.target, {bi}, {c.bb for c in sorts})]
            if late: bad.append((bi, 'ids are written (%s) after the sort' % sorted({w.item for w in late})))
            continue
        e = T.expr(b, v)
        calls = T.expr_calls(e)
        if any(SORTED_ADAPTORS.match(x[1]) for x in calls) and not writes: continue
        if any(x[1] in ('collect', 'from_iter', 'into_iter', 'iter', 'keys', 'into_keys') and re.search(r'BTreeSet|BTreeMap|btree_set::|btree_map::', x[2]) for x in calls) and not writes: continue
        se = T.strip_wrappers(e)
        if se[0] == 'call' and se[1] in ('new', 'with_capacity', 'default') and 'Vec' in se[2]:
            if not writes: continue
            # at most one element: only `push`es, and no push can follow another push (none in a loop, none after one)
            if all(w.item == 'push' for w in writes) and not any(w2.bb in b.reach([w1.target]) for w1 in writes for w2 in writes if w1.target >= 0): continue
        if not writes and array_len(e) is not None and array_len(e) <= 1: continue      # vec![x] / vec![]: 0 or 1 element
        if se[0] == 'place' and se[2] and _adt_is(se[2][-1][0], SORTED_IDS) and not writes: continue
        bad.append((bi, 'the ids (%s) are not sorted here' % T.expr_str(e, 3)))
    return bad, n


def cone_constructions(ctx, b):
    """unsorted constructions / number of constructions of SortedIds in the call-graph cone of b"""
    probs = []; n = 0
    for cb in cone_plus(ctx, b):
        if cb.kind == 'fn' and (cb.hdr.get('trait') or '').endswith('Clone'): continue      # derived Clone copies a sorted vector
        bd, k = unsorted_constructions(ctx, cb); n += k
        probs += ['%s: %s' % (cb.name.split('::')[-1] if cb.kind == 'fn' else 'closure in ' + cb.name.split('::')[-2], w) for bi, w in bd]
    return probs, n


def sorted_rules(ctx):
    """every construction of a SortedIds in the crate establishes the order (see the table above); a constructor that
    trusts its caller (`from_sorted`) moves the obligation to data the SDK does not control (row > column entries).
    One instance per public way of making a SortedIds (decided on its cone, so `add` written through `new` is the same
    thing), plus one per other body that builds the struct directly."""
    R = 'C02.sorted'
    anchors = [('new', None, None), ('empty', None, None), ('add', 'Add', None), ('from_iter', 'FromIterator', ['u64']), ('from', 'From', ['std::vec::Vec<u64>'])]
    own = set()
    for item, trait, targs in anchors:
        b = ctx.F.one(SORTED_IDS, item, trait=trait, targs=targs)
        rid = '%s/SortedIds::%s' % (R, item)
        if b is None:
            ctx.lost(rid, 'SortedIds::%s' % item); continue
        ctx.fn(b); own.add(b.name)
        probs, n = cone_constructions(ctx, b)
        ctx.check(n > 0 and not probs, rid, 'T-CARRY', b.name, 'a SortedIds is built from ids that are not sorted: %s' % ('; '.join(probs) or 'no construction found'), b.site(), constructions=n)
    for b in sorted(ctx.F.bodies.values(), key=lambda x: x.name):
        if b.kind not in ('fn', 'closure') or b.name in own: continue
        if b.kind == 'fn' and (b.hdr.get('trait') or '').endswith('Clone'): continue
        bad, n = unsorted_constructions(ctx, b)
        if not n: continue
        ctx.fn(b)
        rid = '%s/direct/%s' % (R, re.sub(r"&?'\w+ ", '', b.name).replace(' ', ''))
        ctx.check(not bad, rid, 'T-CARRY', b.name, 'a SortedIds is built from ids that are not sorted: %s' % '; '.join(w for bi, w in bad), b.site(bad[0][0]) if bad else b.site(), constructions=n)
    ctx.floor(R, len(anchors))


def sum_rules(ctx):
    """`impl Sum / Product for X`: the accumulation starts from the identity of the operation (0 / 1) and
    combines with that operation.  Decided on the constructors of Self that occur in the body, whatever
    the loop looks like (fold with a fn item, fold with a closure, explicit loop).
    Found on the pinned tree: `Sum for Linear` started from `Linear::from(0)`, which is `From<u64>` = the
    variable x0 (fixed by a `fix:` commit, see known_findings.json)."""
    import json as _json
    R = 'C02.sum'
    n = 0
    for b in sorted(ctx.F.bodies.values(), key=lambda x: x.name):
        if b.kind != 'fn': continue
        tr = b.hdr.get('trait') or ''
        if tr not in ('std::iter::Sum', 'std::iter::Product'): continue
        if (b.hdr.get('targs') or [None])[0] != b.hdr.get('self'): continue      # Sum<&X> etc. delegate; only Sum<Self>
        ctx.fn(b)
        kind = tr.rsplit('::', 1)[1]; selfty = b.hdr.get('self') or '?'
        ident = 0.0 if kind == 'Sum' else 1.0
        rid = '%s/%s/%s' % (R, selfty.split('::')[-1], kind)
        good, bad = [], []
        for c in b.calls:
            st = norm_ty(c.self_ty or '')
            if (c.trait or '').endswith('convert::From') and c.item == 'from' and st == norm_ty(selfty):
                src = (c.hdr.get('targs') or ['?'])[0]
                val = fval(b, c.args[0]['v']) if c.args and c.args[0]['k'] == 'const' else None
                (good if (src == 'f64' and val == ident) else bad).append('From<%s>(%s)' % (src, c.args[0].get('v') if c.args and c.args[0]['k'] == 'const' else '?'))
            elif st == norm_ty(selfty) and c.item in ('zero', 'one', 'default', 'new', 'single_term'):
                ok = (c.item == 'zero' and kind == 'Sum') or (c.item == 'one' and kind == 'Product') or (c.item == 'default' and kind == 'Sum')
                (good if ok else bad).append(c.item + '()')
        ctx.check(bool(good) and not bad, rid + '/starts-from-identity', 'T-CONST', b.name,
                  'accumulation does not start from the %s of %s: identity constructors %s, other constructors %s' % ('zero' if kind == 'Sum' else 'one', selfty, good, bad), b.site())
        text = _json.dumps(b.d['blocks'])
        want, others = ('ops::Add', ('ops::Sub', 'ops::Mul', 'ops::Neg')) if kind == 'Sum' else ('ops::Mul', ('ops::Add', 'ops::Sub', 'ops::Neg'))
        ctx.check(want in text and not any(o in text for o in others), rid + '/combines-with-the-operation', 'T-DELEG', b.name,
                  'elements are not combined with %s only' % want, b.site())
        n += 1
    ctx.floor(R, 6)


def check(ctx):
    impls = op_impls(ctx)
    table_rules(ctx, impls); deleg_rules(ctx, impls); dispatch_rules(ctx); branches_rules(ctx, impls); iter_rules(ctx); keys_rules(ctx); kernel_rules(ctx, impls)
    sorted_rules(ctx)
    sum_rules(ctx)
