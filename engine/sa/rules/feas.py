"""Shared analysis of the feasibility rule (|f| < tol for equalities, f < tol for inequalities)."""
from .common import *


def _describe_cmp(b, st):
    rv = st['rv']; op = rv['op']
    l = T.expr(b, rv['ops'][0]); r = T.expr(b, rv['ops'][1])
    def is_value(e):
        if T.expr_has_call(e, 'abs'): return True
        if any(f in ('evaluated_value',) for a, f in T.expr_fields(e)): return True
        if b.kind == 'closure':
            return any(x[0] == 'place' and x[1] >= 2 for x in T.expr_walk(e))
        return False
    def is_tol(e):
        return not is_value(e)
    # which side is the tolerance?
    lt, rt = is_tol(l), is_tol(r)
    if lt and not rt:
        l, r = r, l
        op = {'Lt': 'Gt', 'Gt': 'Lt', 'Le': 'Ge', 'Ge': 'Le'}.get(op, op)
    tol = T.strip_wrappers(r)
    tolv = T.f64_const(tol[1]) if tol[0] == 'const' else 'given'
    return dict(op=op, abs=T.expr_has_call(l, 'abs'), tol=tolv, value=T.expr_str(l), neg=any(x[0] == 'un' and x[1] == 'Neg' for x in T.expr_walk(l)))


def _cmps_in(ctx, b, blocks, depth=0):
    out = []
    for bi, st in b.stmts():
        if bi in blocks and st['rv']['k'] == 'bin' and st['rv']['op'] in ('Lt', 'Le', 'Gt', 'Ge') and st['rv'].get('ty') == 'f64':
            out.append(_describe_cmp(b, st))
    if depth < 3:
        for bi, st, cl in b.closures_created():
            if bi in blocks:
                cb = ctx.F.bodies.get(cl)
                if cb is not None: out += _cmps_in(ctx, cb, cb.live, depth + 1)
    return out


def feasibility_table(ctx, body):
    """{variant: [comparison descriptors on the side where equality == variant]}, uncovered_ok:
    True if an Ok-exit is reachable with every equality test false"""
    table = {}; true_targets = set(); tests = 0
    for c in body.calls:
        if c.item in ('eq', 'ne') and 'PartialEq' in (c.trait or '') and re.search(r'v1::Equality$', c.self_ty or ''):
            vs = [enum_variant_of_operand(ctx, body, a) for a in c.args]
            var = [v.split('::')[-1] for v in vs if v and 'Equality::' in v]
            if not var: continue
            for g in T.guards_from_call(body, c):
                tests += 1
                tb, fb = (g.true_bb, g.false_bb) if c.item == 'eq' else (g.false_bb, g.true_bb)
                if tb is None: continue
                true_targets.add(tb)
                region = T.reach_cp(body, [tb]) - (T.reach_cp(body, [fb]) if fb is not None else set())
                table.setdefault(var[0], []).extend(_cmps_in(ctx, body, region))
    # discriminant-style matches on the i32 / enum are not used by the repository today; if none
    # of the eq tests are found the table is empty and the rule reports it
    rest = body.reach([0], stop=true_targets)
    uncovered_ok = bool(rest & body.strict_ok_exits()) if tests else True
    return table, uncovered_ok


WANT = {'EqualToZero': dict(op='Lt', abs=True), 'LessThanOrEqualToZero': dict(op='Lt', abs=False)}


def check_feasibility_rule(ctx, rule, body, tol_expect):
    """tol_expect: 'given' (tolerance is a parameter) or a float"""
    table, uncovered = feasibility_table(ctx, body)
    ctx.check(set(table) == set(WANT), rule + '/variants', 'T-TABLE', body.name, 'equality kinds handled: %s, expected %s' % (sorted(table), sorted(WANT)), body.site())
    for var, want in WANT.items():
        got = table.get(var, [])
        ok = len(got) == 1 and got[0]['op'] == want['op'] and got[0]['abs'] == want['abs'] and not got[0]['neg']
        ctx.check(ok, rule + '/' + var, 'T-BRANCHFX', body.name,
                  '%s must be decided by `%svalue%s < tol` (strict), found %s' % (var, '|' if want['abs'] else '', '|' if want['abs'] else '', got), body.site(), found=got)
        if len(got) == 1:
            t = got[0]['tol']
            okt = (t == 'given') if tol_expect == 'given' else (isinstance(t, float) and abs(t - tol_expect) <= 1e-12 * abs(tol_expect))
            ctx.check(okt, rule + '/' + var + '/tolerance', 'T-CONST', body.name, 'tolerance is %r, expected %r' % (t, tol_expect), body.site())
    ctx.check(not uncovered and bool(body.err_exits()), rule + '/other-is-error', 'T-TABLE', body.name, 'an unsupported equality kind does not lead to an error', body.site())
    return table
