"""Normal form of the mini-MIR, so that rules see the same shape for equivalent ways of writing a loop.

Two rewrites, both purely syntactic on the facts of the *current* tree (nothing is executed):

 1. helper inlining   – a call to a crate function that is NOT in the table of functions known on
                        the pinned tree (tables/known_fns.json) is replaced by the callee's body.  On
                        the pinned tree this is the identity; after an "extract helper" edit the rules
                        see the code where it used to be.
 2. iterator desugaring – `it.map(f).filter(g)….consumer(h)` becomes the explicit loop a `for` would
                        lower to (`next` + switch on the Option), with the closures' bodies spliced in
                        and captured variables substituted.  Consumers: for-loops over adapted
                        iterators, collect / from_iter (Vec, maps, sets, Result<_,_>, Option<_>),
                        extend, sum / product of primitives, fold, try_fold, for_each, try_for_each,
                        find, find_map, any, all, position.  Adaptors: map, filter, filter_map,
                        inspect, flat_map, take_while, map_while (only the ones directly below the
                        consumer; what is below the first other adaptor stays the base iterator).

Anything not recognised is left exactly as it was.
"""
import copy, json, os, re

CLOSURE_ADAPTORS = ('map', 'filter', 'filter_map', 'inspect', 'flat_map', 'take_while', 'map_while')
CONSUMERS = ('collect', 'sum', 'product', 'fold', 'try_fold', 'for_each', 'try_for_each', 'find', 'find_map',
             'any', 'all', 'position')
PRIM = re.compile(r'^(f32|f64|u8|u16|u32|u64|u128|usize|i8|i16|i32|i64|i128|isize)$')
MAX_INLINE_BLOCKS = 400
MAX_DEPTH = 4


def _is_iter_trait(t):
    ri = t.get('ri') or {}
    return (ri.get('trait') or '') == 'std::iter::Iterator'


def _pl(l, p=None):
    return {'l': l, 'p': list(p or [])}


def _mv(l, p=None):
    return {'k': 'move', 'pl': _pl(l, p)}


def _cp(l, p=None):
    return {'k': 'copy', 'pl': _pl(l, p)}


def _const(ty, v):
    return {'k': 'const', 'ty': ty, 'v': v}


def _use(dst, op, line=0):
    return {'dst': dst if isinstance(dst, dict) else _pl(dst), 'rv': {'k': 'use', 'ops': [op]}, 'line': line}


def _ref(dst, pl, mut=False, line=0):
    return {'dst': _pl(dst), 'rv': {'k': 'ref', 'mut': mut, 'pl': pl}, 'line': line}


def _discr(dst, pl, line=0):
    return {'dst': _pl(dst), 'rv': {'k': 'discr', 'pl': pl}, 'line': line}


def _agg(dst, adt, ops, fields=None, line=0):
    return {'dst': dst if isinstance(dst, dict) else _pl(dst), 'rv': {'k': 'agg', 'adt': adt, 'fields': fields or [], 'ops': ops}, 'line': line}


def _bin(dst, op, ty, a, b, line=0):
    return {'dst': _pl(dst), 'rv': {'k': 'bin', 'op': op, 'ty': ty, 'ops': [a, b]}, 'line': line}


SOME0 = [{'dc': 'Some'}, {'f': '0', 'of': 'std::option::Option::Some'}]
CONT0 = [{'dc': 'Continue'}, {'f': '0', 'of': 'std::ops::ControlFlow::Continue'}]
BREAK0 = [{'dc': 'Break'}, {'f': '0', 'of': 'std::ops::ControlFlow::Break'}]


def mk_call(name, path, trait, self_ty, item, args, dst, target, span, ga=None):
    return {'k': 'call', 'f': name, 'r': name, 'fp': path, 'rp': path,
            'ri': {'trait': trait, 'targs': [], 'self': self_ty, 'item': item}, 'ga': ga or [],
            'args': args, 'dst': dst if isinstance(dst, dict) else _pl(dst), 't': target, 'span': span, 'synthetic': True}


class Rewriter:
    """mutable copy of one body"""

    def __init__(self, d):
        self.d = copy.deepcopy(d)
        self.locals = self.d['locals']; self.blocks = self.d['blocks']
        self.changed = False

    def new_local(self, ty='?'):
        self.locals.append(ty); return len(self.locals) - 1

    def new_block(self, st=None, term=None, cleanup=False):
        self.blocks.append({'cleanup': cleanup, 'st': st or [], 'term': term or {'k': 'unreachable'}})
        return len(self.blocks) - 1

    def goto(self, bb, target):
        self.blocks[bb]['term'] = {'k': 'goto', 't': target}

    # ---- def lookup on the body under construction (whole-local definitions only)
    def defs(self, local):
        out = []
        for bi, b in enumerate(self.blocks):
            for st in b['st']:
                if 'dst' in st and st['dst']['l'] == local: out.append(('stmt', bi, st))
            t = b['term']
            if t['k'] == 'call' and t['dst']['l'] == local: out.append(('call', bi, t))
        return out

    def single_def(self, local):
        ds = [x for x in self.defs(local)]
        whole = [x for x in ds if (x[2]['dst']['p'] == [])]
        if len(ds) == 1 and len(whole) == 1: return whole[0]
        return None

    def reads(self, local):
        """number of places that mention `local` other than as the destination of its definition (drops not counted)"""
        def walk(x):
            if isinstance(x, dict):
                if 'l' in x and 'p' in x and x['l'] == local: return 1
                return sum(walk(v) for v in x.values())
            if isinstance(x, list):
                return sum(walk(v) for v in x)
            return 0
        n = 0
        for b in self.blocks:
            for st in b['st']:
                n += walk(st.get('rv'))
                if 'dst' in st and st['dst']['l'] == local and st['dst']['p']: n += 1
            t = b['term']
            if t['k'] == 'drop': continue
            n += sum(walk(v) for k, v in t.items() if k != 'dst')
            if 'dst' in t and t['dst']['l'] == local and t['dst']['p']: n += 1
        return n

    # ---- splice a callee body
    promoted_of = None      # set by the Normalizer: (const text, callee name) -> resolvable const text

    def splice(self, cb, arg_ops, dst, cont_bb, span, captures=None):
        """copy callee body `cb` (a dict) into this body; returns the entry block.
        arg_ops: operands for callee args 1..argc.  dst: place receiving the result.
        captures: for closures, list of operands captured (closure aggregate ops) — places rooted at
        the environment argument are rewritten to the captured operand."""
        off = len(self.locals)
        boff = len(self.blocks)
        n = len(cb['locals'])
        lmap = {}
        for i in range(n):
            lmap[i] = off + i
        self.locals.extend(cb['locals'])
        direct_ret = (dst['p'] == [])
        if direct_ret: lmap[0] = dst['l']
        env_by_ref = captures is not None and n > 1 and cb['locals'][1].lstrip().startswith('&')

        def map_place(pl):
            l = pl['l']; p = pl['p']
            if captures is not None and l == 1:
                q = list(p)
                if env_by_ref and q and q[0] == '*': q = q[1:]
                elif env_by_ref: q = None
                if q and isinstance(q[0], dict) and 'f' in q[0] and q[0]['f'].isdigit():
                    k = int(q[0]['f'])
                    if k < len(captures) and captures[k]['k'] in ('copy', 'move'):
                        base = captures[k]['pl']
                        return {'l': base['l'], 'p': list(base['p']) + [map_proj(x) for x in q[1:]]}
            return {'l': lmap[l], 'p': [map_proj(x) for x in p]}

        def map_proj(x):
            if isinstance(x, dict) and 'ix' in x:
                y = dict(x); y['ix'] = lmap[x['ix']]; return y
            return x

        def map_op(o):
            if o['k'] in ('copy', 'move'):
                return {'k': 'copy' if captures is not None and o['pl']['l'] == 1 else o['k'], 'pl': map_place(o['pl'])}
            if o['k'] == 'const' and self.promoted_of is not None and o.get('v', '').endswith(']') and '::promoted[' in o['v']:
                o2 = dict(o); o2['v'] = self.promoted_of(o['v'], cb['fn']); return o2
            return o

        def map_rv(rv):
            r = dict(rv)
            if 'ops' in r: r['ops'] = [map_op(o) for o in r['ops']]
            if 'pl' in r: r['pl'] = map_place(r['pl'])
            return r

        for bi, b in enumerate(cb['blocks']):
            st2 = []
            for st in b['st']:
                s = dict(st)
                if 'dst' in s:
                    s['dst'] = map_place(s['dst']); s['rv'] = map_rv(s['rv'])
                st2.append(s)
            t = b['term']; k = t['k']
            if k == 'return':
                if not direct_ret:
                    st2.append(_use(dst, _mv(lmap[0])))
                t2 = {'k': 'goto', 't': cont_bb}
            elif k == 'call':
                t2 = dict(t)
                t2['args'] = [map_op(a) for a in t['args']]
                t2['dst'] = map_place(t['dst'])
                t2['t'] = t['t'] + boff if t['t'] >= 0 else t['t']
            elif k == 'switch':
                t2 = dict(t)
                t2['d'] = map_op(t['d'])
                t2['ts'] = [[v, tb + boff] for v, tb in t['ts']]
                t2['else'] = t['else'] + boff
            elif k in ('goto', 'drop', 'assert'):
                t2 = dict(t); t2['t'] = t['t'] + boff
                if 'pl' in t2: t2['pl'] = map_place(t2['pl'])
                if 'cond' in t2 and isinstance(t2['cond'], dict): t2['cond'] = map_op(t2['cond'])
            else:
                t2 = dict(t)
            self.blocks.append({'cleanup': b['cleanup'], 'st': st2, 'term': t2})
        # argument assignments
        st = []
        for i, a in enumerate(arg_ops):
            if i + 1 < n: st.append(_use(lmap[i + 1], a, span.get('lo', 0) if span else 0))
        entry = self.new_block(st, {'k': 'goto', 't': boff})
        self.changed = True
        return entry


class Normalizer:
    def __init__(self, facts, known_fns=None, loops=True):
        self.F = facts
        self.known = known_fns          # set of function def paths known on the pinned tree; None = inline nothing
        self.loops = loops
        self.memo = {}
        self.stack = []
        self.inlined_closures = set()
        self.stats = {'helpers_inlined': 0, 'closures_inlined': 0, 'loops_made': 0, 'adaptors_removed': 0, 'bodies_changed': 0}

    # ------------------------------------------------------------------ entry
    def body(self, name):
        if name in self.memo: return self.memo[name]
        b = self.F.bodies.get(name)
        if b is None: return None
        if name in self.stack or len(self.stack) > MAX_DEPTH:
            return b.d                      # recursion: use the original
        self.stack.append(name)
        try:
            d = self._normalize(b.d)
        finally:
            self.stack.pop()
        self.memo[name] = d
        return d

    def _normalize(self, d):
        if d.get('kind') == 'promoted': return d
        rw = Rewriter(d)
        rw.promoted_of = self._promoted_of
        if self.known is not None:
            self._inline_helpers(rw)
        if self.loops:
            for _ in range(40):
                if not self._desugar_one(rw): break
        if rw.changed:
            self.stats['bodies_changed'] += 1
            return rw.d
        return d

    def _promoted_of(self, v, callee):
        if v in self.F.bodies: return v
        m = re.search(r'::promoted\[(\d+)\]$', v)
        cand = '%s::promoted[%s]' % (callee, m.group(1))
        return cand if cand in self.F.bodies else v

    # ------------------------------------------------------------------ 1. helpers
    def _inline_helpers(self, rw):
        i = 0
        while i < len(rw.blocks):
            t = rw.blocks[i]['term']
            if t['k'] == 'call' and not t.get('synthetic') and not rw.blocks[i]['cleanup']:
                callee = t.get('rp') or t.get('fp')
                name = self._helper_name(t)
                if name is not None and t['t'] >= 0:
                    cd = self.body(name)
                    if cd is not None and len(cd['blocks']) <= MAX_INLINE_BLOCKS and cd['argc'] == len(t['args']):
                        entry = rw.splice(cd, t['args'], t['dst'], t['t'], t.get('span'))
                        rw.goto(i, entry)
                        self.stats['helpers_inlined'] += 1
            i += 1

    def _helper_name(self, t):
        """def path of a crate function that did not exist on the pinned tree"""
        for key in ('rp', 'fp', 'r', 'f'):
            nm = t.get(key)
            if not nm: continue
            b = self.F.bodies.get(nm)
            if b is not None and b.kind == 'fn':
                if nm in self.known: return None
                return nm
        return None

    # ------------------------------------------------------------------ 2. iterators
    def _closure_of(self, rw, op):
        """(closure body dict, captures) for an operand that is a closure value"""
        if op['k'] not in ('copy', 'move') or op['pl']['p']: return None
        d = rw.single_def(op['pl']['l'])
        if d is None or d[0] != 'stmt': return None
        rv = d[2]['rv']
        if rv['k'] == 'use' and rv['ops'][0]['k'] in ('copy', 'move') and not rv['ops'][0]['pl']['p']:
            return self._closure_of(rw, rv['ops'][0])
        if rv['k'] != 'agg' or not rv['adt'].startswith('closure:'): return None
        cd = self.body(rv['adt'][8:])
        if cd is None: return None
        self.inlined_closures.add(rv['adt'][8:])      # every caller of _closure_of splices the body (or gives up)
        return cd, rv['ops']

    def _walk_chain(self, rw, local):
        """follow the iterator value backwards through closure adaptors.
        returns (base_local, [(kind, closure_info, call_bb)], bottom-up order reversed to application order)"""
        chain = []
        cur = local
        for _ in range(30):
            d = rw.single_def(cur)
            if d is None: break
            kind, bi, obj = d
            if kind == 'stmt':
                rv = obj['rv']
                if rv['k'] == 'use' and rv['ops'][0]['k'] in ('move', 'copy') and not rv['ops'][0]['pl']['p']:
                    cur = rv['ops'][0]['pl']['l']; continue
                break
            t = obj
            ri = t.get('ri') or {}
            item = ri.get('item'); tr = ri.get('trait') or ''
            if tr == 'std::iter::Iterator' and item in CLOSURE_ADAPTORS and len(t['args']) == 2 and t['args'][0]['k'] in ('move', 'copy') and not t['args'][0]['pl']['p']:
                ci = self._closure_of(rw, t['args'][1])
                if ci is None: break
                chain.append((item, ci, bi))
                cur = t['args'][0]['pl']['l']; continue
            if tr == 'std::iter::IntoIterator' and item == 'into_iter' and chain == [] and t['args'] and t['args'][0]['k'] in ('move', 'copy') and not t['args'][0]['pl']['p']:
                # `for x in <adapted iterator>`: into_iter of an iterator is the identity
                a = t['args'][0]['pl']['l']
                d2 = rw.single_def(a)
                for _k in range(4):     # `let it = xs.iter().map(f); for x in it`: plain moves between the adaptor and into_iter
                    if d2 is not None and d2[0] == 'stmt' and d2[2]['rv']['k'] == 'use' and d2[2]['rv']['ops'][0]['k'] in ('move', 'copy') \
                            and not d2[2]['rv']['ops'][0]['pl']['p']:
                        a = d2[2]['rv']['ops'][0]['pl']['l']; d2 = rw.single_def(a)
                    else: break
                if d2 is not None and d2[0] == 'call' and _is_iter_trait(d2[2]) and (d2[2]['ri'].get('item') in CLOSURE_ADAPTORS):
                    cur = a; continue
            break
        chain.reverse()
        return cur, chain

    def _strip_adaptors(self, rw, chain):
        for kind, ci, bi in chain:
            t = rw.blocks[bi]['term']
            rw.blocks[bi]['st'].append(_use(t['dst'], t['args'][0], (t.get('span') or {}).get('lo', 0)))
            rw.goto(bi, t['t'])
            self.stats['adaptors_removed'] += 1
        rw.changed = True

    def _emit_adaptors(self, rw, chain, item_op, span, cont, exhausted):
        """emit the per-item code of the adaptors; returns (entry_bb, last_bb (open, to be terminated by caller), item operand, cont)"""
        entry = rw.new_block(); cur = entry
        line = (span or {}).get('lo', 0)
        for kind, (cd, caps), _ in chain:
            if kind in ('map',):
                r = rw.new_local(cd['locals'][0]); nxt = rw.new_block()
                e = rw.splice(cd, [_const('()', 'env'), item_op], _pl(r), nxt, span, captures=caps)
                rw.goto(cur, e); cur = nxt; item_op = _mv(r)
                self.stats['closures_inlined'] += 1
            elif kind in ('filter', 'take_while', 'inspect'):
                il = rw.new_local('?'); rl = rw.new_local('&?')
                rw.blocks[cur]['st'].append(_use(il, item_op, line))
                rw.blocks[cur]['st'].append(_ref(rl, _pl(il), False, line))
                r = rw.new_local(cd['locals'][0]); nxt = rw.new_block()
                e = rw.splice(cd, [_const('()', 'env'), _mv(rl)], _pl(r), nxt, span, captures=caps)
                rw.goto(cur, e); item_op = _mv(il)
                self.stats['closures_inlined'] += 1
                if kind == 'inspect':
                    cur = nxt
                else:
                    keep = rw.new_block()
                    rw.blocks[nxt]['term'] = {'k': 'switch', 'd': _mv(r), 'ts': [[0, cont if kind == 'filter' else exhausted]], 'else': keep}
                    cur = keep
            elif kind in ('filter_map', 'map_while'):
                r = rw.new_local(cd['locals'][0]); nxt = rw.new_block()
                e = rw.splice(cd, [_const('()', 'env'), item_op], _pl(r), nxt, span, captures=caps)
                rw.goto(cur, e)
                self.stats['closures_inlined'] += 1
                dl = rw.new_local('isize'); keep = rw.new_block(); un = rw.new_block()
                rw.blocks[nxt]['st'].append(_discr(dl, _pl(r), line))
                rw.blocks[nxt]['term'] = {'k': 'switch', 'd': _mv(dl), 'ts': [[0, cont if kind == 'filter_map' else exhausted], [1, keep]], 'else': un}
                cur = keep; item_op = _mv(r, SOME0)
            elif kind == 'flat_map':
                r = rw.new_local(cd['locals'][0]); nxt = rw.new_block()
                e = rw.splice(cd, [_const('()', 'env'), item_op], _pl(r), nxt, span, captures=caps)
                rw.goto(cur, e)
                self.stats['closures_inlined'] += 1
                it2 = rw.new_local('?iter'); h2 = rw.new_block()
                rw.blocks[nxt]['term'] = mk_call('<? as std::iter::IntoIterator>::into_iter', 'std::iter::IntoIterator::into_iter', 'std::iter::IntoIterator', None, 'into_iter', [_mv(r)], it2, h2, span)
                o2, some2 = self._emit_next(rw, h2, it2, span, cont)
                cur = some2; item_op = _mv(o2, SOME0); cont = h2
            else:
                raise AssertionError(kind)
        return entry, cur, item_op, cont

    def _emit_next(self, rw, head, it_local, span, none_target):
        """fill block `head` with `o = next(&mut it)`; returns (o, some_bb)"""
        line = (span or {}).get('lo', 0)
        rl = rw.new_local('&mut ?iter'); o = rw.new_local('std::option::Option<?>'); dl = rw.new_local('isize')
        sw = rw.new_block(); some = rw.new_block(); un = rw.new_block()
        rw.blocks[head]['st'].append(_ref(rl, _pl(it_local), True, line))
        rw.blocks[head]['term'] = mk_call('<? as std::iter::Iterator>::next', 'std::iter::Iterator::next', 'std::iter::Iterator', None, 'next', [_mv(rl)], o, sw, span)
        rw.blocks[sw]['st'].append(_discr(dl, _pl(o), line))
        rw.blocks[sw]['term'] = {'k': 'switch', 'd': _mv(dl), 'ts': [[0, none_target], [1, some]], 'else': un}
        return o, some

    def _desugar_one(self, rw):
        """find one consumer with a closure chain (or closure argument) and rewrite it; True if something changed"""
        for bi, b in enumerate(rw.blocks):
            if b['cleanup']: continue
            t = b['term']
            if t['k'] != 'call' or t.get('synthetic') or t.get('desugared'): continue
            ri = t.get('ri') or {}
            tr = ri.get('trait') or ''; item = ri.get('item')
            try:
                if tr == 'std::iter::Iterator' and item == 'next':
                    if self._desugar_for(rw, bi, t): return True
                elif tr == 'std::iter::Iterator' and item in CONSUMERS and t['t'] >= 0:
                    if self._desugar_consumer(rw, bi, t, item): return True
                elif tr == 'std::iter::Extend' and item == 'extend' and t['t'] >= 0:
                    if self._desugar_extend(rw, bi, t): return True
                elif tr == 'std::iter::FromIterator' and item == 'from_iter' and t['t'] >= 0:
                    if self._desugar_consumer(rw, bi, t, 'collect'): return True
            except _GiveUp:
                t['desugared'] = 'gave-up'
        return False

    # ---- for x in adapted { .. }
    def _desugar_for(self, rw, bi, t):
        a = t['args'][0]
        if a['k'] not in ('move', 'copy'): return False
        # &mut it -> it
        cur = a['pl']['l']
        for _ in range(6):
            d = rw.single_def(cur)
            if d is None or d[0] != 'stmt': break
            rv = d[2]['rv']
            if rv['k'] == 'ref' and rv['pl']['p'] in ([], ['*']): cur = rv['pl']['l']; continue
            if rv['k'] == 'use' and rv['ops'][0]['k'] in ('move', 'copy') and not rv['ops'][0]['pl']['p']: cur = rv['ops'][0]['pl']['l']; continue
            break
        # cur is the loop's iterator variable; it is defined once by `use(into_iter result)`
        base, chain = self._walk_chain(rw, cur)
        t['desugared'] = True
        if not chain: return False
        # Option switch after the call
        o = t['dst']['l']
        sw = t['t']
        if sw < 0: return False
        swt = rw.blocks[sw]['term']
        if swt['k'] != 'switch': return False
        m = dict((v, tb) for v, tb in swt['ts'])
        if 1 not in m or 0 not in m: return False
        some_bb, none_bb = m[1], m[0]
        self._strip_adaptors(rw, chain)
        entry, last, item_op, cont = self._emit_adaptors(rw, chain, _mv(o, SOME0), t.get('span'), bi_header(rw, bi), none_bb)
        il = rw.new_local('?')
        rw.blocks[last]['st'].append(_use(il, item_op, (t.get('span') or {}).get('lo', 0)))
        rw.goto(last, some_bb)
        swt['ts'] = [[v, (entry if v == 1 else tb)] for v, tb in swt['ts']]
        # the loop body reads (_o as Some).0 : redirect to the adapted item
        skip = set(range(entry, len(rw.blocks)))
        _subst_prefix(rw, o, SOME0, il, skip_blocks=skip)
        self.stats['loops_made'] += 1
        return True

    # ---- it.consumer(..)
    def _desugar_consumer(self, rw, bi, t, item):
        a = t['args'][0]
        if a['k'] not in ('move', 'copy') or a['pl']['p']: return False
        start = a['pl']['l']
        # consumers with a `&mut self` receiver (`it.filter(p).try_fold(..)`, `find`, `any`, ..): the receiver is
        # `&mut <temporary>`; look through the borrow when the temporary is mentioned nowhere else
        d0 = rw.single_def(start)
        if d0 is not None and d0[0] == 'stmt' and d0[2]['rv']['k'] == 'ref' and d0[2]['rv']['pl']['p'] == [] \
                and rw.reads(start) == 1 and rw.reads(d0[2]['rv']['pl']['l']) == 1:
            start = d0[2]['rv']['pl']['l']
        base, chain = self._walk_chain(rw, start)
        t['desugared'] = True
        span = t.get('span'); line = (span or {}).get('lo', 0)
        dst = t['dst']; after = t['t']
        dty = rw.locals[dst['l']] if not dst['p'] else '?'
        closure_args = []
        for x in t['args'][1:]:
            closure_args.append(self._closure_of(rw, x))
        needs_closure = item in ('fold', 'try_fold', 'for_each', 'try_for_each', 'find', 'find_map', 'any', 'all', 'position')
        if needs_closure:
            cl = closure_args[-1] if closure_args else None
            if cl is None: return False
        elif not chain:
            return False                    # plain collect()/sum() of a base iterator: nothing to normalise
        if item in ('sum', 'product'):
            if not PRIM.match(dty.strip()): return False
        if item == 'collect':
            kind = _collection_kind(dty)
            if kind is None: return False
        # ---- build
        self._strip_adaptors(rw, chain)
        it = rw.new_local('?iter')
        pre = rw.blocks[bi]
        pre['st'].append(_use(it, a, line))
        head = rw.new_block(); done = rw.new_block()
        rw.goto(bi, head)
        o, some = self._emit_next(rw, head, it, span, done)
        entry, last, item_op, cont = self._emit_adaptors(rw, chain, _mv(o, SOME0), span, head, done)
        rw.goto(some, entry)
        B = rw.blocks
        if item == 'collect':
            wrap, coll_ty, ck = kind
            coll = dst['l'] if (wrap is None and not dst['p']) else rw.new_local(coll_ty)
            if ck != 'unit':
                new_name = '%s::new' % _ctor_path(ck)
                # the collection is created before the loop
                nb = rw.new_block()
                B[bi]['term'] = mk_call(new_name, new_name, None, _ctor_path(ck), 'new', [], coll, head, span)
            if wrap is None:
                self._emit_push(rw, last, coll, ck, item_op, span, cont)
                if coll != dst['l'] or dst['p']:
                    B[done]['st'].append(_use(dst, _mv(coll), line))
                rw.goto(done, after)
            else:
                # items are Result<T,E> / Option<T>: `?`-like propagation
                br = rw.new_local('std::ops::ControlFlow<?, ?>'); dl = rw.new_local('isize')
                b1 = rw.new_block(); okb = rw.new_block(); errb = rw.new_block(); un = rw.new_block()
                il = rw.new_local('?')
                B[last]['st'].append(_use(il, item_op, line))
                B[last]['term'] = mk_call('<%s as std::ops::Try>::branch' % wrap, 'std::ops::Try::branch', 'std::ops::Try', wrap, 'branch', [_mv(il)], br, b1, span)
                B[b1]['st'].append(_discr(dl, _pl(br), line))
                B[b1]['term'] = {'k': 'switch', 'd': _mv(dl), 'ts': [[0, okb], [1, errb]], 'else': un}
                if ck == 'unit': rw.goto(okb, cont)
                else: self._emit_push(rw, okb, coll, ck, _mv(br, CONT0), span, cont)
                res = rw.new_local('?residual')
                B[errb]['st'].append(_use(res, _mv(br, BREAK0), line))
                B[errb]['term'] = mk_call('<%s as std::ops::FromResidual>::from_residual' % wrap, 'std::ops::FromResidual::from_residual', 'std::ops::FromResidual', wrap, 'from_residual', [_mv(res)], dst, after, span)
                if item_op['k'] in ('move', 'copy') and not item_op['pl']['p']:
                    _thread_try(rw, last, item_op['pl']['l'], okb, errb, br, wrap)
                B[done]['st'].append(_agg(dst, 'std::result::Result::Ok' if wrap.startswith('std::result::Result') else 'std::option::Option::Some', [_const('()', '()') if ck == 'unit' else _mv(coll)], line=line))
                rw.goto(done, after)
        elif item in ('sum', 'product'):
            acc = dst['l'] if not dst['p'] else rw.new_local(dty)
            B[bi]['st'].append(_use(acc, _const(dty, '0' if item == 'sum' else '1'), line))
            tmp = rw.new_local(dty)
            B[last]['st'].append(_use(tmp, item_op, line))
            B[last]['st'].append(_bin(acc, 'Add' if item == 'sum' else 'Mul', dty.strip(), _cp(acc), _mv(tmp), line))
            rw.goto(last, cont)
            if dst['p']: B[done]['st'].append(_use(dst, _mv(acc), line))
            rw.goto(done, after)
        elif item in ('fold', 'try_fold'):
            cd, caps = cl
            init = t['args'][1]
            acc = rw.new_local(cd['locals'][2] if len(cd['locals']) > 2 else '?')
            B[bi]['st'].append(_use(acc, init, line))
            r = rw.new_local(cd['locals'][0]); nxt = rw.new_block()
            e = rw.splice(cd, [_const('()', 'env'), _mv(acc), item_op], _pl(r), nxt, span, captures=caps)
            rw.goto(last, e); self.stats['closures_inlined'] += 1
            if item == 'fold':
                B[nxt]['st'].append(_use(acc, _mv(r), line)); rw.goto(nxt, cont)
                B[done]['st'].append(_use(dst, _mv(acc), line)); rw.goto(done, after)
            else:
                self._emit_try(rw, nxt, r, dty, dst, after, span, on_continue=lambda blk, val: (B[blk]['st'].append(_use(acc, val, line)), rw.goto(blk, cont)))
                B[done]['st'].append(_agg(dst, _ok_ctor(dty), [_mv(acc)], line=line)); rw.goto(done, after)
        elif item in ('for_each', 'try_for_each'):
            cd, caps = cl
            r = rw.new_local(cd['locals'][0]); nxt = rw.new_block()
            e = rw.splice(cd, [_const('()', 'env'), item_op], _pl(r), nxt, span, captures=caps)
            rw.goto(last, e); self.stats['closures_inlined'] += 1
            if item == 'for_each':
                rw.goto(nxt, cont)
                B[done]['st'].append(_use(dst, _const('()', '()'), line)); rw.goto(done, after)
            else:
                self._emit_try(rw, nxt, r, dty, dst, after, span, on_continue=lambda blk, val: rw.goto(blk, cont))
                u = rw.new_local('()')
                B[done]['st'].append(_use(u, _const('()', '()'), line))
                B[done]['st'].append(_agg(dst, _ok_ctor(dty), [_mv(u)], line=line)); rw.goto(done, after)
        elif item in ('find', 'any', 'all', 'position'):
            cd, caps = cl
            il = rw.new_local('?')
            B[last]['st'].append(_use(il, item_op, line))
            if item == 'find':
                rl = rw.new_local('&?'); B[last]['st'].append(_ref(rl, _pl(il), False, line)); argop = _mv(rl)
            else:
                argop = _mv(il)
            r = rw.new_local('bool'); nxt = rw.new_block(); hit = rw.new_block()
            e = rw.splice(cd, [_const('()', 'env'), argop], _pl(r), nxt, span, captures=caps)
            rw.goto(last, e); self.stats['closures_inlined'] += 1
            idx = None
            if item == 'position':
                idx = rw.new_local('usize')
                B[bi]['st'].append(_use(idx, _const('usize', '0_usize'), line))
            if item == 'all':
                B[nxt]['term'] = {'k': 'switch', 'd': _mv(r), 'ts': [[0, hit]], 'else': cont}
                B[hit]['st'].append(_use(dst, _const('bool', 'false'), line))
                B[done]['st'].append(_use(dst, _const('bool', 'true'), line))
            else:
                miss = cont
                if item == 'position':
                    miss = rw.new_block([_bin(idx, 'Add', 'usize', _cp(idx), _const('usize', '1_usize'), line)], {'k': 'goto', 't': cont})
                B[nxt]['term'] = {'k': 'switch', 'd': _mv(r), 'ts': [[0, miss]], 'else': hit}
                if item == 'any':
                    B[hit]['st'].append(_use(dst, _const('bool', 'true'), line))
                    B[done]['st'].append(_use(dst, _const('bool', 'false'), line))
                elif item == 'find':
                    B[hit]['st'].append(_agg(dst, 'std::option::Option::Some', [_mv(il)], line=line))
                    B[done]['st'].append(_agg(dst, 'std::option::Option::None', [], line=line))
                else:
                    B[hit]['st'].append(_agg(dst, 'std::option::Option::Some', [_cp(idx)], line=line))
                    B[done]['st'].append(_agg(dst, 'std::option::Option::None', [], line=line))
            rw.goto(hit, after); rw.goto(done, after)
        elif item == 'find_map':
            cd, caps = cl
            r = rw.new_local(cd['locals'][0]); nxt = rw.new_block(); hit = rw.new_block(); un = rw.new_block()
            e = rw.splice(cd, [_const('()', 'env'), item_op], _pl(r), nxt, span, captures=caps)
            rw.goto(last, e); self.stats['closures_inlined'] += 1
            dl = rw.new_local('isize')
            B[nxt]['st'].append(_discr(dl, _pl(r), line))
            B[nxt]['term'] = {'k': 'switch', 'd': _mv(dl), 'ts': [[0, cont], [1, hit]], 'else': un}
            B[hit]['st'].append(_use(dst, _mv(r), line)); rw.goto(hit, after)
            B[done]['st'].append(_agg(dst, 'std::option::Option::None', [], line=line)); rw.goto(done, after)
        else:
            raise _GiveUp()
        self.stats['loops_made'] += 1
        rw.changed = True
        return True

    def _emit_try(self, rw, blk, r, dty, dst, after, span, on_continue):
        """blk: open block holding result `r` of a closure returning Result/Option/ControlFlow"""
        B = rw.blocks; line = (span or {}).get('lo', 0)
        wrap = rw.locals[r]
        br = rw.new_local('std::ops::ControlFlow<?, ?>'); dl = rw.new_local('isize')
        b1 = rw.new_block(); okb = rw.new_block(); errb = rw.new_block(); un = rw.new_block()
        B[blk]['term'] = mk_call('<%s as std::ops::Try>::branch' % wrap, 'std::ops::Try::branch', 'std::ops::Try', wrap, 'branch', [_mv(r)], br, b1, span)
        B[b1]['st'].append(_discr(dl, _pl(br), line))
        B[b1]['term'] = {'k': 'switch', 'd': _mv(dl), 'ts': [[0, okb], [1, errb]], 'else': un}
        on_continue(okb, _mv(br, CONT0))
        res = rw.new_local('?residual')
        B[errb]['st'].append(_use(res, _mv(br, BREAK0), line))
        B[errb]['term'] = mk_call('<%s as std::ops::FromResidual>::from_residual' % dty, 'std::ops::FromResidual::from_residual', 'std::ops::FromResidual', dty, 'from_residual', [_mv(res)], dst, after, span)
        _thread_try(rw, blk, r, okb, errb, br, wrap)

    def _emit_push(self, rw, blk, coll, ck, item_op, span, cont):
        B = rw.blocks; line = (span or {}).get('lo', 0)
        rl = rw.new_local('&mut ' + _ctor_path(ck)); out = rw.new_local('?')
        B[blk]['st'].append(_ref(rl, _pl(coll), True, line))
        path = _ctor_path(ck)
        if ck in ('HashMap', 'BTreeMap'):
            il = rw.new_local('(?, ?)')
            B[blk]['st'].append(_use(il, item_op, line))
            args = [_mv(rl), _mv(il, [{'f': '0', 'of': 'tuple'}]), _mv(il, [{'f': '1', 'of': 'tuple'}])]
            B[blk]['term'] = mk_call('%s::insert' % path, '%s::insert' % path, None, path, 'insert', args, out, cont, span)
        elif ck in ('HashSet', 'BTreeSet'):
            B[blk]['term'] = mk_call('%s::insert' % path, '%s::insert' % path, None, path, 'insert', [_mv(rl), item_op], out, cont, span)
        else:
            B[blk]['term'] = mk_call('%s::push' % path, '%s::push' % path, None, path, 'push', [_mv(rl), item_op], out, cont, span)

    # ---- target.extend(iter)
    def _desugar_extend(self, rw, bi, t):
        t['desugared'] = True
        if len(t['args']) != 2: return False
        tgt, src = t['args']
        if src['k'] not in ('move', 'copy') or src['pl']['p']: return False
        if tgt['k'] not in ('move', 'copy'): return False
        tty = rw.locals[tgt['pl']['l']] if not tgt['pl']['p'] else ''
        ck = _collection_kind(tty.replace('&mut ', '').replace('&', ''))
        if ck is None or ck[0] is not None: return False
        ck = ck[2]
        span = t.get('span'); line = (span or {}).get('lo', 0); after = t['t']
        B = rw.blocks
        # extend([a, b]) : one insertion per element, no loop
        d = rw.single_def(src['pl']['l'])
        if d is not None and d[0] == 'stmt' and d[2]['rv']['k'] == 'agg' and d[2]['rv']['adt'] == 'array':
            ops = d[2]['rv']['ops']
            cur = bi; first = True
            for k, op in enumerate(ops):
                nxt = rw.new_block()
                rl = rw.new_local('&mut ?');
                B[cur]['st'].append(_ref(rl, _deref_place(tgt['pl']), True, line))
                self._emit_push_ref(rw, cur, rl, ck, op, span, nxt)
                cur = nxt
            B[cur]['st'].append(_use(t['dst'], _const('()', '()'), line))
            rw.goto(cur, after)
            rw.changed = True; self.stats['loops_made'] += 1
            return True
        base, chain = self._walk_chain(rw, src['pl']['l'])
        if not chain: return False
        self._strip_adaptors(rw, chain)
        it = rw.new_local('?iter')
        B[bi]['st'].append(_use(it, src, line))
        head = rw.new_block(); done = rw.new_block()
        rw.goto(bi, head)
        o, some = self._emit_next(rw, head, it, span, done)
        entry, last, item_op, cont = self._emit_adaptors(rw, chain, _mv(o, SOME0), span, head, done)
        rw.goto(some, entry)
        rl = rw.new_local('&mut ?')
        B[last]['st'].append(_ref(rl, _deref_place(tgt['pl']), True, line))
        self._emit_push_ref(rw, last, rl, ck, item_op, span, cont)
        B[done]['st'].append(_use(t['dst'], _const('()', '()'), line)); rw.goto(done, after)
        rw.changed = True; self.stats['loops_made'] += 1
        return True

    def _emit_push_ref(self, rw, blk, rl, ck, item_op, span, cont):
        B = rw.blocks; line = (span or {}).get('lo', 0)
        path = _ctor_path(ck); out = rw.new_local('?')
        if ck in ('HashMap', 'BTreeMap'):
            il = rw.new_local('(?, ?)')
            B[blk]['st'].append(_use(il, item_op, line))
            args = [_mv(rl), _mv(il, [{'f': '0', 'of': 'tuple'}]), _mv(il, [{'f': '1', 'of': 'tuple'}])]
            B[blk]['term'] = mk_call('%s::insert' % path, '%s::insert' % path, None, path, 'insert', args, out, cont, span)
        elif ck in ('HashSet', 'BTreeSet'):
            B[blk]['term'] = mk_call('%s::insert' % path, '%s::insert' % path, None, path, 'insert', [_mv(rl), item_op], out, cont, span)
        else:
            B[blk]['term'] = mk_call('%s::push' % path, '%s::push' % path, None, path, 'push', [_mv(rl), item_op], out, cont, span)


class _GiveUp(Exception):
    pass


OK_ADT = ('Result::Ok', 'Option::Some', 'ControlFlow::Continue')
ERR_ADT = ('Result::Err', 'Option::None', 'ControlFlow::Break')


def _targets(t):
    k = t['k']
    if k in ('goto', 'drop', 'assert'): return [t['t']]
    if k == 'call': return [t['t']] if t['t'] >= 0 else []
    if k == 'switch': return [x[1] for x in t['ts']] + [t['else']]
    return []


def _preds(rw, bb):
    return [i for i, b in enumerate(rw.blocks) if not b['cleanup'] and bb in _targets(b['term'])]


def _known_variant(rw, P, r, depth=8):
    """is local `r` known to hold the Ok-like / Err-like variant at the end of block P?"""
    for st in reversed(rw.blocks[P]['st']):
        if 'dst' in st and st['dst']['l'] == r:
            if st['dst']['p']: return None
            rv = st['rv']
            if rv['k'] == 'agg':
                if rv['adt'].endswith(OK_ADT): return 'ok'
                if rv['adt'].endswith(ERR_ADT): return 'err'
            return None
    if depth == 0: return None
    ps = _preds(rw, P)
    if len(ps) != 1: return None
    t = rw.blocks[ps[0]]['term']
    if t['k'] == 'call':
        if t['dst']['l'] == r:
            if t['dst']['p']: return None
            return 'err' if (t.get('ri') or {}).get('item') == 'from_residual' else None
        return _known_variant(rw, ps[0], r, depth - 1)
    if t['k'] in ('goto', 'drop'): return _known_variant(rw, ps[0], r, depth - 1)
    return None


def _thread_try(rw, blk, src_local, okb, errb, br, wrap):
    """blk ends in `br = Try::branch(X)`; predecessors that are known to deliver Ok / Err jump straight
    to the right arm (keeps the `?` of a spliced closure path-sensitive)."""
    ok_ctor = 'std::ops::ControlFlow::Continue'; err_ctor = 'std::ops::ControlFlow::Break'
    okproj = [{'dc': 'Some'}, {'f': '0', 'of': 'std::option::Option::Some'}] if wrap.strip().startswith('std::option::Option') else \
             [{'dc': 'Ok'}, {'f': '0', 'of': 'std::result::Result::Ok'}]
    t = rw.blocks[blk]['term']
    X = t['args'][0]['pl']['l']

    def visit(P, tail_st, depth):
        """P jumps (goto) to a block whose remaining statements are tail_st and which then branches"""
        if rw.blocks[P]['term']['k'] != 'goto': return
        kv = _known_variant(rw, P, src_local)
        if kv is None:
            # a merge block of the spliced closure (several returns joined): look through it
            ps = _preds(rw, P)
            if depth > 0 and len(ps) > 1 and not any('dst' in st and st['dst']['l'] == src_local for st in rw.blocks[P]['st']):
                for PP in ps:
                    visit_through(PP, P, copy.deepcopy(rw.blocks[P]['st']) + tail_st, depth - 1)
            return
        st = copy.deepcopy(tail_st)
        if kv == 'ok':
            st.append(_agg(br, ok_ctor, [_mv(X, okproj)]))
            n = rw.new_block(st, {'k': 'goto', 't': okb})
        else:
            st.append(_agg(br, err_ctor, [_mv(X)]))
            n = rw.new_block(st, {'k': 'goto', 't': errb})
        rw.blocks[P]['term'] = {'k': 'goto', 't': n}

    def visit_through(PP, P, tail_st, depth):
        tt = rw.blocks[PP]['term']
        if tt['k'] != 'goto' or tt['t'] != P: return
        # give PP a private copy of the merge block so that it can be redirected on its own
        visit(PP, tail_st, depth)

    for P in _preds(rw, blk):
        visit(P, copy.deepcopy(rw.blocks[blk]['st']), 3)


def _deref_place(pl):
    return {'l': pl['l'], 'p': list(pl['p']) + ['*']}


def bi_header(rw, bi):
    return bi


def _subst_prefix(rw, local, prefix, new_local, skip_blocks=()):
    """replace places `local.prefix.rest` by `new_local.rest` everywhere except in skip_blocks"""
    n = len(prefix)

    def fix(pl):
        if pl['l'] == local and pl['p'][:n] == prefix:
            return {'l': new_local, 'p': pl['p'][n:]}
        return pl

    def fix_op(o):
        if o['k'] in ('copy', 'move'):
            return {'k': o['k'], 'pl': fix(o['pl'])}
        return o
    for bi, b in enumerate(rw.blocks):
        if bi in skip_blocks: continue
        for st in b['st']:
            if 'rv' not in st: continue
            rv = st['rv']
            if 'ops' in rv: rv['ops'] = [fix_op(o) for o in rv['ops']]
            if 'pl' in rv: rv['pl'] = fix(rv['pl'])
        t = b['term']
        if t['k'] == 'call': t['args'] = [fix_op(a) for a in t['args']]
        elif t['k'] == 'switch': t['d'] = fix_op(t['d'])


def _strip_generics(name):
    from .facts import strip_generics
    return strip_generics(name)


COLL = [('std::vec::Vec<', 'Vec'), ('std::collections::HashMap<', 'HashMap'), ('std::collections::BTreeMap<', 'BTreeMap'),
        ('std::collections::HashSet<', 'HashSet'), ('std::collections::BTreeSet<', 'BTreeSet'), ('std::collections::VecDeque<', 'VecDeque')]


def _collection_kind(ty):
    """(wrapper type or None, collection type, kind) for Vec<..>, HashMap<..>, Result<Vec<..>, E>, Option<Vec<..>>"""
    ty = ty.strip()
    for pre, k in COLL:
        if ty.startswith(pre): return (None, ty, k)
    for w in ('std::result::Result<', 'std::option::Option<'):
        if ty.startswith(w):
            inner = ty[len(w):]
            for pre, k in COLL:
                if inner.startswith(pre):
                    return (ty, _first_generic(ty[len(w) - 1:]), k)
            # collect::<Result<(), E>>() / collect::<Option<()>>(): nothing is gathered, the loop only propagates
            # the first failure (what try_for_each does)
            if re.match(r'\(\)\s*[,>]', inner): return (ty, '()', 'unit')
    return None


def _first_generic(s):
    """s starts with '<' ; return the first top-level generic argument"""
    depth = 0; out = []
    for i, ch in enumerate(s):
        if ch == '<':
            depth += 1
            if depth == 1: continue
        elif ch == '>':
            if i > 0 and s[i - 1] == '-': out.append(ch); continue
            depth -= 1
            if depth == 0: break
        elif ch == ',' and depth == 1: break
        out.append(ch)
    return ''.join(out).strip()


def _ctor_path(ck):
    return {'Vec': 'std::vec::Vec::<T>', 'HashMap': 'std::collections::HashMap::<K, V>', 'BTreeMap': 'std::collections::BTreeMap::<K, V>',
            'HashSet': 'std::collections::HashSet::<T>', 'BTreeSet': 'std::collections::BTreeSet::<T>', 'VecDeque': 'std::collections::VecDeque::<T>'}[ck]


def _ok_ctor(ty):
    ty = ty.strip()
    if ty.startswith('std::option::Option'): return 'std::option::Option::Some'
    if ty.startswith('std::ops::ControlFlow'): return 'std::ops::ControlFlow::Continue'
    return 'std::result::Result::Ok'


def load_known(path):
    try:
        with open(path) as fh: return set(json.load(fh)['functions'])
    except OSError:
        return None


def normalized_dicts(F, known_fns, loops=True):
    """all body dicts of F in normal form + stats"""
    N = Normalizer(F, known_fns, loops)
    out = []
    for name, b in F.bodies.items():
        d = N.body(name)
        out.append(d)
    N.stats['inlined_closures'] = sorted(N.inlined_closures)
    return out, N.stats
