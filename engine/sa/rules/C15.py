"""C15 — sense-aware operations (DESIGN §5 C15)."""
from .common import *

INST = 'v1::Instance'; SS = 'v1::SampleSet'


def min_rules(ctx):
    R = 'C15.min'
    b = ctx.method(R + '/anchor', INST, 'as_minimization_problem')
    if b is None: return
    tests = []
    for c in b.calls:
        if c.item in ('eq', 'ne') and 'PartialEq' in (c.trait or '') and re.search(r'instance::Sense$', c.self_ty or ''):
            vs = [enum_variant_of_operand(ctx, b, a) for a in c.args]
            v = [x.split('::')[-1] for x in vs if x and 'Sense::' in x]
            src = [a for a, x in zip(c.args, vs) if not (x and 'Sense::' in x)]
            if v and src and ctx.S.slice_operand(b, src[0]).has_field(INST, 'sense'):
                for g in T.guards_from_call(b, c): tests.append((c, v[0], g))
    ctx.check(len(tests) == 1, R + '/sense-test', 'T-GUARD', b.name, 'expected one test of self.sense(), found %d' % len(tests), b.site())
    if len(tests) != 1: return
    c, variant, g = tests[0]
    is_min_bb, other_bb = (g.true_bb, g.false_bb) if (c.item == 'eq') == (variant == 'Minimize') else (g.false_bb, g.true_bb)
    minr = T.reach_cp(b, [is_min_bb]) - T.reach_cp(b, [other_bb]); maxr = T.reach_cp(b, [other_bb]) - T.reach_cp(b, [is_min_bb])
    writes = [(bi, st) for bi, st in b.stmts() if st['dst']['p'] and st['dst']['l'] == 1 and fields_of_place(st['dst'])]
    mut_calls = [x for x in b.calls if any(a['k'] in ('copy', 'move') and '&mut' in b.locals[a['pl']['l']] for a in x.args)]
    ctx.check(not [bi for bi, st in writes if bi in minr] and not [x for x in mut_calls if x.bb in minr], R + '/minimize-is-untouched', 'T-BRANCHFX', b.name,
              'a minimisation problem is modified (the conversion must be idempotent)', b.site(is_min_bb))
    sw = [(bi, st) for bi, st in writes if fields_of_place(st['dst']) == [(INST, 'sense')]]
    ow = [(bi, st) for bi, st in writes if fields_of_place(st['dst']) == [(INST, 'objective')]]
    oks = False
    for bi, st in sw:
        s = ctx.S.slice_operand(b, st['rv']['ops'][0])
        oks = bi in maxr and s.has_const(r'Sense::Minimize') and not s.has_const(r'Sense::Maximize') and T.must_pass(b, other_bb, set(b.return_blocks()), {bi})
    ctx.check(len(sw) == 1 and oks, R + '/sense-becomes-minimize', 'T-CONST', b.name, 'sense is not set to Minimize on every path of a maximisation problem', b.site())
    oko = False
    for bi, st in ow:
        ex = T.expr(b, st['rv']['ops'][0], depth=10)
        negs = [x for x in T.expr_walk(ex) if x[0] == 'call' and x[1] == 'neg' and re.search(r'ops::Neg for v1::Function', x[2])]
        if ex[0] == 'agg' and ex[1].endswith('Option::Some') and len(negs) == 1 and T.expr_has_call(negs[0][3][0], 'objective') and bi in maxr and T.must_pass(b, other_bb, set(b.return_blocks()), {bi}):
            n_neg = len([x for x in T.expr_walk(ex) if x[0] == 'call' and x[1] == 'neg'])
            oko = n_neg == 1
    ctx.check(len(ow) == 1 and oko, R + '/objective-negated-once', 'T-BRANCHFX', b.name, 'objective is not replaced by Some(-objective()) exactly once on the maximisation path', b.site())
    writes_only(ctx, R + '/only-sense-and-objective', b, {'sense', 'objective'})
    # the schema number behind Sense::Minimize
    adt = ctx.F.adt('v1::instance::Sense')
    if adt:
        d = {v['name']: v['discr'] for v in adt['variants']}
        ctx.check(d.get('Minimize') == 1 and d.get('Maximize') == 2, R + '/enum-numbers', 'T-CONST', 'v1::instance::Sense', 'Sense numbers are %s, schema says MINIMIZE=1, MAXIMIZE=2' % d)
    # Neg for Function really negates: delegates to `* -1` or per-variant negation
    nb = ctx.F.one('v1::Function', 'neg', trait='Neg')
    if nb is not None:
        ctx.fn(nb)
        s = ctx.S.backslice(nb, [0])
        ok = 1 in s.params and (s.has_const(r'^-1f64$') or s.has_call(r'ops::Neg'))
        ctx.check(ok, R + '/function-neg', 'T-DELEG', nb.name, 'Neg for Function neither multiplies by -1 nor negates its payload', nb.site())


def best_rules(ctx):
    R = 'C15.best'
    b = ctx.method(R + '/anchor', SS, 'best')
    if b is None: return
    sel = [c for c in b.calls if c.item in ('min_by', 'max_by') and 'Iterator' in (c.trait or '')]
    ctx.check(len(sel) == 1, R + '/selection', 'T-BRANCHFX', b.name, 'expected one min_by/max_by selection, found %d' % len(sel), b.site())
    if len(sel) != 1: return
    sc = sel[0]
    cls = [ctx.F.bodies.get(n) for n in ctx.S.slice_operand(b, sc.args[1]).closures]
    cls = [x for x in cls if x is not None and x.parent == b.name and x.argc == 3]
    ctx.check(len(cls) == 1, R + '/comparator', 'T-BRANCHFX', b.name, 'comparator closure not found', b.site(sc.bb))
    for cb in cls:
        ctx.fn(cb)
        rows = {}
        for c in cb.calls:
            if c.item in ('eq', 'ne') and re.search(r'instance::Sense$', c.self_ty or ''):
                vs = [enum_variant_of_operand(ctx, cb, a) for a in c.args]
                v = [x.split('::')[-1] for x in vs if x and 'Sense::' in x]
                if not v: continue
                for g in T.guards_from_call(cb, c):
                    yes, no = (g.true_bb, g.false_bb) if c.item == 'eq' else (g.false_bb, g.true_bb)
                    for side, bb in ((v[0], yes), ('not-' + v[0], no)):
                        reg = T.reach_cp(cb, [bb]) - T.reach_cp(cb, [no if bb == yes else yes])
                        for x in cb.calls:
                            if x.bb in reg and x.item in ('total_cmp', 'partial_cmp', 'cmp'):
                                a0 = T.strip_wrappers(T.expr(cb, x.args[0])); a1 = T.strip_wrappers(T.expr(cb, x.args[1]))
                                def arg_index(e):
                                    pl = [y for y in T.expr_walk(e) if y[0] == 'place' and y[1] in (2, 3)]
                                    return pl[0][1] if pl else None
                                rows[side] = (x.item, arg_index(a0), arg_index(a1), [f for a, f in T.expr_fields(a0) if a == 'tuple'][-1:], [f for a, f in T.expr_fields(a1) if a == 'tuple'][-1:])
        norm = {}
        for k, v in rows.items():
            key = {'Minimize': 'min', 'not-Minimize': 'max', 'Maximize': 'max', 'not-Maximize': 'min'}[k]
            norm[key] = v
        want_min = (2, 3) if sc.item == 'min_by' else (3, 2)
        ok = set(norm) == {'min', 'max'} and norm['min'][1:3] == want_min and norm['max'][1:3] == want_min[::-1] and norm['min'][0] == norm['max'][0] \
             and norm['min'][3] == ['1'] and norm['min'][4] == ['1'] and norm['max'][3] == ['1'] and norm['max'][4] == ['1']
        ctx.check(ok, R + '/order-per-sense', 'T-BRANCHFX', cb.name,
                  'with %s the comparator must be cmp(a,b) for Minimize and cmp(b,a) for Maximize on the objective values; found %s' % (sc.item, norm), cb.site(), table=str(norm))
        # the sense compared is the sample set's own
        s = ctx.S.slice_operand(b, sc.args[1])
        ctx.check(s.has_field(SS, 'sense'), R + '/sense-of-set', 'T-CARRY', b.name, 'comparator does not use self.sense', b.site(sc.bb))
    errflow_calls(ctx, R + '/none-is-error', b, [sc] if b.locals[sc.dst['l']].startswith('std::option::Option') else [], 'no sample selected')
    # result of the selection: the id (.0) of the selected pair
    for e, k, st in b.ret_assignments():
        pass
    rs = ctx.S.backslice(b, [0])
    ctx.check(sc in rs.call_objs, R + '/returns-selected', 'T-CARRY', b.name, 'the selected sample is not returned', b.site())
    maps = [c for c in b.calls if c.item == 'map' and 'Option' in c.name and sc in ctx.S.slice_operand(b, c.args[0]).call_objs]
    okid = False
    for c in maps:
        for cn in ctx.S.slice_operand(b, c.args[1]).closures:
            cb = ctx.F.bodies.get(cn)
            if cb is not None:
                for bi, st in cb.stmts():
                    if st['dst']['l'] == 0 and st['rv']['k'] == 'use':
                        fs = [f for a, f in T.expr_fields(T.expr(cb, st['rv']['ops'][0])) if a == 'tuple']
                        okid = fs[-1:] == ['0']
    ctx.check(okid, R + '/returns-id', 'T-CARRY', b.name, 'the id (first component) of the selected pair is not what is returned', b.site())
    # objective lookup for every candidate id, missing => error; sense conversion error propagates
    gets = [c for cb in [b] + ctx.F.closures_of(b) for c in cb.calls if c.item == 'get' and c.path.endswith('SampledValues>::get')]
    ctx.check(len(gets) == 1, R + '/objective-lookup', 'T-ERRFLOW', b.name, 'expected one objectives.get(id), found %d' % len(gets), b.site())
    for cb in [b] + ctx.F.closures_of(b):
        for c in cb.calls:
            if c.item == 'get' and c.path.endswith('SampledValues>::get'):
                errflow_calls(ctx, R + '/missing-objective-is-error', cb, [c], 'missing objective'); ctx.fn(cb)
    tf = [c for c in b.calls if c.item == 'try_from' and 'Sense' in c.name]
    errflow_calls(ctx, R + '/invalid-sense-is-error', b, tf, 'invalid sense')
    oc = [c for c in b.calls if c.item == 'objectives']
    errflow_calls(ctx, R + '/missing-objectives-is-error', b, oc, 'missing objectives')
    # all candidates take part: the iterator given to best() is mapped and collected without filtering
    s = ctx.S.slice_operand(b, sc.args[0])
    restr = sorted({x.item for x in s.call_objs if x.item in RESTRICTING and 'Iterator' in (x.trait or '')})
    ctx.check(2 in s.params and not restr, R + '/all-candidates', 'T-LOOPMUST', b.name, 'not every candidate id takes part in the selection %s' % restr, b.site())


def pair_rules(ctx):
    R = 'C15.pair'
    chain = {
        'best_feasible_id': ('best', 'feasible_ids'), 'best_feasible_unrelaxed_id': ('best', 'feasible_unrelaxed_ids'),
        'best_feasible': ('get', 'best_feasible_id'), 'best_feasible_unrelaxed': ('get', 'best_feasible_unrelaxed_id'),
        'feasible_ids': (None, 'feasible_relaxed'), 'feasible_unrelaxed_ids': (None, 'feasible_unrelaxed'),
    }
    for fn, (outer, inner) in chain.items():
        b = ctx.method(R + '/%s/anchor' % fn, SS, fn)
        if b is None: continue
        rs = ctx.S.backslice(b, [0], depth=0)
        names = [c.item for c in rs.call_objs if c.path.endswith('SampleSet>::' + c.item)]
        other = {'feasible_ids': 'feasible_unrelaxed_ids', 'feasible_unrelaxed_ids': 'feasible_ids', 'best_feasible_id': 'best_feasible_unrelaxed_id', 'best_feasible_unrelaxed_id': 'best_feasible_id',
                 'feasible_relaxed': 'feasible_unrelaxed', 'feasible_unrelaxed': 'feasible_relaxed'}[inner]
        ok = inner in names and other not in names and (outer is None or outer in names)
        ctx.check(ok, R + '/%s/uses-%s' % (fn, inner), 'T-CARRY', b.name, '%s must be built from %s%s (calls: %s)' % (fn, inner, ' through ' + outer if outer else '', sorted(set(names))), b.site())
        if outer == 'get':
            errflow_calls(ctx, R + '/%s/error' % fn, b, [c for c in b.calls if c.item == inner], 'no feasible sample')
        if outer is None:
            # keeps exactly the ids whose flag is true
            okf = False
            for cb in ctx.F.closures_of(b):
                for c in cb.calls:
                    if c.item == 'then_some':
                        flag = T.expr(cb, c.args[0]); val = T.expr(cb, c.args[1])
                        f0 = [f for a, f in T.expr_fields(flag) if a == 'tuple']; f1 = [f for a, f in T.expr_fields(val) if a == 'tuple']
                        okf = f0[-1:] == ['1'] and f1[-1:] == ['0'] and not any(x[0] == 'un' for x in T.expr_walk(flag))
                for bi, st in cb.stmts():
                    pass
            s = ctx.S.backslice(b, [0])
            ctx.check(okf and s.has_call(r'Iterator>::filter_map'), R + '/%s/keeps-true-flags' % fn, 'T-BRANCHFX', b.name, 'does not keep exactly the ids whose flag is true', b.site())


def legacy_rules(ctx):
    R = 'C15.legacy'
    want = {'feasible_relaxed': ('feasible', 'feasible_relaxed'), 'feasible_unrelaxed': ('feasible_unrelaxed', 'feasible')}
    for fn, (when_empty, otherwise) in want.items():
        b = ctx.method(R + '/%s/anchor' % fn, SS, fn)
        if b is None: continue
        emp = [c for c in b.calls if c.item == 'is_empty' and (SS, 'feasible_relaxed') in T.access_path(b, c.args[0])[0]]
        ok = False; got = None
        for c in emp:
            for g in T.guards_from_call(b, c):
                def ret_field(bb, other):
                    reg = T.reach_cp(b, [bb]) - T.reach_cp(b, [other])
                    for bi, st in b.stmts():
                        if bi in reg and st['dst']['l'] == 0 and st['rv']['k'] in ('ref', 'use'):
                            pl = st['rv'].get('pl') or st['rv']['ops'][0].get('pl')
                            fs = T.access_path(b, {'k': 'copy', 'pl': pl})[0] if pl else []
                            if fs: return fs[-1][1]
                    return None
                got = (ret_field(g.true_bb, g.false_bb), ret_field(g.false_bb, g.true_bb))
                ok = got == (when_empty, otherwise)
        ctx.check(ok, R + '/%s/fallback-table' % fn, 'T-BRANCHFX', b.name, 'must return &%s when feasible_relaxed is empty and &%s otherwise; found %s' % (when_empty, otherwise, got), b.site(), table=str(got))


def check(ctx):
    min_rules(ctx); best_rules(ctx); pair_rules(ctx); legacy_rules(ctx)
    ctx.floor('C15.min', 7); ctx.floor('C15.best', 10); ctx.floor('C15.pair', 8); ctx.floor('C15.legacy', 2)
