"""C03 — partial evaluation commutes with evaluation (DESIGN §5 C03)."""
import itertools
from .common import *
from . import pe

INST = 'v1::Instance'; DV = 'v1::DecisionVariable'


def probes_in(body, blocks=None):
    out = []
    for c in body.calls:
        if c.item == 'get' and re.search(pe.STATE_GET, c.name) and ('v1::State', 'entries') in T.access_path(body, c.args[0])[0]:
            if blocks is None or c.bb in blocks: out.append(c)
    return out


def table(ctx, body, probes, header, self_adt, rename=None):
    start = probes[-1].target
    tab = {}
    for asg in itertools.product((1, 0), repeat=len(probes)):
        reg = pe.case_region(body, start, list(asg), probes, {header})
        where = {}
        eff0 = pe.effects_in(ctx, body, reg, self_adt, where)
        eff = set()
        for e in eff0:
            # an effect counts only if every path of this case back to the loop header performs it
            always = pe.case_region(body, start, list(asg), probes, {header}, avoid=where.get(e, set())) is not None
            eff.add(e if always else ('sometimes',) + e)
        if rename: eff = {tuple(rename.get(x, x) if isinstance(x, str) else x for x in e) for e in eff}
        tab[''.join('S' if a else 'N' for a in asg)] = eff
        ctx.counters['cfg_paths'] += 1
    return tab


def check_table(ctx, rule, body, tab, want, site=None):
    for case, w in want.items():
        got = tab.get(case, set())
        missing = sorted(map(str, w - got)); extra = sorted(map(str, got - w))
        ctx.check(not missing and not extra, '%s/%s' % (rule, case), 'T-BRANCHFX', body.name,
                  'case %s (S = variable fixed, N = free): missing effects %s, unexpected effects %s' % (case, missing, extra), site or body.site(), effects=sorted(map(str, got)))
        ctx.sample(dict(rule=rule, case=case, effects=sorted(map(str, got))))


def loop_with(body, call):
    cands = [(h, bl) for h, bl in body.loops().items() if call.bb in bl]
    return min(cands, key=lambda x: len(x[1])) if cands else (None, set())


def linear_rules(ctx):
    R = 'C03.linear'
    b = ctx.method(R + '/anchor', 'v1::Linear', 'partial_evaluate', trait='Evaluate')
    if b is None: return
    pr = probes_in(b)
    ctx.check(len(pr) == 1, R + '/probe', 'T-BRANCHFX', b.name, 'expected one probe of the state, found %d' % len(pr), b.site())
    if len(pr) != 1: return
    ctx.check(pe.label(b, T.expr(b, pr[0].args[1])) == 'id' and T.access_path(b, pr[0].args[0])[1] == 2, R + '/probe-key', 'T-CARRY', b.name, 'probe is not state.get(term.id)', b.site(pr[0].bb))
    h, bl = loop_with(b, pr[0])
    tab = table(ctx, b, pr, h, 'v1::Linear')
    check_table(ctx, R + '/case', b, tab, {
        'S': {('acc', 'self.constant', 'Add', ('coefficient', 'val[id]')), ('remove', 'terms'), ('report', 'id')},
        'N': {('inc', 'index')}})
    # the removed term is the probed one: same index local for index(), swap_remove
    idx = set()
    for c in b.calls:
        if c.item in ('index', 'swap_remove', 'remove') and 'linear::Term' in c.name: idx.add(T.expr_str(T.expr(b, c.args[1])))
    ctx.check(len(idx) == 1, R + '/same-index', 'T-CARRY', b.name, 'probe, fold and removal use different indices %s' % sorted(idx), b.site())
    ret_is_used(ctx, R, b)
    # loop runs over all terms: condition i < terms.len()
    conds = [(bi, st) for bi, st in b.stmts() if st['rv']['k'] == 'bin' and st['rv']['op'] in ('Lt', 'Ne') and st['rv'].get('ty') == 'usize']
    ok = any(T.expr_has_call(T.expr(b, st['rv']['ops'][1]), 'len') and (('v1::Linear', 'terms') in T.expr_fields(T.expr(b, st['rv']['ops'][1]))) for bi, st in conds)
    ctx.check(ok, R + '/all-terms', 'T-LOOPMUST', b.name, 'loop is not bounded by terms.len()', b.site())


def ret_is_used(ctx, R, b):
    """the returned set is the one the reports go to"""
    ins = [c for c in b.calls if c.item == 'insert' and 'BTreeSet::<u64>::insert' in c.name]
    roots = {T.access_path(b, c.args[0], transparent=T.TRANSPARENT_NOCLONE)[1] for c in ins}
    okr = False
    for e, k, st in b.ret_assignments():
        if k == 'ok':
            r = T.access_path(b, st['rv']['ops'][0], transparent=T.TRANSPARENT_NOCLONE)[1]
            okr = len(roots) == 1 and r in roots
    ctx.check(okr, R + '/returns-reported-set', 'T-CARRY', b.name, 'the returned id set is not the set the fixed ids are inserted into', b.site())


def quadratic_rules(ctx):
    R = 'C03.quadratic'
    b = ctx.method(R + '/anchor', 'v1::Quadratic', 'partial_evaluate', trait='Evaluate')
    if b is None: return
    pr = probes_in(b)
    ctx.check(len(pr) == 3, R + '/probes', 'T-BRANCHFX', b.name, 'expected three probes (linear term, row, column), found %d' % len(pr), b.site())
    if len(pr) != 3: return
    labs = [pe.label(b, T.expr(b, p.args[1])) for p in pr]
    ctx.check(sorted(labs) == ['columns', 'id', 'rows'], R + '/probe-keys', 'T-CARRY', b.name, 'probes are keyed by %s, expected linear term id, row, column' % labs, b.site())
    if sorted(labs) != ['columns', 'id', 'rows']: return
    p_id = pr[labs.index('id')]; p_row = pr[labs.index('rows')]; p_col = pr[labs.index('columns')]
    # which local is the folded constant? second argument of Linear::new
    news = [c for c in b.calls if c.item == 'new' and c.path.endswith('Linear>::new')]
    const_l = None; map_l = None
    for c in news:
        ex = T.expr(b, c.args[1]); const_l = ex[1] if ex[0] in ('local', 'place') else None
        map_l = T.access_path(b, c.args[0], transparent=re.compile(r'::(into_iter|iter|as_ref|deref)(::<.*>)?$'))
    ctx.check(len(news) == 1 and const_l is not None, R + '/result/linear-new', 'T-CARRY', b.name, 'the new linear part is not built by Linear::new(map, constant)', b.site())
    ren = {'acc:_%d' % const_l: 'constant'} if const_l is not None else {}
    # ---- linear-part loop
    h1, bl1 = loop_with(b, p_id)
    t1 = table(ctx, b, [p_id], h1, 'v1::Quadratic', ren)
    check_table(ctx, R + '/linear-part', b, t1, {
        'S': {('acc', 'constant', 'Add', ('coefficient', 'val[id]')), ('report', 'id')},
        'N': {('acc', 'entry[id]', 'Add', ('coefficient',))}})
    # constant starts from the old linear part's constant (0 when absent)
    if const_l is not None:
        init, ups = T.accumulator(b, const_l)
        okc = False
        for x, bi in init:
            if x[0] == 'call' and x[1] in ('map_or', 'map_or_else', 'unwrap_or') and any(a == ('const', '0f64') for a in x[3]):
                s = ctx.S.backslice(b, [const_l])
                okc = s.has_field('v1::Linear', 'constant') and s.has_field('v1::Quadratic', 'linear')
        ctx.check(okc, R + '/constant-init', 'T-CARRY', b.name, 'folded constant does not start from the old linear part\'s constant (0 if absent)', b.site())
    # ---- main loop
    h2, bl2 = loop_with(b, p_row)
    t2 = table(ctx, b, [p_row, p_col], h2, 'v1::Quadratic', ren)
    rm = {('remove', 'rows'), ('remove', 'columns'), ('remove', 'values')}
    check_table(ctx, R + '/case', b, t2, {
        'SS': {('acc', 'constant', 'Add', ('val[columns]', 'val[rows]', 'values')), ('report', 'rows'), ('report', 'columns')} | rm,
        'SN': {('acc', 'entry[columns]', 'Add', ('val[rows]', 'values')), ('report', 'rows')} | rm,
        'NS': {('acc', 'entry[rows]', 'Add', ('val[columns]', 'values')), ('report', 'columns')} | rm,
        'NN': {('inc', 'index')}})
    idx = set()
    for c in b.calls:
        if c.item in ('index', 'swap_remove', 'remove') and re.search(r'Vec<(u64|f64)>|Vec::<(u64|f64)>', c.name) and c.bb in bl2: idx.add(T.expr_str(T.expr(b, c.args[1])))
    ctx.check(len(idx) == 1, R + '/same-index', 'T-CARRY', b.name, 'probe, fold and removal use different indices %s' % sorted(idx), b.site())
    # both maps are one: entries of the linear-part loop and of the main loop go to the map given to Linear::new
    ents = [c for c in b.calls if c.item == 'entry' and 'BTreeMap::<u64, f64>::entry' in c.name]
    roots = {T.access_path(b, c.args[0], transparent=T.TRANSPARENT_NOCLONE)[1] for c in ents}
    ctx.check(len(ents) == 3 and len(roots) == 1 and map_l is not None and map_l[1] in roots, R + '/result/one-map', 'T-CARRY', b.name, 'linear coefficients are collected in different maps', b.site())
    # self.linear is written on every success path, None only when nothing is left
    ws = [(bi, st) for bi, st in b.stmts() if st['dst']['p'] and fields_of_place(st['dst']) == [('v1::Quadratic', 'linear')]]
    ctx.check(len(ws) >= 1 and T.must_pass(b, 0, b.strict_ok_exits(), {bi for bi, st in ws}), R + '/result/linear-written', 'T-MUSTCALL', b.name, 'self.linear is not rewritten on every success path', b.site())
    for bi, st in ws:
        ex = T.expr(b, st['rv']['ops'][0])
        if ex[0] == 'agg' and ex[1].endswith('Option::None'):
            # guarded by map.is_empty() && constant == 0
            g1 = [c for c in b.calls if c.item == 'is_empty' and 'BTreeMap' in c.name]
            ok1 = any(g.true_bb is not None and bi in T.reach_cp(b, [g.true_bb]) and bi not in T.reach_cp(b, [g.false_bb]) for c in g1 for g in T.guards_from_call(b, c))
            ok2 = False
            for b2, st2 in float_cmp_sites(b, ('Eq',)):
                if any(o['k'] == 'const' and o['v'] == '0f64' for o in st2['rv']['ops']):
                    for g in T.guards_from_local(b, st2['dst']['l'], b2):
                        if bi in T.reach_cp(b, [g.true_bb]) and bi not in T.reach_cp(b, [g.false_bb]): ok2 = True
            ctx.check(ok1 and ok2, R + '/result/none-only-when-empty', 'T-GUARD', b.name, 'linear part is dropped although coefficients or a constant remain', b.site(bi))
    ret_is_used(ctx, R, b)
    lens = [c for c in b.calls if c.item in ('eq', 'ne') and False]
    conds = [(bi, st) for bi, st in b.stmts() if st['rv']['k'] == 'bin' and st['rv']['op'] in ('Lt', 'Ne') and st['rv'].get('ty') == 'usize' and bi in bl2]
    ok = any(T.expr_has_call(T.expr(b, st['rv']['ops'][1]), 'len') and any(f in ('rows', 'columns', 'values') for a, f in T.expr_fields(T.expr(b, st['rv']['ops'][1]))) for bi, st in conds)
    ctx.check(ok, R + '/all-entries', 'T-LOOPMUST', b.name, 'main loop is not bounded by rows.len()', b.site())


def polynomial_rules(ctx):
    R = 'C03.polynomial'
    b = ctx.method(R + '/anchor', 'v1::Polynomial', 'partial_evaluate', trait='Evaluate')
    if b is None: return
    pr = probes_in(b)
    ctx.check(len(pr) == 1, R + '/probe', 'T-BRANCHFX', b.name, 'expected one probe, found %d' % len(pr), b.site())
    if len(pr) != 1: return
    ctx.check(pe.label(b, T.expr(b, pr[0].args[1])) == 'ids', R + '/probe-key', 'T-CARRY', b.name, 'probe is not keyed by an id of the monomial', b.site(pr[0].bb))
    h, bl = loop_with(b, pr[0])
    # value accumulator of the monomial
    muls = [c for c in b.calls if T.ASSIGN_CALL.match(c.name) and c.bb in bl]
    vl = None
    for c in muls:
        ex = T.expr(b, c.args[0]); vl = ex[1] if ex[0] in ('local', 'place') else None
    ren = {'acc:_%d' % vl: 'value'} if vl is not None else {}
    tab = table(ctx, b, pr, h, 'v1::Polynomial', ren)
    check_table(ctx, R + '/case', b, tab, {
        'S': {('acc', 'value', 'Mul', ('val[ids]',)), ('report', 'ids')},
        'N': {('keep-id', 'ids')}})
    if vl is not None:
        init, ups = T.accumulator(b, vl)
        ctx.check(len(init) == 1 and pe.outer_field(init[0][0]) == 'coefficient', R + '/value-init', 'T-CARRY', b.name, 'monomial value does not start from its coefficient', b.site())
    # every id of the monomial is probed
    inner = [lo for lo in T.for_loops(b) if pr[0].bb in lo[4]]
    inner = min(inner, key=lambda l: len(l[4])) if inner else None
    if inner:
        loop_must(ctx, R + '/every-id', b, inner, lambda c: c is pr[0], 'state.get(id)')
        outer = [lo for lo in T.for_loops(b) if set(inner[4]) < set(lo[4])]
        if outer:
            o = outer[0]
            ent = [c for c in b.calls if c.item == 'entry' and 'BTreeMap' in c.name and c.bb in o[4]]
            ctx.check(len(ent) == 1, R + '/collect/entry', 'T-LOOPMUST', b.name, 'expected one monomials.entry(ids)', b.site())
            # key = the kept-id vector, value += monomial value
            keep = [c for c in b.calls if c.item == 'push' and 'Vec::<u64>::push' in c.name and c.bb in inner[4]]
            for c in ent:
                kroot = T.access_path(b, c.args[1])[1]
                ctx.check(bool(keep) and kroot == T.access_path(b, keep[0].args[0], transparent=T.TRANSPARENT_NOCLONE)[1], R + '/collect/key-is-kept-ids', 'T-CARRY', b.name, 'the map key is not the vector of remaining ids', b.site(c.bb))
            adds = [(bi, st) for bi, st in b.stmts() if bi in o[4] and bi not in inner[4] and st['rv']['k'] == 'bin' and st['rv']['op'] == 'Add' and st['rv'].get('ty') == 'f64' and st['dst']['p']]
            okadd = False
            for bi, st in adds:
                tl = pe.target_label(ctx, b, st['dst'])
                other = [o2 for o2 in st['rv']['ops'] if not (o2['k'] in ('copy', 'move') and o2['pl'] == st['dst'])]
                ex = T.expr(b, other[0]) if other else None
                if tl.startswith('entry[') and ex is not None and ex[0] in ('local', 'place') and ex[1] == vl: okadd = True
            ctx.check(okadd, R + '/collect/adds-value', 'T-BRANCHFX', b.name, 'monomial value is not added to the entry of its remaining ids', b.site())
            # skipping is allowed only for |coefficient| <= EPSILON; otherwise the entry is reached
            via = {c.bb for c in ent}
            skips = set()
            for bi, st in float_cmp_sites(b, ('Le', 'Lt')):
                if bi in o[4] and any(o2['k'] == 'const' and 'EPSILON' in o2['v'] for o2 in st['rv']['ops']):
                    oth = [o2 for o2 in st['rv']['ops'] if o2['k'] != 'const']
                    ax = T.expr(b, oth[0]) if oth else ('local', -1)
                    if oth and T.expr_has_call(ax, 'abs') and (('v1::Monomial', 'coefficient') in T.expr_fields(ax) or any(x[0] in ('local', 'place') and x[1] == vl for x in T.expr_walk(ax))):
                        for g in T.guards_from_local(b, st['dst']['l'], bi): skips.add(g.true_bb)
            ctx.check(T.must_pass(b, o[2], {o[1]}, via | skips), R + '/collect/every-term', 'T-LOOPMUST', b.name, 'a monomial can bypass the result map', b.site())
    # self.terms rebuilt from the map
    ws = [(bi, st) for bi, st in b.stmts() if st['dst']['p'] and fields_of_place(st['dst']) == [('v1::Polynomial', 'terms')]]
    ok = False
    for bi, st in ws:
        s = ctx.S.slice_operand(b, st['rv']['ops'][0])
        ok = any(c.item == 'entry' for c in s.call_objs) and all(b.dominates(bi, e) for e in b.strict_ok_exits())
        for cn in s.closures:
            cb = ctx.F.bodies.get(cn)
            if cb is not None and cb.parent == b.name:
                for b2, st2 in find_aggregates(cb, 'v1::Monomial'):
                    d = dict(zip(st2['rv']['fields'], st2['rv']['ops']))
                    ctx.check(T.expr_fields(T.expr(cb, d['ids']))[-1:] == [('tuple', '0')] and T.expr_fields(T.expr(cb, d['coefficient']))[-1:] == [('tuple', '1')], R + '/rebuild/monomial', 'T-CARRY', cb.name,
                              'Monomial is not {ids: key, coefficient: value} of the map entry', cb.site(b2))
    ctx.check(ok, R + '/rebuild/terms-from-map', 'T-CARRY', b.name, 'self.terms is not rebuilt from the collected map on every success path', b.site())
    ret_is_used(ctx, R, b)


def delegate_rules(ctx):
    R = 'C03.delegate'
    # Function: arm per variant
    b = ctx.method(R + '/Function/anchor', 'v1::Function', 'partial_evaluate', trait='Evaluate')
    if b is not None:
        want = {'Linear': 'v1::Linear', 'Quadratic': 'v1::Quadratic', 'Polynomial': 'v1::Polynomial'}
        pes = [c for c in b.calls if c.item == 'partial_evaluate' and 'Evaluate' in (c.trait or '')]
        got = {}
        for c in pes:
            tys = [k for k, v in want.items() if re.search(r'<%s as evaluate::Evaluate>::partial_evaluate' % re.escape(v), c.name)]
            arm = [a.split('::')[-1] for a, f in T.access_path(b, c.args[0])[0] if 'function::Function::' in a]
            if tys and arm and tys[0] == arm[0] and T.access_path(b, c.args[1])[1] == 2: got[tys[0]] = c
        ctx.check(set(got) == set(want), R + '/Function/arms', 'T-BRANCHFX', b.name, 'arms delegating to their payload: %s, expected %s' % (sorted(got), sorted(want)), b.site())
        errflow_calls(ctx, R + '/Function/errors', b, pes, 'payload partial_evaluate')
        for e, k, st in b.ret_assignments():
            if k == 'ok':
                s = ctx.S.slice_operand(b, st['rv']['ops'][0])
                ctx.check(all(c in s.call_objs for c in got.values()), R + '/Function/returns-payload-set', 'T-CARRY', b.name, 'returned set does not come from the payload', b.site(e))
    for ty, field in (('v1::Constraint', ('v1::Constraint', 'function')), ('v1::RemovedConstraint', ('v1::RemovedConstraint', 'constraint'))):
        b = ctx.method(R + '/%s/anchor' % ty.split('::')[-1], ty, 'partial_evaluate', trait='Evaluate')
        if b is None: continue
        pes = [c for c in b.calls if c.item == 'partial_evaluate' and 'Evaluate' in (c.trait or '')]
        ok = len(pes) == 1 and field in T.access_path(b, pes[0].args[0])[0] and T.access_path(b, pes[0].args[1])[1] == 2
        ctx.check(ok, R + '/%s/passes-state' % ty.split('::')[-1], 'T-CARRY', b.name, 'does not partially evaluate its %s with the given state' % field[1], b.site())
        for c in pes:
            res = T.errflow(b, c.dst['l'])
            ctx.check(not [h for k, h in res if k == 'bad'], R + '/%s/returns-result' % ty.split('::')[-1], 'T-ERRFLOW', b.name, 'result of the inner partial_evaluate is not returned / propagated', b.site(c.bb))
        if ty.endswith('RemovedConstraint'):
            opt = [c for c in b.calls if c.item == 'as_mut' and 'Option::<v1::Constraint>' in c.name]
            errflow_calls(ctx, R + '/RemovedConstraint/missing-is-error', b, opt, 'missing constraint')


def instance_rules(ctx):
    R = 'C03.instance'
    b = ctx.method(R + '/anchor', INST, 'partial_evaluate', trait='Evaluate')
    if b is None: return
    cover(ctx, R + '/cover', b, INST, exempt=('description', 'sense', 'parameters', 'constraint_hints'))
    pes = [c for c in b.calls if c.item == 'partial_evaluate' and 'Evaluate' in (c.trait or '')]
    want = {'objective': r'<v1::Function as', 'constraints': r'<v1::Constraint as', 'removed_constraints': r'<v1::RemovedConstraint as', 'decision_variable_dependency': r'<v1::Function as'}
    found = {}
    for c in pes:
        s = ctx.S.slice_operand(b, c.args[0])
        for f, pat in want.items():
            if s.has_field(INST, f) and re.search(pat, c.name) and f not in found:
                if f == 'objective' and s.has_field(INST, 'decision_variable_dependency'): continue
                found[f] = c
    for f in want:
        c = found.get(f)
        ctx.check(c is not None, R + '/apply/' + f, 'T-MUSTCALL', b.name, 'self.%s is not partially evaluated' % f, b.site())
        if c is None: continue
        ctx.check(T.access_path(b, c.args[1])[1] == 2, R + '/apply/%s/state' % f, 'T-CARRY', b.name, 'not with the given state', b.site(c.bb))
        errflow_calls(ctx, R + '/apply/%s/error' % f, b, [c], 'partial_evaluate')
        if f == 'objective':
            must_pass_or_none(ctx, R + '/apply/objective/every-path', b, c, INST, 'objective', 'partially evaluating the objective')
        else:
            ls = [lo for lo in T.for_loops(b) if c.bb in lo[4]]
            ctx.check(len(ls) == 1, R + '/apply/%s/loop' % f, 'T-LOOPMUST', b.name, 'not inside a loop over self.%s' % f, b.site(c.bb))
            for lo in ls:
                loop_must(ctx, R + '/apply/%s/every-item' % f, b, lo, lambda x: x is c, 'partial_evaluate')
                ctx.check(lo[0].dst['l'] in ctx.S.slice_operand(b, c.args[0]).locals, R + '/apply/%s/item' % f, 'T-CARRY', b.name, 'receiver is not the loop item', b.site(c.bb))
                ctx.check(all(b.dominates(lo[1], e) for e in b.strict_ok_exits()), R + '/apply/%s/dominates' % f, 'T-MUSTCALL', b.name, 'loop does not dominate the Ok-exit', b.site(c.bb))
    # returned set is the union of every call's result
    for e, k, st in b.ret_assignments():
        if k == 'ok':
            s = ctx.S.slice_operand(b, st['rv']['ops'][0])
            miss = [f for f, c in found.items() if c not in s.call_objs]
            ctx.check(not miss and len(found) == 4, R + '/returns-union', 'T-CARRY', b.name, 'returned set misses the ids reported for %s' % miss, b.site(e))
    # substituted_value <- the state's value for the variable's own id, for every variable with a value
    loops = loops_over(ctx, b, INST, 'decision_variables')
    pr = probes_in(b)
    ws = [(bi, st) for bi, st in b.stmts() if st['dst']['p'] and fields_of_place(st['dst'])[-1:] == [(DV, 'substituted_value')]]
    ok = False
    if len(loops) == 1 and len(pr) == 1 and len(ws) == 1:
        lo = loops[0]; bi, st = ws[0]
        key_ok = (DV, 'id') in T.expr_fields(T.expr(b, pr[0].args[1])) and lo[0].dst['l'] in ctx.S.slice_operand(b, pr[0].args[1]).locals
        ex = T.expr(b, st['rv']['ops'][0])
        val_ok = ex[0] == 'agg' and ex[1].endswith('Option::Some') and any(x[0] == 'call' and x[1] == 'get' for x in T.expr_walk(ex))
        arms = T.option_arms(b, pr[0].dst['l'])
        path_ok = bool(arms) and all(T.must_pass(b, m.get(1, els), {lo[1]}, {bi}) for sb, m, els in arms)
        same_var = lo[0].dst['l'] in ctx.S.backslice(b, [st['dst']['l']]).locals
        ok = key_ok and val_ok and path_ok and same_var
        loop_must(ctx, R + '/record/every-variable', b, lo, lambda c: c is pr[0], 'state.get(v.id)')
    ctx.check(ok, R + '/record/substituted_value', 'T-BRANCHFX', b.name, 'a fixed value is not recorded as substituted_value of its own decision variable', b.site())


def check(ctx):
    linear_rules(ctx); quadratic_rules(ctx); polynomial_rules(ctx); delegate_rules(ctx); instance_rules(ctx)
    ctx.floor('C03.linear', 6); ctx.floor('C03.quadratic', 14); ctx.floor('C03.polynomial', 10); ctx.floor('C03.delegate', 8); ctx.floor('C03.instance', 25)
