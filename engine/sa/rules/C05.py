"""C05 — a Solution faithfully reports the evaluated problem (DESIGN §5 C05)."""
from .common import *
from .feas import check_feasibility_rule

INST = 'v1::Instance'; DV = 'v1::DecisionVariable'; CON = 'v1::Constraint'; RC = 'v1::RemovedConstraint'; EC = 'v1::EvaluatedConstraint'
TOL_FEAS = 1e-6; TOL_BOUND = 1e-7


def flag_chain(body, local):
    """locals holding the same flag through plain copies, both directions (single statements)"""
    seen = {local}; work = [local]
    while work:
        l = work.pop()
        for k, bi, d in body.defs_of(l):
            if k == 'stmt' and d['rv']['k'] == 'use' and d['rv']['ops'][0]['k'] in ('copy', 'move') and not d['rv']['ops'][0]['pl']['p']:
                s = d['rv']['ops'][0]['pl']['l']
                if body.locals[s] == 'bool' and s not in seen: seen.add(s); work.append(s)
    return seen


def solution_rules(ctx, body):
    R = 'C05'
    # ---------------- bound check
    cb = mustcall(ctx, R + '.bound/check_bound-dominates', body, lambda c: c.item == 'check_bound' and c.path.endswith('Instance>::check_bound'), 'self.check_bound(state, 1e-7)')
    if cb is not None:
        const_arg(ctx, R + '.bound/tolerance', body, cb, 2, TOL_BOUND, 'bound tolerance', tol=1e-9)
        ctx.check(T.access_path(body, cb.args[0])[1] == 1 and T.access_path(body, cb.args[1])[1] == 2, R + '.bound/args', 'T-CARRY', body.name, 'check_bound is not applied to (self, state)', body.site(cb.bb))
        # it must come before anything is evaluated
        evs = [c for c in body.calls if c.item == 'evaluate' and 'Evaluate' in (c.trait or '')]
        ctx.check(all(body.dominates(cb.bb, c.bb) for c in evs), R + '.bound/first', 'T-GUARD', body.name, 'an evaluation happens before the bound check', body.site(cb.bb))
    # ---------------- coverage of the message
    cover(ctx, R + '.cover', body, INST, exempt=('description', 'sense', 'parameters', 'constraint_hints'))
    # ---------------- the Solution aggregate
    aggs = find_aggregates(body, 'v1::Solution')
    if len(aggs) != 1:
        ctx.bad(R + '.solution/aggregate', 'ANCHOR', body.name, 'expected one v1::Solution aggregate, found %d' % len(aggs)); return
    sbi, sol = aggs[0]
    ctx.check(all(body.dominates(sbi, e) for e in body.strict_ok_exits()), R + '.solution/on-every-success-path', 'T-MUSTCALL', body.name, 'Solution aggregate does not dominate the Ok-exit', body.site(sbi))
    # ---------------- both lists: evaluate every element, push exactly once
    pushes = [c for c in body.calls if c.item == 'push' and 'Vec::<v1::EvaluatedConstraint>::push' in c.name]
    feas_calls = [c for c in body.calls if c.item == 'is_feasible' and c.path.endswith('EvaluatedConstraint>::is_feasible')]
    loops = {}
    for field, ty in (('constraints', CON), ('removed_constraints', RC)):
        ls = loops_over(ctx, body, INST, field)
        ls = [l for l in ls if any(c.bb in l[4] for c in body.calls if c.item == 'evaluate' and c.is_(trait='Evaluate', self_ty=ty.replace('::', '::') + '$'))]
        ctx.check(len(ls) == 1, R + '.lists/%s/loop' % field, 'T-LOOPMUST', body.name, 'expected one evaluation loop over self.%s, found %d' % (field, len(ls)), body.site())
        if len(ls) != 1: continue
        lo = ls[0]; loops[field] = lo
        nextc, header, some_bb, none_bb, blocks = lo
        ev = [c for c in body.calls if c.bb in blocks and c.item == 'evaluate' and c.is_(trait='Evaluate', self_ty=ty + '$')]
        for c in ev:
            ctx.check(nextc.dst['l'] in ctx.S.slice_operand(body, c.args[0]).locals and T.access_path(body, c.args[1])[1] == 2, R + '.lists/%s/evaluate-item-at-state' % field, 'T-CARRY', body.name,
                      'evaluate is not applied to (loop item, state)', body.site(c.bb))
            errflow_calls(ctx, R + '.lists/%s/error-propagates' % field, body, [c], 'constraint evaluation')
        loop_must(ctx, R + '.lists/%s/evaluate-every' % field, body, lo, lambda c: c in ev, 'evaluate')
        ps = [c for c in pushes if c.bb in blocks]
        ctx.check(len(ps) == 1, R + '.lists/%s/one-push' % field, 'T-LOOPMUST', body.name, 'expected one push per iteration, found %d' % len(ps), body.site(nextc.bb))
        loop_must(ctx, R + '.lists/%s/push-every' % field, body, lo, lambda c: c in ps, 'evaluated_constraints.push')
        for c in ps:
            s = ctx.S.slice_operand(body, c.args[1])
            ctx.check(any(e in s.call_objs for e in ev) and not any(x.item == 'clone' for x in s.call_objs), R + '.lists/%s/push-is-result' % field, 'T-CARRY', body.name, 'pushed value is not the evaluation result', body.site(c.bb))
            # the pushed element is not modified between evaluation and push
            chain = {l for l in s.locals if re.fullmatch(r'v1::EvaluatedConstraint', body.locals[l])}
            touched = [body.site(bi) for bi, st in body.stmts() if (st['rv']['k'] == 'ref' and st['rv'].get('mut') and st['rv']['pl']['l'] in chain) or (st['dst']['p'] and st['dst']['l'] in chain)]
            ctx.check(not touched, R + '.lists/%s/push-unmodified' % field, 'T-CARRY', body.name, 'evaluated constraint is modified before it is pushed (%s)' % touched, body.site(c.bb))
        ctx.check(all(body.dominates(header, e) for e in body.strict_ok_exits()), R + '.lists/%s/dominates' % field, 'T-MUSTCALL', body.name, 'loop does not dominate the Ok-exit', body.site(nextc.bb))
    ctx.check(len(pushes) == 2, R + '.lists/two-pushes', 'T-LOOPMUST', body.name, 'expected two pushes onto the evaluated list, found %d' % len(pushes), body.site())
    ec = carry_field(ctx, R + '.lists/solution-field', body, sol, 'evaluated_constraints', need_fields=[(INST, 'constraints'), (INST, 'removed_constraints')], site=body.site(sbi))
    if ec is not None:
        ctx.check(all(p in ec.call_objs for p in pushes), R + '.lists/solution-field-is-the-list', 'T-CARRY', body.name, 'Solution.evaluated_constraints is not the list both loops push to', body.site(sbi))
    # ---------------- flags
    def flag_local_of(field):
        op = agg_field_operand(sol, field)
        if op is None or op['k'] not in ('copy', 'move'): return None, None
        l = op['pl']['l']
        for k, bi, d in body.defs_of(l):
            if k == 'stmt' and d['rv']['k'] == 'agg' and d['rv']['adt'].endswith('Option::Some'):
                o = d['rv']['ops'][0]
                if o['k'] in ('copy', 'move'): l = o['pl']['l']
        return l, op
    for field, need, forbid in (('feasible_relaxed', ['constraints'], ['removed_constraints']), ('feasible', ['constraints', 'removed_constraints'], [])):
        l, op = flag_local_of(field)
        if l is None:
            ctx.bad(R + '.flags/%s/operand' % field, 'T-CARRY', body.name, 'Solution.%s is not fed by a local' % field, body.site(sbi)); continue
        s = ctx.S.backslice(body, [l]); ctx.counters['slices'] += 1
        fc = [c for c in feas_calls if c in s.call_objs]
        srcs = set()
        for c in fc:
            rs = ctx.S.slice_operand(body, c.args[0])
            for f in ('constraints', 'removed_constraints'):
                if rs.has_field(INST, f): srcs.add(f)
        ctx.check(set(need) <= srcs, R + '.flags/%s/depends-on' % field, 'T-CARRY', body.name,
                  'Solution.%s does not depend on is_feasible of %s (depends on %s)' % (field, sorted(set(need) - srcs), sorted(srcs)), body.site(sbi))
        ctx.check(not (set(forbid) & srcs), R + '.flags/%s/independent-of' % field, 'T-CARRY', body.name,
                  'Solution.%s depends on is_feasible of %s' % (field, sorted(set(forbid) & srcs)), body.site(sbi))
        # definitions of the flag: `true`, a copy of the other flag, or an is_feasible result under `if flag`
        chain = flag_chain(body, l)
        init_true = False
        for fl in chain:
            for k, bi, d in body.defs_of(fl):
                if k != 'stmt': continue
                rv = d['rv']
                if rv['k'] == 'use' and rv['ops'][0]['k'] == 'const':
                    if rv['ops'][0]['v'] == 'true': init_true = True
                    else: ctx.bad(R + '.flags/%s/defs' % field, 'T-CONST', body.name, 'flag is assigned constant %s' % rv['ops'][0]['v'], body.site(bi))
                elif rv['k'] == 'use' and rv['ops'][0]['k'] in ('copy', 'move'):
                    src = rv['ops'][0]['pl']['l']
                    if src in chain: continue
                    ex = T.expr(body, rv['ops'][0])
                    if T.expr_has_call(ex, 'is_feasible'):
                        # must be guarded by `if flag` (sticky false) or combined with &&
                        guarded = False
                        for sb, neg in [(x, n) for fl2 in chain for x, n in T.bool_flow(body, fl2)]:
                            tb, fb = T.switch_sides(body, sb, neg)
                            if tb is not None and body.dominates(tb, bi) and (fb is None or not body.dominates(fb, bi)) and tb != fb: guarded = True
                        ctx.check(guarded, R + '.flags/%s/sticky' % field, 'T-BRANCHFX', body.name, 'flag is overwritten by a later constraint (not guarded by `if flag`)', body.site(bi))
                    else:
                        ctx.bad(R + '.flags/%s/defs' % field, 'T-CARRY', body.name, 'flag is assigned from something other than is_feasible: %s' % T.expr_str(ex), body.site(bi))
                elif rv['k'] in ('bin',) and rv['op'] in ('BitAnd',):
                    pass
                else:
                    ctx.bad(R + '.flags/%s/defs' % field, 'T-CARRY', body.name, 'unexpected flag computation %s' % rv['k'], body.site(bi))
        ctx.check(init_true, R + '.flags/%s/starts-true' % field, 'T-CONST', body.name, 'flag does not start as true', body.site())
    ctx.check(len(feas_calls) == 2, R + '.flags/two-feasibility-tests', 'T-CONST', body.name, 'expected two is_feasible calls, found %d' % len(feas_calls), body.site())
    for c in feas_calls:
        const_arg(ctx, R + '.flags/tolerance', body, c, 1, TOL_FEAS, 'feasibility tolerance', tol=1e-9)
        inloop = [f for f, lo in loops.items() if c.bb in lo[4]]
        if inloop:
            rs = ctx.S.slice_operand(body, c.args[0])
            evs = [x for x in rs.call_objs if x.item == 'evaluate' and x.bb in loops[inloop[0]][4]]
            ctx.check(bool(evs), R + '.flags/tests-this-iteration', 'T-CARRY', body.name, 'is_feasible is not applied to the constraint evaluated in this iteration', body.site(c.bb))
    # ---------------- objective
    oop = agg_field_operand(sol, 'objective')
    ex = T.expr(body, oop, depth=14)
    okobj = False
    for x in T.expr_walk(ex):
        if x[0] == 'call' and x[1] == 'evaluate' and re.search(r'<v1::Function as evaluate::Evaluate>::evaluate', x[2]):
            if T.expr_has_call(x[3][0], 'objective') and T.strip_wrappers(x[3][1]) == ('place', 2, []): okobj = True
    fs = [f for a, f in T.own_fields(ex) if a == 'tuple']
    ctx.check(okobj and fs[-1:] == ['0'], R + '.objective/is-objective-value', 'T-CARRY', body.name, 'Solution.objective is not `.0` of self.objective().evaluate(state): %s' % T.expr_str(ex), body.site(sbi))
    objev = [c for c in body.calls if c.item == 'evaluate' and re.search(r'<v1::Function as evaluate::Evaluate>::evaluate', c.name)]
    errflow_calls(ctx, R + '.objective/error-propagates', body, objev, 'objective evaluation')
    # ---------------- reported state
    carry_field(ctx, R + '.state/decision_variables', body, sol, 'decision_variables', need_fields=[(INST, 'decision_variables')], site=body.site(sbi))
    st = carry_field(ctx, R + '.state/field', body, sol, 'state', need_params=[2], site=body.site(sbi))
    ed = mustcall(ctx, R + '.state/eval_dependencies', body, lambda c: c.item == 'eval_dependencies', 'eval_dependencies(&self.decision_variable_dependency, &mut state)')
    if ed is not None and st is not None:
        ctx.check(ctx.S.slice_operand(body, ed.args[0]).has_field(INST, 'decision_variable_dependency'), R + '.state/eval_dependencies/map', 'T-CARRY', body.name, 'eval_dependencies is not given the dependency map', body.site(ed.bb))
        ctx.check(ed in st.call_objs, R + '.state/eval_dependencies/same-state', 'T-CARRY', body.name, 'the reported state is not the one completed by eval_dependencies', body.site(ed.bb))
    # substituted values
    dvl = loops_over(ctx, body, INST, 'decision_variables')
    ins = [c for c in body.calls if c.item == 'insert' and 'HashMap::<u64, f64>::insert' in c.name]
    sub_ok = False
    for lo in dvl:
        for c in ins:
            if c.bb not in lo[4]: continue
            kf = T.access_path(body, c.args[1])[0]; vex = T.expr(body, c.args[2])
            if (DV, 'id') in kf and any(f == 'substituted_value' for a, f in T.expr_fields(vex)):
                # on the Some arm, every iteration with a substituted value reaches the insert
                arms = [sm for sb, sm, nn in option_field_tests(body, DV, 'substituted_value') if sb in lo[4]]
                if arms and all(T.must_pass(body, a, {lo[1]}, {c.bb}) for a in arms):
                    sub_ok = True
                    ctx.check(st is not None and c in st.call_objs, R + '.state/substituted/same-state', 'T-CARRY', body.name, 'substituted values are inserted into another map', body.site(c.bb))
                    if ed is not None:
                        ctx.check(body.dominates(lo[1], ed.bb), R + '.state/substituted/before-dependencies', 'T-MUSTCALL', body.name, 'substituted values are inserted after eval_dependencies', body.site(c.bb))
    ctx.check(sub_ok, R + '.state/substituted/inserted', 'T-BRANCHFX', body.name, 'previously fixed values (substituted_value) are not inserted into the reported state', body.site())
    # vacant ids filled with nearest_to_zero of the variable's bound
    vac = [c for c in body.calls if c.item == 'insert' and 'VacantEntry' in c.name]
    fill_ok = False
    for lo in dvl:
        for c in vac:
            if c.bb not in lo[4]: continue
            vex = T.expr(body, c.args[1], depth=14)
            ent = ctx.S.slice_operand(body, c.args[0])
            ntz = [x for x in T.expr_walk(vex) if x[0] == 'call' and x[1] == 'nearest_to_zero']
            tb = [x for x in T.expr_walk(vex) if x[0] == 'call' and re.search(r"TryFrom<&('\w+ )?v1::DecisionVariable>>::try_from|TryInto<bound::Bound>>::try_into", x[2])]
            keyed = any(x.item == 'entry' and (DV, 'id') in T.access_path(body, x.args[1])[0] for x in ent.call_objs)
            if ntz and tb and keyed and lo[0].dst['l'] in ctx.S.slice_operand(body, c.args[1]).locals:
                fill_ok = True
                ctx.check(st is not None and c in st.call_objs, R + '.state/fill/same-state', 'T-CARRY', body.name, 'irrelevant variables are filled into another map', body.site(c.bb))
                if ed is not None:
                    ctx.check(body.dominates(ed.bb, lo[1]), R + '.state/fill/after-dependencies', 'T-MUSTCALL', body.name, 'fill happens before dependencies are evaluated', body.site(c.bb))
                ctx.check(all(body.dominates(lo[1], e) for e in body.strict_ok_exits()), R + '.state/fill/dominates', 'T-MUSTCALL', body.name, 'fill loop does not dominate the Ok-exit', body.site(c.bb))
    ctx.check(fill_ok, R + '.state/fill/nearest_to_zero', 'T-BRANCHFX', body.name, 'unused variables are not completed with Bound::nearest_to_zero of their own bound', body.site())
    tbs = [c for c in body.calls if re.search(r"TryFrom<&('\w+ )?v1::DecisionVariable>>::try_from|TryInto<bound::Bound>>::try_into", c.name)]
    errflow_calls(ctx, R + '.state/fill/bound-error', body, tbs, 'bound conversion')


def check_bound_rules(ctx):
    R = 'C05.bound'
    b = ctx.method(R + '/check_bound/anchor', INST, 'check_bound')
    if b is None: return
    gb = mustcall(ctx, R + '/check_bound/get_bounds', b, lambda c: c.item == 'get_bounds', 'self.get_bounds()?')
    loops = [lo for lo in T.for_loops(b) if ctx.S.slice_operand(b, lo[0].args[0]).has_field('v1::State', 'entries')]
    ctx.check(len(loops) == 1, R + '/check_bound/loop', 'T-LOOPMUST', b.name, 'expected one loop over state.entries, found %d' % len(loops), b.site())
    for lo in loops:
        nextc, header, some_bb, none_bb, blocks = lo
        cont = [c for c in b.calls if c.bb in blocks and c.item == 'contains' and c.path.endswith('Bound::contains')]
        ctx.check(len(cont) == 1, R + '/check_bound/contains', 'T-GUARD', b.name, 'expected one Bound::contains test in the loop, found %d' % len(cont), b.site(nextc.bb))
        for c in cont:
            okg = any(g.requires(True) for g in T.guards_from_call(b, c))
            ctx.check(okg, R + '/check_bound/violation-is-error', 'T-GUARD', b.name, 'a value outside its bound does not lead to an error', b.site(c.bb))
            ctx.check(nextc.dst['l'] in ctx.S.slice_operand(b, c.args[1]).locals, R + '/check_bound/value', 'T-CARRY', b.name, 'contains() is not applied to the state value', b.site(c.bb))
            ctx.check(T.strip_wrappers(T.expr(b, c.args[2])) == ('place', 3, []), R + '/check_bound/atol', 'T-CARRY', b.name, 'contains() does not receive the given tolerance', b.site(c.bb))
            rs = ctx.S.slice_operand(b, c.args[0])
            gets = [x for x in rs.call_objs if x.item == 'get' and 'HashMap' in x.name]
            ctx.check(bool(gets) and gb is not None and gb in rs.call_objs and nextc.dst['l'] in rs.locals, R + '/check_bound/bound-of-same-id', 'T-CARRY', b.name, 'the bound is not looked up under the entry\'s own id', b.site(c.bb))
            # every entry with a known bound reaches the test: Some arm of the lookup
            for gcall in gets:
                arms = T.option_arms(b, gcall.dst['l'])
                ok = bool(arms) and all(T.must_pass(b, m.get(1, els), {header}, {c.bb}) for sb, m, els in arms)
                ctx.check(ok, R + '/check_bound/every-bounded-entry', 'T-LOOPMUST', b.name, 'an entry with a bound can skip the test', b.site(gcall.bb))
        si = ctx.S.slice_operand(b, nextc.args[0])
        restr = sorted({x.item for x in si.call_objs if x.item in RESTRICTING and 'Iterator' in (x.trait or '')})
        ctx.check(not restr and 2 in si.params and si.has_field('v1::State', 'entries'), R + '/check_bound/all-entries', 'T-LOOPMUST', b.name, 'loop does not visit all state entries %s' % restr, b.site(nextc.bb))
    # Bound::contains shape
    cb = ctx.method(R + '/contains/anchor', 'bound::Bound', 'contains')
    if cb is not None:
        cmps = [(bi, st) for bi, st in float_cmp_sites(cb)]
        shapes = []
        for bi, st in cmps:
            l = T.expr(cb, st['rv']['ops'][0]); r = T.expr(cb, st['rv']['ops'][1])
            shapes.append((st['rv']['op'], T.expr_str(l), T.expr_str(r)))
        want = {('Le', '(_1.lower Sub _3)', '_2'), ('Le', '_2', '(_1.upper Add _3)')}
        alt = {('Ge', '_2', '(_1.lower Sub _3)'), ('Ge', '(_1.upper Add _3)', '_2')}
        norm = set()
        for op, l, r in shapes:
            if op == 'Ge': op, l, r = 'Le', r, l
            norm.add((op, l, r))
        ctx.check(norm == want, R + '/contains/shape', 'T-BRANCHFX', cb.name, 'contains is not `lower - atol <= v && v <= upper + atol`: %s' % sorted(shapes), cb.site(), shape=sorted(shapes))
        # conjunction: result true requires both
        oks = []
        for bi, st in cmps:
            for g in T.guards_from_local(cb, st['dst']['l'], bi):
                fr = T.reach_cp(cb, [g.false_bb]) if g.false_bb is not None else set()
                # on the false side the returned value must be the constant false
                oks.append(any(b2 in fr and s2['dst']['l'] == 0 and s2['rv']['k'] == 'use' and s2['rv']['ops'][0].get('v') == 'false' for b2, s2 in cb.stmts()))
        ctx.check(len(cmps) == 2 and (not oks or oks[0]), R + '/contains/conjunction', 'T-BRANCHFX', cb.name, 'the two comparisons are not combined with &&', cb.site())
    # get_bounds branch table (and its sibling TryFrom<&DecisionVariable> for Bound)
    gbb = ctx.method(R + '/get_bounds/anchor', INST, 'get_bounds')
    tfb = ctx.method(R + '/try_from/anchor', 'bound::Bound', 'try_from', trait='TryFrom', targs=["&v1::DecisionVariable"])
    tabs = {}
    for nm, fb in (('get_bounds', gbb), ('try_from', tfb)):
        if fb is None: continue
        tabs[nm] = bound_default_table(ctx, R + '/' + nm, fb)
    if len(tabs) == 2:
        ctx.check(tabs['get_bounds'] == tabs['try_from'], R + '/sibling/unset-bound-table', 'T-SIBLING', 'get_bounds vs TryFrom<&DecisionVariable>', 'tables differ: %s' % tabs)
    if gbb is not None:
        loops = loops_over(ctx, gbb, INST, 'decision_variables')
        ctx.check(len(loops) == 1, R + '/get_bounds/loop', 'T-LOOPMUST', gbb.name, 'expected one loop over decision_variables', gbb.site())
        for lo in loops:
            loop_must(ctx, R + '/get_bounds/every-variable', gbb, lo, lambda c: c.item == 'insert' and 'HashMap' in c.name, 'bounds.insert')
    # nearest_to_zero branch table
    nz = ctx.method('C05.state/nearest_to_zero/anchor', 'bound::Bound', 'nearest_to_zero')
    if nz is not None:
        rows = []
        for bi, st in float_cmp_sites(nz):
            l = T.expr_str(T.expr(nz, st['rv']['ops'][0])); r = T.expr_str(T.expr(nz, st['rv']['ops'][1]))
            for g in T.guards_from_local(nz, st['dst']['l'], bi):
                tr = T.reach_cp(nz, [g.true_bb]) - T.reach_cp(nz, [g.false_bb])
                rets = [T.expr_str(T.expr(nz, s2['rv']['ops'][0])) for b2, s2 in nz.stmts() if b2 in tr and s2['dst']['l'] == 0 and s2['rv']['k'] == 'use']
                rows.append((st['rv']['op'], l, r, tuple(rets)))
        consts = [s2['rv']['ops'][0]['v'] for b2, s2 in nz.stmts() if s2['dst']['l'] == 0 and s2['rv']['k'] == 'use' and s2['rv']['ops'][0]['k'] == 'const']
        want = {('Ge', '_1.lower', '0f64', ('_1.lower',)), ('Le', '_1.upper', '0f64', ('_1.upper',))}
        ctx.check(set(rows) == want and consts == ['0f64'], 'C05.state/nearest_to_zero/table', 'T-BRANCHFX', nz.name,
                  'nearest_to_zero is not {lower>=0 => lower; upper<=0 => upper; else 0}: %s else %s' % (rows, consts), nz.site(), table=rows)


def bound_default_table(ctx, rule, fb):
    """Some(b) => converted through Bound::new / try_from; None & Binary => [0,1]; otherwise Bound::default()"""
    tab = {}
    # the Option<v1::Bound> discriminant test
    arms = [(sm, nn) for sb, sm, nn in option_field_tests(fb, DV, 'bound')]
    ctx.check(len(arms) == 1, rule + '/bound-option-test', 'T-BRANCHFX', fb.name, 'expected one `if let Some(bound) = &v.bound`, found %d' % len(arms), fb.site())
    if len(arms) != 1: return tab
    some_bb, none_bb = arms[0]
    hdrs = {h for h in fb.loops()}
    sr = T.reach_cp(fb, [some_bb], stop=hdrs) - T.reach_cp(fb, [none_bb], stop=hdrs)
    nr = T.reach_cp(fb, [none_bb], stop=hdrs) - T.reach_cp(fb, [some_bb], stop=hdrs)
    conv = [c for c in fb.calls if c.bb in sr and re.search(r'TryFrom<v1::Bound>>::try_from|TryInto<bound::Bound>>::try_into|Bound::new$', c.name)]
    tab['some'] = 'converted' if conv else 'other'
    for c in conv:
        errflow_calls(ctx, rule + '/some/error-propagates', fb, [c], 'bound conversion') if fb.hdr.get('item') != 'try_from' else None
    # None side: kind() == Binary => new(0,1) else default()
    kc = [c for c in fb.calls if c.bb in nr and c.item in ('eq', 'ne') and re.search(r'decision_variable::Kind$', c.self_ty or '')]
    binv = None
    for c in kc:
        vs = [enum_variant_of_operand(ctx, fb, a) for a in c.args]
        if any(v and v.endswith('Kind::Binary') for v in vs):
            for g in T.guards_from_call(fb, c):
                tb, fbb = (g.true_bb, g.false_bb) if c.item == 'eq' else (g.false_bb, g.true_bb)
                tr = T.reach_cp(fb, [tb], stop=hdrs) - T.reach_cp(fb, [fbb], stop=hdrs); fr = T.reach_cp(fb, [fbb], stop=hdrs) - T.reach_cp(fb, [tb], stop=hdrs)
                news = [x for x in fb.calls if x.bb in tr and x.path.endswith('Bound::new')]
                v01 = [tuple(T.f64_const(a['v']) if a['k'] == 'const' else None for a in x.args) for x in news]
                defs = [x for x in fb.calls if x.bb in fr and x.item == 'default' and 'bound::Bound' in x.name]
                tab['none-binary'] = v01[0] if len(v01) == 1 else tuple(v01)
                tab['none-other'] = 'Bound::default' if defs and not [x for x in fb.calls if x.bb in fr and x.path.endswith('Bound::new')] else 'other'
    ctx.check(tab.get('some') == 'converted' and tab.get('none-binary') == (0.0, 1.0) and tab.get('none-other') == 'Bound::default', rule + '/table', 'T-BRANCHFX', fb.name,
              'unset-bound table is %s, expected Some=>converted, None+Binary=>[0,1], None=>Bound::default()' % tab, fb.site(), table=str(tab))
    return tab


def constraint_rules(ctx):
    R = 'C05.lists'
    b = ctx.method(R + '/Constraint::evaluate/anchor', CON, 'evaluate', trait='Evaluate')
    if b is not None:
        aggs = find_aggregates(b, EC)
        ctx.check(len(aggs) == 1, R + '/Constraint::evaluate/aggregate', 'T-CARRY', b.name, 'expected one EvaluatedConstraint aggregate, found %d' % len(aggs), b.site())
        for bi, st in aggs:
            for f in ('id', 'equality', 'name', 'subscripts', 'parameters', 'description'):
                op = agg_field_operand(st, f)
                fs, root, calls = T.access_path(b, op) if op else ([], None, [])
                ctx.check(root == 1 and fs == [(CON, f)], R + '/Constraint::evaluate/carry/' + f, 'T-CARRY', b.name, 'EvaluatedConstraint.%s is not self.%s (path %s)' % (f, f, fs), b.site(bi))
            ev = T.expr(b, agg_field_operand(st, 'evaluated_value'), depth=14)
            okv = any(x[0] == 'call' and x[1] == 'evaluate' and 'v1::Function as evaluate::Evaluate' in x[2] and T.expr_has_call(x[3][0], 'function') and T.strip_wrappers(x[3][1]) == ('place', 2, []) for x in T.expr_walk(ev))
            ctx.check(okv and [f for a, f in T.own_fields(ev) if a == 'tuple'][-1:] == ['0'], R + '/Constraint::evaluate/value', 'T-CARRY', b.name, 'evaluated_value is not `.0` of self.function().evaluate(state): %s' % T.expr_str(ev), b.site(bi))
            us = slice_op(ctx, b, agg_field_operand(st, 'used_decision_variable_ids'))
            ctx.check(us.has_call(r'v1::Function as evaluate::Evaluate>::evaluate'), R + '/Constraint::evaluate/used-ids', 'T-CARRY', b.name, 'used ids do not come from the function evaluation', b.site(bi))
            rr = agg_field_operand(st, 'removed_reason')
            ctx.check(T.expr(b, rr)[0] == 'agg' and T.expr(b, rr)[1].endswith('Option::None'), R + '/Constraint::evaluate/no-reason', 'T-CONST', b.name, 'active constraint gets a removal reason', b.site(bi))
        fe = [c for c in b.calls if c.item == 'evaluate' and 'v1::Function as evaluate::Evaluate' in c.name]
        errflow_calls(ctx, R + '/Constraint::evaluate/error-propagates', b, fe, 'function evaluation')
    b = ctx.method(R + '/RemovedConstraint::evaluate/anchor', RC, 'evaluate', trait='Evaluate')
    if b is not None:
        ce = [c for c in b.calls if c.item == 'evaluate' and re.search(r'<v1::Constraint as evaluate::Evaluate>::evaluate', c.name)]
        ctx.check(len(ce) == 1, R + '/RemovedConstraint::evaluate/delegates', 'T-MUSTCALL', b.name, 'does not evaluate the wrapped constraint', b.site())
        for c in ce:
            fs, root, calls = T.access_path(b, c.args[0])
            ctx.check((RC, 'constraint') in fs and T.access_path(b, c.args[1])[1] == 2, R + '/RemovedConstraint::evaluate/args', 'T-CARRY', b.name, 'not (self.constraint, state)', b.site(c.bb))
            errflow_calls(ctx, R + '/RemovedConstraint::evaluate/error-propagates', b, [c], 'constraint evaluation')
        opt = [c for c in b.calls if c.item == 'as_ref' and 'Option::<v1::Constraint>' in c.name]
        errflow_calls(ctx, R + '/RemovedConstraint::evaluate/missing-is-error', b, opt, 'missing constraint')
        for f in ('removed_reason', 'removed_reason_parameters'):
            ws = [(bi, st) for bi, st in b.stmts() if st['dst']['p'] and fields_of_place(st['dst'])[-1:] == [(EC, f)]]
            ok = False
            for bi, st in ws:
                s = ctx.S.slice_operand(b, st['rv']['ops'][0])
                ex = T.expr(b, st['rv']['ops'][0])
                if (RC, f) in T.expr_fields(ex) and all(b.dominates(bi, e) for e in b.strict_ok_exits()):
                    ok = f != 'removed_reason' or (ex[0] == 'agg' and ex[1].endswith('Option::Some'))
            ctx.check(ok, R + '/RemovedConstraint::evaluate/' + f, 'T-CARRY', b.name, 'EvaluatedConstraint.%s is not set from self.%s on every success path' % (f, f), b.site())
        # the returned value is that same evaluated constraint
        for e, k, rst in b.ret_assignments():
            if k == 'ok':
                s = ctx.S.slice_operand(b, rst['rv']['ops'][0])
                ctx.check(any(c in s.call_objs for c in ce), R + '/RemovedConstraint::evaluate/returns-it', 'T-CARRY', b.name, 'returned value is not the evaluated constraint', b.site(e))


# the reported objective / constraint values are produced by the evaluation kernels
RELIES_ON = {'C01': ['C01.lookup', 'C01.fields', 'C01.every-term', 'C01.linear-none', 'C01.oneof']}


def check(ctx):
    body = ctx.method('C05.anchor/Instance::evaluate', INST, 'evaluate', trait='Evaluate')
    if body is not None: solution_rules(ctx, body)
    check_bound_rules(ctx)
    constraint_rules(ctx)
    f = ctx.method('C05.rule/EvaluatedConstraint::is_feasible/anchor', EC, 'is_feasible')
    if f is not None:
        check_feasibility_rule(ctx, 'C05.rule/EvaluatedConstraint::is_feasible', f, 'given')
        # atol > 0 guard is harmless; nothing else may reject
    ctx.floor('C05.bound', 20); ctx.floor('C05.lists', 35); ctx.floor('C05.flags', 12); ctx.floor('C05.state', 12); ctx.floor('C05.rule', 6); ctx.floor('C05.cover', 5); ctx.floor('C05.objective', 2)
