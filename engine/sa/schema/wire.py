"""Protobuf wire decoder and FileDescriptorProto reader (no protobuf package needed)."""
import ast, glob, os


def varint(b, i):
    r = 0; s = 0
    while True:
        c = b[i]; i += 1; r |= (c & 0x7f) << s; s += 7
        if not c & 0x80: return r, i
        if s > 70: raise ValueError('varint too long')


def fields(b):
    i = 0
    while i < len(b):
        k, i = varint(b, i); num = k >> 3; wt = k & 7
        if wt == 0: v, i = varint(b, i)
        elif wt == 1: v = b[i:i + 8]; i += 8
        elif wt == 2:
            l, i = varint(b, i); v = b[i:i + l]
            if i + l > len(b): raise ValueError('truncated length-delimited field')
            i += l
        elif wt == 5: v = b[i:i + 4]; i += 4
        else: raise ValueError('unsupported wire type %d' % wt)
        yield num, wt, v


def dec_field(b):
    d = {}
    for n, wt, v in fields(b):
        if n == 1: d['name'] = v.decode()
        elif n == 3: d['number'] = v
        elif n == 4: d['label'] = v
        elif n == 5: d['type'] = v
        elif n == 6: d['type_name'] = v.decode()
        elif n == 9: d['oneof_index'] = v
        elif n == 17: d['proto3_optional'] = v
        elif n == 8:
            for n2, _, v2 in fields(v):
                if n2 == 3: d['deprecated'] = v2
                if n2 == 2: d['packed'] = v2
    return d


def dec_enum(b, prefix, enums):
    name = None; vals = {}
    for n, wt, v in fields(b):
        if n == 1: name = v.decode()
        elif n == 2:
            vn = None; vv = 0
            for n2, _, v2 in fields(v):
                if n2 == 1: vn = v2.decode()
                elif n2 == 2: vv = v2
            vals[vn] = vv
    enums[prefix + name] = vals


def dec_msg(b, prefix, msgs, enums):
    name = None; flds = []; nested = []; ens = []; oneofs = []; mapentry = False
    for n, wt, v in fields(b):
        if n == 1: name = v.decode()
        elif n == 2: flds.append(dec_field(v))
        elif n == 3: nested.append(v)
        elif n == 4: ens.append(v)
        elif n == 8:
            for n2, _, v2 in fields(v):
                if n2 == 1: oneofs.append(v2.decode())
        elif n == 7:
            for n2, _, v2 in fields(v):
                if n2 == 7: mapentry = bool(v2)
    full = prefix + name
    msgs[full] = dict(fields=flds, oneofs=oneofs, map_entry=mapentry)
    for x in nested: dec_msg(x, full + '.', msgs, enums)
    for x in ens: dec_enum(x, full + '.', enums)


def load_pb2(root):
    """descriptors embedded in the *_pb2.py modules under root"""
    msgs = {}; enums = {}; files = []
    for f in sorted(glob.glob(os.path.join(root, '*_pb2.py'))):
        tree = ast.parse(open(f).read())
        blob = None
        for node in ast.walk(tree):
            if isinstance(node, ast.Call) and getattr(node.func, 'attr', None) == 'AddSerializedFile':
                blob = ast.literal_eval(node.args[0])
        if blob is None: raise ValueError('no AddSerializedFile literal in ' + f)
        pkg = None; fname = None
        for n, wt, v in fields(blob):
            if n == 2: pkg = v.decode()
            if n == 1: fname = v.decode()
        files.append(fname)
        for n, wt, v in fields(blob):
            if n == 4: dec_msg(v, pkg + '.', msgs, enums)
            elif n == 5: dec_enum(v, pkg + '.', enums)
    return msgs, enums, files


TYPES = {1: 'double', 2: 'float', 3: 'int64', 4: 'uint64', 5: 'int32', 6: 'fixed64', 7: 'fixed32', 8: 'bool', 9: 'string', 11: 'message', 12: 'bytes', 13: 'uint32', 14: 'enum',
         15: 'sfixed32', 16: 'sfixed64', 17: 'sint32', 18: 'sint64'}
