#!/usr/bin/env python3
"""tools/gen_known_fns.py — freeze the names of the crate's functions on the pinned (repaired) tree.

sa.normalize inlines calls to crate functions that are NOT in this table: a helper extracted later
is seen by the rules at its call site, while every function the rules were written against keeps its
identity.  Regenerate only when /repo's pinned HEAD changes (a new `fix:` commit)."""
import sys, os, json, subprocess
V = os.path.dirname(os.path.dirname(os.path.abspath(__file__)))
sys.path.insert(0, os.path.join(V, 'engine'))
from sa import facts
out = subprocess.run([os.path.join(V, 'run'), 'facts'], stdout=subprocess.PIPE, text=True).stdout.split()[0]
F = facts.Facts(out)
names = sorted(n for n, b in F.bodies.items() if b.kind == 'fn')
head = subprocess.run('git -C /repo rev-parse --short HEAD', shell=True, stdout=subprocess.PIPE, text=True).stdout.strip()
json.dump({'repo_head': head, 'count': len(names), 'functions': names}, open(os.path.join(V, 'engine/sa/rules/tables/known_fns.json'), 'w'), indent=0)
print(len(names), 'functions at', head)
