#!/usr/bin/env python3
"""tools/selftest_all.py [--jobs N] [--props C01,C02] — ./run selftest for every property in parallel
(each with a private cache and results file), merged into selftest/RESULTS.md."""
import sys, os, subprocess, re, concurrent.futures as cf, shutil

V = os.path.dirname(os.path.dirname(os.path.abspath(__file__)))
ROOT = os.path.join(os.environ.get('TMPDIR', '/tmp'), 'ommx-selftest-all')


def opt(name, default=None):
    if name in sys.argv: return sys.argv[sys.argv.index(name) + 1]
    return default


def job(prop):
    base = os.path.join(ROOT, prop); os.makedirs(base, exist_ok=True)
    res = os.path.join(base, 'results.md')
    if os.path.exists(res): os.unlink(res)
    env = dict(os.environ, VERIF_CACHE=os.path.join(base, 'cache'), VERIF_SELFTEST_RESULTS=res, TMPDIR=base)
    r = subprocess.run([os.path.join(V, 'run'), 'selftest', prop], cwd=V, env=env, stdout=subprocess.PIPE, stderr=subprocess.STDOUT, text=True)
    return prop, r.returncode, r.stdout, res


def main():
    props = opt('--props')
    props = props.split(',') if props else sorted(f[:-5] for f in os.listdir(os.path.join(V, 'mutants')) if re.fullmatch(r'C\d+\.json', f))
    os.makedirs(ROOT, exist_ok=True)
    rows = {}
    rp = os.path.join(V, 'selftest', 'RESULTS.md')
    if os.path.exists(rp):
        for l in open(rp):
            m = re.match(r'\| (C\d+) \| (.*?) \| (\w) \| (\w+) \| (.*) \|$', l.strip())
            if m and m.group(1) not in props: rows[(m.group(1), m.group(2))] = (m.group(3), m.group(4), m.group(5))
    bad = []
    with cf.ThreadPoolExecutor(int(opt('--jobs', '5'))) as ex:
        for prop, code, out, res in ex.map(job, props):
            last = [l for l in out.strip().split('\n') if 'as expected' in l]
            print(prop, last[-1] if last else 'NO RESULT', flush=True)
            for l in out.split('\n'):
                if ' FAIL ' in l or 'STALE' in l: print('   ', l.strip()[:220])
            if code != 0: bad.append(prop)
            if os.path.exists(res):
                for l in open(res):
                    m = re.match(r'\| (C\d+) \| (.*?) \| (\w) \| (\w+) \| (.*) \|$', l.strip())
                    if m: rows[(m.group(1), m.group(2))] = (m.group(3), m.group(4), m.group(5))
    with open(rp, 'w') as fh:
        fh.write('# selftest results (M = mutant must be reported, R = refactor must stay silent, B = unchanged tree)\n\n')
        fh.write('| prop | name | kind | result | detail |\n|---|---|---|---|---|\n')
        for (p, n), (k, r, d) in sorted(rows.items()):
            fh.write('| %s | %s | %s | %s | %s |\n' % (p, n, k, r, d))
    shutil.rmtree(ROOT, ignore_errors=True)
    print('not all as expected:', bad or 'none')
    sys.exit(1 if bad else 0)


if __name__ == '__main__':
    main()
